package main

import (
	"go/types"

	"golang.org/x/tools/go/ssa"
)

func (ex *Exec) builtinCall(fr *Frame, st *State, site ssa.Instruction, b *ssa.Builtin, c *ssa.CallCommon, args []Val) []Val {
	switch b.Name() {
	case "ssa:deferstack":
		return []Val{nil}
	case "ssa:wrapnilchk":
		return []Val{args[0]}
	case "len", "cap":
		t := c.Args[0].Type()
		switch u := t.Underlying().(type) {
		case *types.Slice:
			if b.Name() == "len" {
				return []Val{args[0].(*Agg).F[2]}
			}
			return []Val{args[0].(*Agg).F[3]}
		case *types.Basic:
			return []Val{ex.slen(args[0].(*Term))}
		case *types.Map:
			l := st.heap.mapLen(args[0].(*Term))
			if !l.hasBound {
				ex.fact(nil, Ge(l, IntT(0)))
			}
			// a nil map is empty
			return []Val{Ite(Eq(args[0].(*Term), Null()), IntT(0), l)}
		case *types.Array:
			return []Val{IntT(u.Len())}
		case *types.Pointer:
			return []Val{IntT(u.Elem().Underlying().(*types.Array).Len())}
		}
	case "min", "max":
		x, y := args[0].(*Term), args[1].(*Term)
		if x.Sort == SInt {
			if b.Name() == "min" {
				return []Val{Ite(Le(x, y), x, y)}
			}
			return []Val{Ite(Ge(x, y), x, y)}
		}
	case "append":
		return []Val{ex.appendOp(fr, st, site, c, args)}
	case "copy":
		dst := args[0].(*Agg)
		st2 := c.Args[0].Type().Underlying().(*types.Slice)
		ex.havocElems(st, dst.F[0].(*Term), st2.Elem())
		n := Fresh("copied", SInt)
		var srcLen *Term
		if sa, ok := args[1].(*Agg); ok {
			srcLen = sa.F[2].(*Term)
		} else {
			srcLen = ex.slen(args[1].(*Term))
		}
		dl := dst.F[2].(*Term)
		ex.fact(nil, Eq(n, Ite(Le(dl, srcLen), dl, srcLen)))
		return []Val{n}
	case "delete":
		mt := c.Args[0].Type().Underlying().(*types.Map)
		st.heap.mapDelete(args[0].(*Term), mt, args[1].(*Term))
		return []Val{nil}
	case "clear":
		if mt, ok := c.Args[0].Type().Underlying().(*types.Map); ok {
			st.heap.mapInitEmpty(args[0].(*Term), mt)
			return []Val{nil}
		}
	case "print", "println":
		return []Val{nil}
	case "recover":
		return []Val{&Agg{F: []Val{IntT(0), Null()}}}
	}
	unsupp("builtin %s", b.Name())
	return nil
}

// appendOp models append(s, e...) with both outcomes: in place when capacity allows, otherwise a
// fresh backing array holding a copy of the prefix. Appended elements are stored one by one when
// their number is a literal, otherwise the element cells of the result are unconstrained.
func (ex *Exec) appendOp(fr *Frame, st *State, site ssa.Instruction, c *ssa.CallCommon, args []Val) Val {
	return ex.appendTo(st, c.Args[0].Type().Underlying().(*types.Slice), args)
}

// appendTo is append(args[0], args[1]...) for a slice of type sl (args[1]: a slice or, for []byte, a string).
func (ex *Exec) appendTo(st *State, sl *types.Slice, args []Val) Val {
	s := args[0].(*Agg)
	arr, off, ln, cp := s.F[0].(*Term), s.F[1].(*Term), s.F[2].(*Term), s.F[3].(*Term)
	var n *Term
	var srcElem func(j *Term) Val // nil when contents are not tracked
	switch e := args[1].(type) {
	case *Agg: // slice
		n = e.F[2].(*Term)
		ea, eo := e.F[0].(*Term), e.F[1].(*Term)
		srcElem = func(j *Term) Val { return st.heap.load(Elt(ea, Add(eo, j)), sl.Elem(), nil) }
	case *Term: // string appended to []byte
		n = ex.slen(e)
		srcElem = func(j *Term) Val { return SAt(e, j) }
	}
	newLen := Add(ln, n)
	inplace := Le(newLen, cp)
	fresh := ex.newObj()
	ncap := Fresh("appcap", SInt)
	ex.fact(nil, Ge(ncap, newLen))
	rArr := Ite(inplace, arr, fresh)
	rOff := Ite(inplace, off, IntT(0))
	rCap := Ite(inplace, cp, ncap)
	// prefix copied into the fresh array (facts about cells of a brand-new object)
	i := BoundVar("ai", SInt)
	old := st.heap.load(Elt(arr, Add(off, i)), sl.Elem(), nil)
	nw := st.heap.load(Elt(fresh, i), sl.Elem(), nil)
	lo, lnw := flatten(old, nil), flatten(nw, nil)
	for k := range lo {
		ex.fact(st, Implies(Not(inplace), Forall([]*Term{i}, Implies(And(Le(IntT(0), i), Lt(i, ln)), SameVal(lnw[k], lo[k])))))
	}
	if cnt, ok := n.IsInt(); ok && cnt <= 8 {
		// read all sources first (they may alias the destination)
		var vals []Val
		for j := int64(0); j < cnt; j++ {
			vals = append(vals, srcElem(IntT(j)))
		}
		for j := int64(0); j < cnt; j++ {
			st.heap.store(Elt(rArr, Add(rOff, Add(ln, IntT(j)))), sl.Elem(), vals[j])
		}
	} else {
		// unknown number of elements: cells [ln, ln+n) of the result become arbitrary, then are
		// constrained pointwise by a quantified fact.
		pre := st.clone()
		ex.havocElemsRange(st, rArr, sl.Elem(), Add(rOff, ln), Add(rOff, newLen))
		j := BoundVar("aj", SInt)
		var src Val
		switch e := args[1].(type) {
		case *Agg:
			src = pre.heap.load(Elt(e.F[0].(*Term), Add(e.F[1].(*Term), j)), sl.Elem(), nil)
		case *Term:
			src = SAt(e, j)
		}
		dst := st.heap.load(Elt(rArr, Add(rOff, Add(ln, j))), sl.Elem(), nil)
		ls, ld := flatten(src, nil), flatten(dst, nil)
		for k := range ls {
			ex.fact(st, Forall([]*Term{j}, Implies(And(Le(IntT(0), j), Lt(j, n)), SameVal(ld[k], ls[k]))))
		}
	}
	return &Agg{F: []Val{rArr, rOff, newLen, rCap}}
}

// havocElemsRange havocs the element cells arr[lo..hi) (all leaves).
func (ex *Exec) havocElemsRange(st *State, arr *Term, et types.Type, lo, hi *Term) {
	p := BoundVar("fp", SPtr)
	seen := map[string]bool{}
	for _, l := range typeLeaves(et, "", nil) {
		if seen[l.sort] {
			continue
		}
		seen[l.sort] = true
		n, s := heapName(l.sort)
		old := st.heap.array(n, s)
		nw := Fresh(n+"@app", s)
		ex.fact(nil, Forall([]*Term{p}, Or(elemLeafOf(p, arr, et, l.sort, lo, hi), SameVal(Select(nw, p), Select(old, p)))))
		st.heap.set(n, nw)
	}
}

func rootedAtElemRange(p, arr, lo, hi *Term) *Term {
	isElt := func(q *Term) *Term {
		idx := P.mk("eidx", "", SInt, []*Term{q}, nil)
		return And(P.mk("(_ is elt)", "", SBool, []*Term{q}, nil), Eq(P.mk("ebase", "", SPtr, []*Term{q}, nil), arr), Le(lo, idx), Lt(idx, hi))
	}
	isFld := func(q *Term) *Term { return P.mk("(_ is fld)", "", SBool, []*Term{q}, nil) }
	fb := func(q *Term) *Term { return P.mk("fbase", "", SPtr, []*Term{q}, nil) }
	d0 := isElt(p)
	d1 := And(isFld(p), isElt(fb(p)))
	d2 := And(isFld(p), isFld(fb(p)), isElt(fb(fb(p))))
	return Or(d0, d1, d2)
}
