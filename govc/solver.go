package main

// Solver race: z3-new 5.1.0, z3 4.8.12, cvc5 1.0.x on the same SMT-LIB2 script.

import (
	"bytes"
	"context"
	"os"
	"os/exec"
	"path/filepath"
	"strings"
	"sync"
	"time"
)

type SolveResult struct {
	Status  string // unsat | sat | unknown | timeout | error
	Solver  string
	Seconds float64
	Output  string            // raw output of the deciding solver (or concatenation when undecided)
	Values  map[string]string // get-value pairs when sat
	ByName  map[string]string // status per solver (thorough tier)
}

type solverSpec struct {
	name string
	args func(file string, timeoutMs int) []string
}

var solvers = []solverSpec{
	{"z3-new", func(f string, ms int) []string { return []string{"z3-new", "-T:" + itoa(ms/1000+1), "-t:" + itoa(ms), f} }},
	{"z3-new-ematch", func(f string, ms int) []string {
		return []string{"z3-new", "-T:" + itoa(ms/1000+1), "-t:" + itoa(ms), "smt.mbqi=false", "smt.auto_config=false", f}
	}},
	{"z3", func(f string, ms int) []string { return []string{"z3", "-T:" + itoa(ms/1000+1), "-t:" + itoa(ms), f} }},
	{"cvc5", func(f string, ms int) []string {
		return []string{"cvc5", "--produce-models", "--tlimit=" + itoa(ms), f}
	}},
}

func itoa(n int) string {
	if n == 0 {
		return "0"
	}
	s := ""
	neg := n < 0
	if neg {
		n = -n
	}
	for n > 0 {
		s = string(rune('0'+n%10)) + s
		n /= 10
	}
	if neg {
		s = "-" + s
	}
	return s
}

var solverSem = make(chan struct{}, 16)

func runOne(ctx context.Context, sp solverSpec, file string, timeoutMs int) (status, out string, secs float64) {
	solverSem <- struct{}{}
	defer func() { <-solverSem }()
	if ctx.Err() != nil {
		return "cancelled", "", 0
	}
	a := sp.args(file, timeoutMs)
	cctx, cancel := context.WithTimeout(ctx, time.Duration(timeoutMs+1500)*time.Millisecond)
	defer cancel()
	cmd := exec.CommandContext(cctx, a[0], a[1:]...)
	var buf bytes.Buffer
	cmd.Stdout = &buf
	cmd.Stderr = &buf
	t0 := time.Now()
	_ = cmd.Run()
	secs = time.Since(t0).Seconds()
	out = buf.String()
	first := strings.TrimSpace(strings.SplitN(out, "\n", 2)[0])
	switch first {
	case "unsat", "sat", "unknown":
		return first, out, secs
	case "timeout":
		return "timeout", out, secs
	}
	if ctx.Err() != nil {
		return "cancelled", out, secs
	}
	if cctx.Err() != nil {
		return "timeout", out, secs
	}
	if strings.Contains(out, "timeout") || strings.Contains(out, "interrupted") {
		return "timeout", out, secs
	}
	return "error", out, secs
}

// SolveSeeded retries an undecided query on the two z3-new configurations with other random seeds
// (the search of an SMT solver over quantified facts is heuristic: an "unknown" is often an
// artefact of one instantiation order). Only "unsat" is accepted from it.
func SolveSeeded(script string, dir, name string, timeoutMs int) SolveResult {
	file := filepath.Join(dir, name+".smt2")
	for seed := 1; seed <= 3; seed++ {
		for _, extra := range [][]string{{}, {"smt.mbqi=false", "smt.auto_config=false"}} {
			sd := itoa(seed * 7919)
			args := append([]string{"z3-new", "-T:" + itoa(timeoutMs/1000+1), "-t:" + itoa(timeoutMs), "smt.random_seed=" + sd, "sat.random_seed=" + sd}, extra...)
			args = append(args, file)
			sp := solverSpec{name: "z3-new(seed " + sd + ")", args: func(string, int) []string { return args }}
			st, out, secs := runOne(context.Background(), sp, file, timeoutMs)
			if st == "unsat" {
				return SolveResult{Status: "unsat", Solver: sp.name, Seconds: secs, Output: out}
			}
		}
	}
	return SolveResult{Status: "unknown"}
}

// Solve races the solvers. In "all" mode every solver runs to completion and results are recorded.
func Solve(script string, dir, name string, timeoutMs int, all bool) SolveResult {
	file := filepath.Join(dir, name+".smt2")
	_ = os.MkdirAll(dir, 0o755)
	_ = os.WriteFile(file, []byte(script), 0o644)
	ctx, cancel := context.WithCancel(context.Background())
	defer cancel()
	type r struct {
		solver, status, out string
		secs                float64
	}
	ch := make(chan r, len(solvers))
	var wg sync.WaitGroup
	for i, sp := range solvers {
		wg.Add(1)
		go func(i int, sp solverSpec) {
			defer wg.Done()
			if !all && i > 1 {
				// stagger: give the two z3-new configurations a head start to save CPU
				select {
				case <-ctx.Done():
					ch <- r{sp.name, "cancelled", "", 0}
					return
				case <-time.After(time.Duration(200*i) * time.Millisecond):
				}
			}
			st, out, secs := runOne(ctx, sp, file, timeoutMs)
			ch <- r{sp.name, st, out, secs}
		}(i, sp)
	}
	res := SolveResult{Status: "unknown", ByName: map[string]string{}}
	var undec []string
	got := 0
	for got < len(solvers) {
		x := <-ch
		got++
		res.ByName[x.solver] = x.status
		if (x.status == "unsat" || x.status == "sat") && res.Solver == "" {
			res.Status = x.status
			res.Solver = x.solver
			res.Seconds = x.secs
			res.Output = x.out
			if !all {
				cancel()
				break
			}
		} else if x.status != "cancelled" {
			undec = append(undec, x.solver+": "+x.status+"\n"+trunc(x.out, 600))
			if x.secs > res.Seconds && res.Solver == "" {
				res.Seconds = x.secs
			}
		}
	}
	go func() { wg.Wait() }()
	if res.Solver == "" {
		res.Output = strings.Join(undec, "\n")
		to := true
		for _, s := range res.ByName {
			if s != "timeout" && s != "cancelled" {
				to = false
			}
		}
		if to {
			res.Status = "timeout"
		}
	}
	if res.Status == "sat" {
		res.Values = parseValues(res.Output)
	}
	return res
}

func trunc(s string, n int) string {
	if len(s) > n {
		return s[:n] + "…"
	}
	return s
}

// parseValues parses "((a 1) (b (- 2)) ...)" into a map from the printed term to its value text.
func parseValues(out string) map[string]string {
	m := map[string]string{}
	i := strings.Index(out, "\n")
	if i < 0 {
		return m
	}
	s := strings.TrimSpace(out[i+1:])
	if !strings.HasPrefix(s, "(") {
		return m
	}
	// tokenise into s-expressions at depth 1
	depth := 0
	start := -1
	for j := 0; j < len(s); j++ {
		switch s[j] {
		case '|':
			k := strings.IndexByte(s[j+1:], '|')
			if k >= 0 {
				j += k + 1
			}
		case '(':
			depth++
			if depth == 2 {
				start = j
			}
		case ')':
			if depth == 2 && start >= 0 {
				pair := s[start+1 : j]
				k, v := splitSexp(pair)
				m[k] = v
				start = -1
			}
			depth--
			if depth == 0 {
				return m
			}
		}
	}
	return m
}

// splitSexp splits "key value" where key is one s-expression.
func splitSexp(p string) (string, string) {
	p = strings.TrimSpace(p)
	depth := 0
	for i := 0; i < len(p); i++ {
		switch p[i] {
		case '|':
			k := strings.IndexByte(p[i+1:], '|')
			if k >= 0 {
				i += k + 1
			}
		case '(':
			depth++
		case ')':
			depth--
		case ' ', '\n', '\t':
			if depth == 0 {
				return p[:i], strings.TrimSpace(p[i+1:])
			}
		}
	}
	return p, ""
}
