package main

// Symbolic values, type layout, heap model.

import (
	"fmt"
	"go/constant"
	"go/token"
	"go/types"
	"math/big"
	"strings"

	"golang.org/x/tools/go/ssa"
)

type Val interface{}

// Agg is an aggregate value: struct fields, array elements, tuple components,
// slice header {arr, off, len, cap}, interface {tag, payload}.
type Agg struct {
	F []Val
}

// FuncVal is a statically known function value (function, closure with bindings, bound method).
type FuncVal struct {
	Fn       *ssa.Function
	Bindings []Val
}

// LocalPtr points into a non-escaping local cell.
type LocalPtr struct {
	Cell *ssa.Alloc
	Path []pathElem
}
type pathElem struct {
	Field int   // >=0: struct field / constant array index
	Index *Term // non-nil: symbolic array index
}

type unsupported struct{ msg string }

func (u unsupported) Error() string { return u.msg }
func unsupp(f string, a ...any) {
	panic(unsupported{fmt.Sprintf(f, a...)})
}

// ---- type layout

func isTimeTime(t types.Type) bool {
	if n, ok := t.(*types.Named); ok {
		o := n.Obj()
		return o.Pkg() != nil && o.Pkg().Path() == "time" && o.Name() == "Time"
	}
	return false
}

// opaqueNamed lists named struct types modelled as a single uninterpreted leaf.
func opaqueLeaf(t types.Type) (string, bool) {
	if n, ok := t.(*types.Named); ok {
		o := n.Obj()
		if o.Pkg() == nil {
			return "", false
		}
		switch o.Pkg().Path() + "." + o.Name() {
		case "time.Time":
			return SInt, true
		case "net/netip.Addr", "net/netip.Prefix":
			return SInt, true
		}
	}
	return "", false
}

type kind int

const (
	kLeaf kind = iota
	kStruct
	kArray
	kSlice
	kIface
	kTuple
)

func kindOf(t types.Type) kind {
	if _, ok := opaqueLeaf(t); ok {
		return kLeaf
	}
	switch u := t.Underlying().(type) {
	case *types.Struct:
		return kStruct
	case *types.Array:
		_ = u
		return kArray
	case *types.Slice:
		return kSlice
	case *types.Interface:
		return kIface
	case *types.Tuple:
		return kTuple
	}
	if _, ok := t.(*types.TypeParam); ok {
		unsupp("uninstantiated type parameter %s", t)
	}
	return kLeaf
}

func leafSort(t types.Type) string {
	if s, ok := opaqueLeaf(t); ok {
		return s
	}
	switch u := t.Underlying().(type) {
	case *types.Basic:
		switch {
		case u.Info()&types.IsBoolean != 0:
			return SBool
		case u.Info()&types.IsInteger != 0:
			return SInt
		case u.Info()&types.IsFloat != 0:
			return SF64
		case u.Info()&types.IsString != 0:
			return SStr
		case u.Kind() == types.UnsafePointer:
			return SPtr
		case u.Kind() == types.UntypedNil:
			return SPtr
		}
		unsupp("basic type %s", t)
	case *types.Pointer, *types.Map, *types.Chan, *types.Signature:
		return SPtr
	}
	unsupp("leafSort of %s", t)
	return ""
}

func isUnsigned(t types.Type) bool {
	if b, ok := t.Underlying().(*types.Basic); ok {
		return b.Info()&types.IsUnsigned != 0
	}
	return false
}

// unsignedRange: 0 <= v, and v < 2^bits for the sized unsigned types up to 32 bits (uint, uint64
// and uintptr stay unbounded above: integers are mathematical).
func unsignedRange(t types.Type, v *Term) *Term {
	f := Ge(v, IntT(0))
	if b, ok := t.Underlying().(*types.Basic); ok {
		switch b.Kind() {
		case types.Uint8:
			f = And(f, Lt(v, IntT(1<<8)))
		case types.Uint16:
			f = And(f, Lt(v, IntT(1<<16)))
		case types.Uint32:
			f = And(f, Lt(v, IntT(1<<32)))
		}
	}
	return f
}

const maxArrayLen = 64

// arrayLen: number of modelled elements. Arrays longer than maxArrayLen (the only instance on the
// verified paths is text/scanner's internal 1 KiB buffer) are not modelled at all: they have no
// cells, and any attempt of verified code to index them is rejected (see indexAddr), so that not
// copying their contents is unobservable.
func arrayLen(t types.Type) int {
	a := t.Underlying().(*types.Array)
	if a.Len() > maxArrayLen {
		return 0
	}
	return int(a.Len())
}

var sliceIntT = types.Typ[types.Int]

// ---- value constructors

func zeroVal(t types.Type) Val {
	switch kindOf(t) {
	case kLeaf:
		switch leafSort(t) {
		case SBool:
			return False()
		case SInt:
			if isTimeTime(t) {
				return zeroTimeTerm()
			}
			return IntT(0)
		case SF64:
			return F64T(0)
		case SStr:
			return StrLit("")
		case SPtr:
			return Null()
		}
	case kStruct:
		st := t.Underlying().(*types.Struct)
		a := &Agg{}
		for i := 0; i < st.NumFields(); i++ {
			a.F = append(a.F, zeroVal(st.Field(i).Type()))
		}
		return a
	case kArray:
		n := arrayLen(t)
		et := t.Underlying().(*types.Array).Elem()
		a := &Agg{}
		for i := 0; i < n; i++ {
			a.F = append(a.F, zeroVal(et))
		}
		return a
	case kSlice:
		return &Agg{F: []Val{Null(), IntT(0), IntT(0), IntT(0)}}
	case kIface:
		return &Agg{F: []Val{IntT(0), Null()}}
	case kTuple:
		tu := t.(*types.Tuple)
		a := &Agg{}
		for i := 0; i < tu.Len(); i++ {
			a.F = append(a.F, zeroVal(tu.At(i).Type()))
		}
		return a
	}
	unsupp("zeroVal %s", t)
	return nil
}

// zeroTimeNs is the abstract nanosecond value of time.Time{} (year 1): far below any real timestamp.
func zeroTimeTerm() *Term {
	n, _ := new(big.Int).SetString("-62135596800000000000", 10)
	return BigIntT(n)
}

// freshVal builds an unconstrained symbolic value; facts receives type invariants.
func freshVal(t types.Type, name string, facts *[]*Term) Val {
	switch kindOf(t) {
	case kLeaf:
		v := Fresh(name, leafSort(t))
		if isUnsigned(t) && facts != nil {
			*facts = append(*facts, unsignedRange(t, v))
		}
		if v.Sort == SStr && facts != nil {
			*facts = append(*facts, Ge(SLen(v), IntT(0)))
		}
		return v
	case kStruct:
		st := t.Underlying().(*types.Struct)
		a := &Agg{}
		for i := 0; i < st.NumFields(); i++ {
			a.F = append(a.F, freshVal(st.Field(i).Type(), name+"."+st.Field(i).Name(), facts))
		}
		return a
	case kArray:
		n := arrayLen(t)
		et := t.Underlying().(*types.Array).Elem()
		a := &Agg{}
		for i := 0; i < n; i++ {
			a.F = append(a.F, freshVal(et, fmt.Sprintf("%s.%d", name, i), facts))
		}
		return a
	case kSlice:
		arr, off, ln, cp := Fresh(name+".arr", SPtr), Fresh(name+".off", SInt), Fresh(name+".len", SInt), Fresh(name+".cap", SInt)
		if facts != nil {
			*facts = append(*facts, sliceInv(arr, off, ln, cp))
		}
		return &Agg{F: []Val{arr, off, ln, cp}}
	case kIface:
		tag, pl := Fresh(name+".tag", SInt), Fresh(name+".pl", SPtr)
		if facts != nil {
			*facts = append(*facts, Ge(tag, IntT(0)), Implies(Eq(tag, IntT(0)), Eq(pl, Null())))
		}
		return &Agg{F: []Val{tag, pl}}
	case kTuple:
		tu := t.(*types.Tuple)
		a := &Agg{}
		for i := 0; i < tu.Len(); i++ {
			a.F = append(a.F, freshVal(tu.At(i).Type(), fmt.Sprintf("%s.%d", name, i), facts))
		}
		return a
	}
	unsupp("freshVal %s", t)
	return nil
}

func sliceInv(arr, off, ln, cp *Term) *Term {
	return And(Ge(off, IntT(0)), Ge(ln, IntT(0)), Le(ln, cp),
		Implies(Eq(arr, Null()), Eq(cp, IntT(0))))
}

// typeFacts returns the type invariants of an existing value.
func typeFacts(v Val, t types.Type, facts *[]*Term) {
	switch kindOf(t) {
	case kLeaf:
		if isUnsigned(t) {
			if tm, ok := v.(*Term); ok && !tm.hasBound {
				*facts = append(*facts, unsignedRange(t, tm))
			}
		}
	case kStruct:
		st := t.Underlying().(*types.Struct)
		a := v.(*Agg)
		for i := 0; i < st.NumFields(); i++ {
			typeFacts(a.F[i], st.Field(i).Type(), facts)
		}
	case kSlice:
		a := v.(*Agg)
		f := sliceInv(a.F[0].(*Term), a.F[1].(*Term), a.F[2].(*Term), a.F[3].(*Term))
		if !f.hasBound {
			*facts = append(*facts, f)
		}
	}
}

// flatten lists the leaf terms of a value in layout order.
func flatten(v Val, out []*Term) []*Term {
	switch x := v.(type) {
	case *Term:
		return append(out, x)
	case *Agg:
		for _, f := range x.F {
			out = flatten(f, out)
		}
		return out
	case *FuncVal:
		return append(out, funcValPtr(x))
	case nil:
		return out
	}
	unsupp("flatten %T", v)
	return nil
}

// Function values get one id per closure instance (function + bindings); closureByID lets a
// specification call a function value that was merged into an ite-tree of such ids.
var fnIDs = map[*FuncVal]int{}
var plainFnIDs = map[*ssa.Function]int{}
var closureByID = map[int]*FuncVal{}

// resetClosureIDs starts a new numbering: ids are meaningful inside one function's verification
// conditions only, and what one function's symbolic execution has seen must not leak into the next
// (the result of a run may not depend on the order or the set of targets).
func resetClosureIDs() {
	fnIDs = map[*FuncVal]int{}
	plainFnIDs = map[*ssa.Function]int{}
	closureByID = map[int]*FuncVal{}
}

func funcValPtr(f *FuncVal) *Term {
	if len(f.Bindings) == 0 {
		id, ok := plainFnIDs[f.Fn]
		if !ok {
			id = len(closureByID) + 1
			plainFnIDs[f.Fn] = id
			closureByID[id] = f
		}
		return FnPtr(id)
	}
	id, ok := fnIDs[f]
	if !ok {
		id = len(closureByID) + 1
		fnIDs[f] = id
		closureByID[id] = f
	}
	return FnPtr(id)
}

// mapVals applies f to each leaf, rebuilding the structure.
func mapLeaves2(a, b Val, f func(x, y *Term) *Term) Val {
	switch x := a.(type) {
	case *Term:
		y, ok := b.(*Term)
		if !ok {
			if fv, ok2 := b.(*FuncVal); ok2 {
				y = funcValPtr(fv)
			} else {
				unsupp("merge of %T with %T", a, b)
			}
		}
		return f(x, y)
	case *Agg:
		y, ok := b.(*Agg)
		if !ok || len(x.F) != len(y.F) {
			unsupp("merge of aggregates of different shape")
		}
		r := &Agg{F: make([]Val, len(x.F))}
		for i := range x.F {
			r.F[i] = mapLeaves2(x.F[i], y.F[i], f)
		}
		return r
	case *FuncVal:
		if y, ok := b.(*FuncVal); ok && y.Fn == x.Fn && len(x.Bindings) == len(y.Bindings) {
			same := true
			for i := range x.Bindings {
				if !sameVal(x.Bindings[i], y.Bindings[i]) {
					same = false
				}
			}
			if same {
				return x
			}
		}
		if y, ok := b.(*Term); ok {
			return f(funcValPtr(x), y)
		}
		if y, ok := b.(*FuncVal); ok {
			return f(funcValPtr(x), funcValPtr(y))
		}
	case *LocalPtr:
		if y, ok := b.(*LocalPtr); ok && sameVal(x, y) {
			return x
		}
	case nil:
		if b == nil {
			return nil
		}
	}
	unsupp("merge of %T with %T", a, b)
	return nil
}

func sameVal(a, b Val) bool {
	switch x := a.(type) {
	case *Term:
		y, ok := b.(*Term)
		return ok && x == y
	case *Agg:
		y, ok := b.(*Agg)
		if !ok || len(x.F) != len(y.F) {
			return false
		}
		for i := range x.F {
			if !sameVal(x.F[i], y.F[i]) {
				return false
			}
		}
		return true
	case *FuncVal:
		y, ok := b.(*FuncVal)
		if !ok || x.Fn != y.Fn || len(x.Bindings) != len(y.Bindings) {
			return false
		}
		for i := range x.Bindings {
			if !sameVal(x.Bindings[i], y.Bindings[i]) {
				return false
			}
		}
		return true
	case *LocalPtr:
		y, ok := b.(*LocalPtr)
		if !ok || x.Cell != y.Cell || len(x.Path) != len(y.Path) {
			return false
		}
		for i := range x.Path {
			if x.Path[i] != y.Path[i] {
				return false
			}
		}
		return true
	case nil:
		return b == nil
	}
	return false
}

func iteVal(c *Term, a, b Val) Val {
	if sameVal(a, b) {
		return a
	}
	return mapLeaves2(a, b, func(x, y *Term) *Term { return Ite(c, x, y) })
}

// eqVal is Go's == on comparable values.
func eqVal(a, b Val) *Term {
	la, lb := flatten(a, nil), flatten(b, nil)
	if len(la) != len(lb) {
		unsupp("== on values of different shape")
	}
	var cs []*Term
	for i := range la {
		cs = append(cs, Eq(la[i], lb[i]))
	}
	return And(cs...)
}

// constVal converts a go/constant to a value of type t.
func constVal(c constant.Value, t types.Type) Val {
	if c == nil {
		return zeroVal(t)
	}
	switch kindOf(t) {
	case kIface:
		unsupp("constant of interface type")
	}
	switch leafSort(t) {
	case SBool:
		return BoolT(constant.BoolVal(c))
	case SInt:
		if i, ok := constant.Int64Val(constant.ToInt(c)); ok {
			return IntT(i)
		}
		if bi, ok := constant.Val(constant.ToInt(c)).(*big.Int); ok {
			return BigIntT(bi)
		}
		unsupp("int constant %s", c)
	case SF64:
		f, _ := constant.Float64Val(constant.ToFloat(c))
		return F64T(f)
	case SStr:
		return StrLit(constant.StringVal(c))
	}
	unsupp("constant %s of type %s", c, t)
	return nil
}

// ---- heap

type Heap struct {
	arr   map[string]*Term
	ver   *Term
	epoch string // suffix of the symbolic array standing for "untouched since the last total havoc"
}

var knownArrays = map[string]string{}
var epochCtr int

func newHeap(tag string) *Heap {
	return &Heap{arr: map[string]*Term{}, ver: Fresh("hv", SInt), epoch: "@0"}
}

func (h *Heap) clone() *Heap {
	n := &Heap{arr: make(map[string]*Term, len(h.arr)), ver: h.ver, epoch: h.epoch}
	for k, v := range h.arr {
		n.arr[k] = v
	}
	return n
}

// array returns the current term of a heap array (initial symbolic array when untouched).
func (h *Heap) array(name, sort string) *Term {
	knownArrays[name] = sort
	if t, ok := h.arr[name]; ok {
		return t
	}
	return Const(name+h.epoch, sort)
}

func (h *Heap) set(name string, t *Term) {
	if knownArrays[name] == "" {
		knownArrays[name] = t.Sort
	}
	h.arr[name] = t
	h.ver = Fresh("hv", SInt)
}

func heapName(sort string) (string, string) {
	switch sort {
	case SInt:
		return "H_Int", arrSort(SPtr, SInt)
	case SBool:
		return "H_Bool", arrSort(SPtr, SBool)
	case SStr:
		return "H_Str", arrSort(SPtr, SStr)
	case SPtr:
		return "H_Ptr", arrSort(SPtr, SPtr)
	case SF64:
		return "H_F64", arrSort(SPtr, SF64)
	}
	panic("heapName " + sort)
}

func (h *Heap) loadLeaf(p *Term, sort string) *Term {
	n, s := heapName(sort)
	return Select(h.array(n, s), p)
}
func (h *Heap) storeLeaf(p *Term, v *Term) {
	n, s := heapName(v.Sort)
	h.set(n, Store(h.array(n, s), p, v))
}

// layoutFields enumerates the (sub-pointer, type) pairs of an aggregate at p.
func (h *Heap) load(p *Term, t types.Type, facts *[]*Term) Val {
	switch kindOf(t) {
	case kLeaf:
		v := h.loadLeaf(p, leafSort(t))
		if isUnsigned(t) && facts != nil && !v.hasBound {
			*facts = append(*facts, unsignedRange(t, v))
		}
		return v
	case kStruct:
		st := t.Underlying().(*types.Struct)
		a := &Agg{}
		for i := 0; i < st.NumFields(); i++ {
			a.F = append(a.F, h.load(Fld(p, fieldID(st, i)), st.Field(i).Type(), facts))
		}
		return a
	case kArray:
		n := arrayLen(t)
		et := t.Underlying().(*types.Array).Elem()
		a := &Agg{}
		for i := 0; i < n; i++ {
			a.F = append(a.F, h.load(Elt(p, IntT(int64(i))), et, facts))
		}
		return a
	case kSlice:
		arr, off, ln, cp := h.loadLeaf(Fld(p, 1), SPtr), h.loadLeaf(Fld(p, 2), SInt), h.loadLeaf(Fld(p, 3), SInt), h.loadLeaf(Fld(p, 4), SInt)
		if facts != nil && !arr.hasBound && !off.hasBound {
			*facts = append(*facts, sliceInv(arr, off, ln, cp))
		}
		return &Agg{F: []Val{arr, off, ln, cp}}
	case kIface:
		return &Agg{F: []Val{h.loadLeaf(Fld(p, 5), SInt), h.loadLeaf(Fld(p, 6), SPtr)}}
	}
	unsupp("heap load of %s", t)
	return nil
}

func (h *Heap) store(p *Term, t types.Type, v Val) {
	switch kindOf(t) {
	case kLeaf:
		switch x := v.(type) {
		case *Term:
			h.storeLeaf(p, x)
		case *FuncVal:
			h.storeLeaf(p, funcValPtr(x))
		default:
			unsupp("store of %T as leaf %s", v, t)
		}
		return
	case kStruct:
		st := t.Underlying().(*types.Struct)
		a := v.(*Agg)
		for i := 0; i < st.NumFields(); i++ {
			h.store(Fld(p, fieldID(st, i)), st.Field(i).Type(), a.F[i])
		}
		return
	case kArray:
		n := arrayLen(t)
		et := t.Underlying().(*types.Array).Elem()
		a := v.(*Agg)
		for i := 0; i < n; i++ {
			h.store(Elt(p, IntT(int64(i))), et, a.F[i])
		}
		return
	case kSlice:
		a := v.(*Agg)
		for i := 0; i < 4; i++ {
			h.storeLeaf(Fld(p, i+1), a.F[i].(*Term))
		}
		return
	case kIface:
		a := v.(*Agg)
		h.storeLeaf(Fld(p, 5), a.F[0].(*Term))
		h.storeLeaf(Fld(p, 6), a.F[1].(*Term))
		return
	}
	unsupp("heap store of %s", t)
}

// havocAll replaces every heap array (including ones not yet touched) by fresh ones.
func (h *Heap) havocAll() {
	epochCtr++
	h.arr = map[string]*Term{}
	h.epoch = fmt.Sprintf("@h%d", epochCtr)
	h.ver = Fresh("hv", SInt)
}

// havocReal havocs the program heap but keeps ghost state (arrays named G@...).
func (h *Heap) havocReal() {
	keep := map[string]*Term{}
	for g, sort := range ghostSorts {
		keep["G@"+g] = h.array("G@"+g, sort)
	}
	for n := range knownArrays {
		if strings.HasPrefix(n, "G@") {
			keep[n] = h.array(n, knownArrays[n])
		}
	}
	h.havocAll()
	for n, t := range keep {
		h.arr[n] = t
	}
}

// ---- maps
//
// A map value is a Ptr. State: Mdom@K : Ptr -> (K -> Bool), Mval@K@path : Ptr -> (K -> leaf),
// Mlen : Ptr -> Int.

func mapKeySort(mt *types.Map) string {
	if kindOf(mt.Key()) != kLeaf {
		unsupp("map key type %s", mt.Key())
	}
	return leafSort(mt.Key())
}

func sortTag(s string) string {
	return strings.NewReplacer("(", "", ")", "", " ", "_").Replace(s)
}

func mdomName(ks string) (string, string) {
	return "Mdom@" + sortTag(ks), arrSort(SPtr, arrSort(ks, SBool))
}
func mvalName(ks string, path string, vs string) (string, string) {
	return "Mval@" + sortTag(ks) + "@" + path + "@" + sortTag(vs), arrSort(SPtr, arrSort(ks, vs))
}

const mlenName = "Mlen"

var mlenSort = arrSort(SPtr, SInt)

type leafInfo struct {
	path string
	sort string
}

// valueLeaves lists leaf (path,sort) of a type in layout order.
func typeLeaves(t types.Type, prefix string, out []leafInfo) []leafInfo {
	switch kindOf(t) {
	case kLeaf:
		return append(out, leafInfo{prefix, leafSort(t)})
	case kStruct:
		st := t.Underlying().(*types.Struct)
		for i := 0; i < st.NumFields(); i++ {
			out = typeLeaves(st.Field(i).Type(), fmt.Sprintf("%s.%d", prefix, i), out)
		}
		return out
	case kArray:
		n := arrayLen(t)
		et := t.Underlying().(*types.Array).Elem()
		for i := 0; i < n; i++ {
			out = typeLeaves(et, fmt.Sprintf("%s.%d", prefix, i), out)
		}
		return out
	case kSlice:
		return append(out, leafInfo{prefix + ".arr", SPtr}, leafInfo{prefix + ".off", SInt}, leafInfo{prefix + ".len", SInt}, leafInfo{prefix + ".cap", SInt})
	case kIface:
		return append(out, leafInfo{prefix + ".tag", SInt}, leafInfo{prefix + ".pl", SPtr})
	}
	unsupp("typeLeaves %s", t)
	return nil
}

// unflatten rebuilds a value of type t from leaves.
func unflatten(t types.Type, leaves []*Term, pos *int) Val {
	switch kindOf(t) {
	case kLeaf:
		v := leaves[*pos]
		*pos++
		return v
	case kStruct:
		st := t.Underlying().(*types.Struct)
		a := &Agg{}
		for i := 0; i < st.NumFields(); i++ {
			a.F = append(a.F, unflatten(st.Field(i).Type(), leaves, pos))
		}
		return a
	case kArray:
		n := arrayLen(t)
		et := t.Underlying().(*types.Array).Elem()
		a := &Agg{}
		for i := 0; i < n; i++ {
			a.F = append(a.F, unflatten(et, leaves, pos))
		}
		return a
	case kSlice:
		a := &Agg{F: []Val{leaves[*pos], leaves[*pos+1], leaves[*pos+2], leaves[*pos+3]}}
		*pos += 4
		return a
	case kIface:
		a := &Agg{F: []Val{leaves[*pos], leaves[*pos+1]}}
		*pos += 2
		return a
	case kTuple:
		tu := t.(*types.Tuple)
		a := &Agg{}
		for i := 0; i < tu.Len(); i++ {
			a.F = append(a.F, unflatten(tu.At(i).Type(), leaves, pos))
		}
		return a
	}
	unsupp("unflatten %s", t)
	return nil
}

func (h *Heap) mapHas(m *Term, mt *types.Map, k *Term) *Term {
	n, s := mdomName(mapKeySort(mt))
	// a nil map has no entries
	return And(Not(Eq(m, Null())), Select(Select(h.array(n, s), m), k))
}

// mapGet returns the stored value (unspecified when absent).
func (h *Heap) mapGetRaw(m *Term, mt *types.Map, k *Term) Val {
	ks := mapKeySort(mt)
	ls := typeLeaves(mt.Elem(), "", nil)
	leaves := make([]*Term, len(ls))
	for i, l := range ls {
		n, s := mvalName(ks, l.path, l.sort)
		leaves[i] = Select(Select(h.array(n, s), m), k)
	}
	p := 0
	return unflatten(mt.Elem(), leaves, &p)
}

// mapGet implements Go's m[k] (zero value when absent).
func (h *Heap) mapGet(m *Term, mt *types.Map, k *Term) (Val, *Term) {
	ok := h.mapHas(m, mt, k)
	raw := h.mapGetRaw(m, mt, k)
	return iteVal(ok, raw, zeroVal(mt.Elem())), ok
}

func (h *Heap) mapLen(m *Term) *Term {
	return Select(h.array(mlenName, mlenSort), m)
}

func (h *Heap) mapSet(m *Term, mt *types.Map, k *Term, v Val) {
	ks := mapKeySort(mt)
	had := h.mapHas(m, mt, k)
	dn, ds := mdomName(ks)
	dom := h.array(dn, ds)
	h.set(dn, Store(dom, m, Store(Select(dom, m), k, True())))
	ls := typeLeaves(mt.Elem(), "", nil)
	leaves := flatten(v, nil)
	for i, l := range ls {
		n, s := mvalName(ks, l.path, l.sort)
		a := h.array(n, s)
		h.set(n, Store(a, m, Store(Select(a, m), k, leaves[i])))
	}
	la := h.array(mlenName, mlenSort)
	h.set(mlenName, Store(la, m, Ite(had, Select(la, m), Add(Select(la, m), IntT(1)))))
}

func (h *Heap) mapDelete(m *Term, mt *types.Map, k *Term) {
	ks := mapKeySort(mt)
	had := h.mapHas(m, mt, k)
	dn, ds := mdomName(ks)
	dom := h.array(dn, ds)
	h.set(dn, Store(dom, m, Store(Select(dom, m), k, False())))
	la := h.array(mlenName, mlenSort)
	h.set(mlenName, Store(la, m, Ite(had, Sub(Select(la, m), IntT(1)), Select(la, m))))
}

// mapInitEmpty makes m an empty map.
func (h *Heap) mapInitEmpty(m *Term, mt *types.Map) {
	ks := mapKeySort(mt)
	dn, ds := mdomName(ks)
	dom := h.array(dn, ds)
	h.set(dn, Store(dom, m, ConstArr(arrSort(ks, SBool), False())))
	la := h.array(mlenName, mlenSort)
	h.set(mlenName, Store(la, m, IntT(0)))
}

// ---- misc

func tokenCmp(op token.Token, a, b *Term) *Term {
	switch op {
	case token.LSS:
		return Lt(a, b)
	case token.LEQ:
		return Le(a, b)
	case token.GTR:
		return Gt(a, b)
	case token.GEQ:
		return Ge(a, b)
	}
	panic("tokenCmp")
}


// fieldID gives every (struct type, field) pair its own fld() index, so that fields of different
// struct types never alias (Burstall-Bornat style separation inside one heap array per leaf sort).
// Ids 1..6 are reserved for slice headers and interface words.
var fieldIDs = map[string]int{}

func fieldID(st *types.Struct, i int) int {
	k := fmt.Sprintf("%s#%d", types.TypeString(st, nil), i)
	if id, ok := fieldIDs[k]; ok {
		return id
	}
	id := 100 + len(fieldIDs)
	fieldIDs[k] = id
	return id
}


// leafFieldPaths lists, for every leaf of t, the chain of fld() indices from the value's address
// down to the leaf, with the leaf sort. ok=false when the layout contains arrays (no fld chain).
type fieldPath struct {
	idx  []int
	sort string
}

func leafFieldPaths(t types.Type, prefix []int, out []fieldPath) ([]fieldPath, bool) {
	cp := func(extra ...int) []int { return append(append([]int{}, prefix...), extra...) }
	switch kindOf(t) {
	case kLeaf:
		return append(out, fieldPath{cp(), leafSort(t)}), true
	case kStruct:
		st := t.Underlying().(*types.Struct)
		ok := true
		for i := 0; i < st.NumFields(); i++ {
			var o bool
			out, o = leafFieldPaths(st.Field(i).Type(), cp(fieldID(st, i)), out)
			ok = ok && o
		}
		return out, ok
	case kSlice:
		return append(out, fieldPath{cp(1), SPtr}, fieldPath{cp(2), SInt}, fieldPath{cp(3), SInt}, fieldPath{cp(4), SInt}), true
	case kIface:
		return append(out, fieldPath{cp(5), SInt}, fieldPath{cp(6), SPtr}), true
	case kArray:
		// an element of an array field: step -1 stands for elt(_, any index)
		return leafFieldPaths(t.Underlying().(*types.Array).Elem(), cp(-1), out)
	}
	return out, false
}
