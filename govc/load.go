package main

import (
	"fmt"
	"go/ast"
	"go/token"
	"go/types"
	"os"
	"sort"
	"strings"
	"time"

	"golang.org/x/tools/go/packages"
	"golang.org/x/tools/go/ssa"
	"golang.org/x/tools/go/ssa/ssautil"
)

const modPath = "github.com/tdakkota/docker-logql"

type Program struct {
	Fset  *token.FileSet
	Pkgs  map[string]*packages.Package // by import path
	SSA   *ssa.Program
	SPkgs map[string]*ssa.Package
	Funcs map[string][]*ssa.Function // "pkgpath:designator" -> functions (several for generic instances)
	All   map[*ssa.Function]bool
	LoadS float64
	SsaS  float64
}

func loadProgram(repo string) (*Program, error) {
	t0 := time.Now()
	cfg := &packages.Config{
		Mode: packages.NeedName | packages.NeedFiles | packages.NeedCompiledGoFiles | packages.NeedImports |
			packages.NeedDeps | packages.NeedTypes | packages.NeedSyntax | packages.NeedTypesInfo | packages.NeedTypesSizes,
		Dir:        repo,
		BuildFlags: []string{"-tags=verif"},
		Env:        append(os.Environ(), "GOFLAGS=-mod=mod", "GOPROXY=off", "GOSUMDB=off", "GOTOOLCHAIN=local"),
	}
	initial, err := packages.Load(cfg, "./...")
	if err != nil {
		return nil, err
	}
	var errs []string
	for _, p := range initial {
		for _, e := range p.Errors {
			errs = append(errs, e.Error())
		}
	}
	if len(errs) > 0 {
		return nil, fmt.Errorf("load errors:\n%s", strings.Join(errs, "\n"))
	}
	pr := &Program{Pkgs: map[string]*packages.Package{}, SPkgs: map[string]*ssa.Package{}, Funcs: map[string][]*ssa.Function{}}
	pr.LoadS = time.Since(t0).Seconds()
	t1 := time.Now()
	prog, spkgs := ssautil.AllPackages(initial, ssa.NaiveForm|ssa.GlobalDebug|ssa.InstantiateGenerics)
	for i, p := range initial {
		pr.Pkgs[p.PkgPath] = p
		pr.Fset = p.Fset
		if spkgs[i] != nil {
			pr.SPkgs[p.PkgPath] = spkgs[i]
		}
	}
	packages.Visit(initial, nil, func(p *packages.Package) {
		if _, ok := pr.Pkgs[p.PkgPath]; !ok {
			pr.Pkgs[p.PkgPath] = p
		}
	})
	for _, sp := range spkgs {
		if sp != nil && strings.HasPrefix(sp.Pkg.Path(), modPath) {
			sp.Build()
		}
	}
	pr.SSA = prog
	pr.SsaS = time.Since(t1).Seconds()
	pr.All = ssautil.AllFunctions(prog)
	for fn := range pr.All {
		if fn.Pkg == nil && fn.Origin() == nil {
			continue
		}
		pkg := fn.Pkg
		if pkg == nil && fn.Origin() != nil {
			pkg = fn.Origin().Pkg
		}
		if pkg == nil || !strings.HasPrefix(pkg.Pkg.Path(), modPath) {
			continue
		}
		if fn.Synthetic != "" && !strings.HasPrefix(fn.Synthetic, "instance of") {
			continue
		}
		d := designator(fn)
		if d == "" {
			continue
		}
		k := pkg.Pkg.Path() + ":" + d
		pr.Funcs[k] = append(pr.Funcs[k], fn)
	}
	for k := range pr.Funcs {
		fs := pr.Funcs[k]
		sort.Slice(fs, func(i, j int) bool { return fs[i].String() < fs[j].String() })
	}
	return pr, nil
}

// designator renders the contract-file name of a function: "name", "(T).name", "(*T).name",
// closures "outer$1". Generic instances map to their origin's designator.
func designator(fn *ssa.Function) string {
	if fn.Parent() != nil {
		p := designator(fn.Parent())
		if p == "" {
			return ""
		}
		// fn.Name() is like "outer$1"
		name := fn.Name()
		if i := strings.LastIndex(name, "$"); i >= 0 {
			return p + name[i:]
		}
		return ""
	}
	o := fn
	if fn.Origin() != nil {
		o = fn.Origin()
	}
	sig := o.Signature
	if recv := sig.Recv(); recv != nil {
		t := recv.Type()
		star := ""
		if pt, ok := t.(*types.Pointer); ok {
			star = "*"
			t = pt.Elem()
		}
		if nt, ok := t.(*types.Named); ok {
			return "(" + star + nt.Obj().Name() + ")." + o.Name()
		}
		return ""
	}
	return o.Name()
}

// shortPkg returns the package path relative to the module ("internal/dockerlog").
func shortPkg(path string) string {
	if path == modPath {
		return "."
	}
	return strings.TrimPrefix(path, modPath+"/")
}

// funcDecl finds the syntax of a function (or nil).
func funcSyntax(fn *ssa.Function) ast.Node {
	if fn.Syntax() != nil {
		return fn.Syntax()
	}
	if fn.Origin() != nil {
		return fn.Origin().Syntax()
	}
	return nil
}

func (pr *Program) pkgOf(fn *ssa.Function) *packages.Package {
	for f := fn; f != nil; f = f.Parent() {
		o := f
		if f.Origin() != nil {
			o = f.Origin()
		}
		if o.Pkg != nil {
			return pr.Pkgs[o.Pkg.Pkg.Path()]
		}
	}
	return nil
}
