package main

// Symbolic executor over naive-form go/ssa with state merging at joins and loops cut at their heads.

import (
	"os"
	"fmt"
	"go/ast"
	"go/token"
	"go/types"
	"sort"
	"strings"

	"golang.org/x/tools/go/ssa"
	"golang.org/x/tools/go/types/typeutil"
)

type State struct {
	reach *Term
	cells map[*ssa.Alloc]Val
	heap  *Heap
	iters map[*ssa.Range]*Term // byte position of string range iterators
}

func (s *State) clone() *State {
	n := &State{reach: s.reach, cells: make(map[*ssa.Alloc]Val, len(s.cells)), heap: s.heap.clone()}
	for k, v := range s.cells {
		n.cells[k] = v
	}
	if len(s.iters) > 0 {
		n.iters = make(map[*ssa.Range]*Term, len(s.iters))
		for k, v := range s.iters {
			n.iters[k] = v
		}
	}
	return n
}

type Obligation struct {
	Name    string
	Kind    string
	Func    string
	NFacts  int
	Goal    *Term
	Pos     string
	Text    string
	Inputs  []namedTerm
	Result  *SolveResult
	Blk     *ssa.BasicBlock
	Blks    []*ssa.BasicBlock
	Part    int    // k >= 1: k-th part of a check split by incoming edge (parts share the name)
	Backend string // "smt" or "syntactic"
	Status  string // discharged | failed
	Detail  string
}

type namedTerm struct {
	Name string
	T    *Term
}

type Exec struct {
	declErrors   []string // ghost / spec declarations that no longer type-check
	forceNoPanic bool // sweep: explicit panics are obligations in every function
	cfn         *ssa.Function // closure whose contract is being evaluated at a call site
	cbind       []Val
	olderAtLoad bool
	part      int
	partPos   int
	partNames []string
	prog    *Program
	cs      *Contracts
	facts   []*Term
	obls    []*Obligation
	notes   map[string]bool
	assumed map[string]bool
	nextObj int
	spec    int // >0 while evaluating specification expressions: no obligations are generated
	cur     *Frame
	top     *Frame
	names   map[string]int
	typeIDs map[string]int
	typeMap typeutil.Map
	typeOf  map[int]types.Type
	errs    []string
	inputs  []namedTerm
	globals map[*ssa.Global]int

	factBlk   []*ssa.BasicBlock
	curBlk    *ssa.BasicBlock
	curBlks   []*ssa.BasicBlock
	reachMemo map[*ssa.Function][][]bool
	targetPkgs map[string]bool
	private   []privCell
	privMaps  []privMap
	loopHavoc bool
	constGlobals map[string]Val
	tagFacts    []*Term
	capSeq      int
	callsAt     *State // state in which the `calls` designators of the function under verification are compared with a callee's
	globFacts   []globFact // facts about constant globals of dependencies, added to the queries that mention them
	sealedImpls map[string][]int
	pureSeen  map[string]bool
	usedText  map[string]bool // clause texts that produced at least one obligation in the function being verified
	nilable   map[*Term]string // sweep: terms that may be nil by local provenance (see nilcheck.go)
	pureDepth int
	pending   []pendingFact
	specDepth int
}

type deferEntry struct {
	cond *Term
	call *ssa.Defer
	fn   Val
	args []Val
	recv Val // for invoke-mode defers
}

type retRec struct {
	st   *State
	vals []Val
	caps map[string]*capRec // call-site captures as recorded when this return was reached
}

type capRec struct {
	seq    int // order of recording: program order inside one acyclic region
	called *Term
	pre    *State // state right before the call (nil when ambiguous or not recorded)
	args   []Val
	rets   []Val
	sig    *types.Signature
}

type Frame struct {
	ex         *Exec
	fn         *ssa.Function
	regs       map[ssa.Value]Val
	args       []Val
	bindings   []Val
	defers     []deferEntry
	edge       map[[2]int]*State
	con        *Contract
	top        bool
	entry      *State
	entryArgs  []Val
	rets       []retRec
	li         *loopInfo
	allocByPos map[token.Pos]*ssa.Alloc
	captures   map[string]*capRec
	headSnap   map[int]*State
	parent     *Frame
	depth      int
	label      string
	capSites   map[*Capture]ssa.CallInstruction
	assertsDone map[*Clause]bool
	headNew    map[int]int
	backStates map[*ssa.BasicBlock][]*State
	backSrc    map[*ssa.BasicBlock][]*ssa.BasicBlock
	exitStates map[*ssa.BasicBlock][]*State
	exitSrc    map[*ssa.BasicBlock][]*ssa.BasicBlock
	logical    map[*types.Var]Val
	capsOverride map[string]*capRec
}

type loopInfo struct {
	heads  []*ssa.BasicBlock
	ord    map[*ssa.BasicBlock]int
	body   map[*ssa.BasicBlock]map[*ssa.BasicBlock]bool
	isBack map[[2]int]bool
	stmts  []ast.Node // loop statements in source order (may be shorter on mismatch)
}

func newExec(prog *Program, cs *Contracts) *Exec {
	return &Exec{prog: prog, cs: cs, notes: map[string]bool{}, assumed: map[string]bool{}, names: map[string]int{},
		typeIDs: map[string]int{}, typeOf: map[int]types.Type{}, globals: map[*ssa.Global]int{}, sealedImpls: map[string][]int{}, reachMemo: map[*ssa.Function][][]bool{}, targetPkgs: map[string]bool{}, constGlobals: map[string]Val{}}
}

func (ex *Exec) note(f string, a ...any) {
	ex.notes[fmt.Sprintf(f, a...)] = true
}

func (ex *Exec) fact(st *State, f *Term) {
	if f.IsTrue() {
		return
	}
	if st != nil {
		f = Implies(st.reach, f)
	}
	// a fact recorded while evaluating under a quantifier holds for every value of the bound
	// variable (it was derived without assumptions about it)
	f = closeOver(f)
	ex.facts = append(ex.facts, f)
	ex.factBlk = append(ex.factBlk, ex.curBlk)
}

// relevantFacts returns the facts recorded before the obligation whose block is the obligation's
// block or a forward ancestor of it (facts of other branches are guarded by reach conditions the
// solver can falsify, so dropping them neither adds nor removes counterexamples).
func (ex *Exec) relevantFacts(o *Obligation) []*Term {
	var out []*Term
	for i := 0; i < o.NFacts; i++ {
		fb := ex.factBlk[i]
		keep := fb == nil || (o.Blk == nil && len(o.Blks) == 0) || (o.Blk != nil && (fb == o.Blk || ex.fwdReach(fb, o.Blk)))
		for _, b := range o.Blks {
			if fb == b || (fb != nil && ex.fwdReach(fb, b)) {
				keep = true
			}
		}
		if keep {
			out = append(out, ex.facts[i])
		}
	}
	return out
}

func (ex *Exec) fwdReach(a, b *ssa.BasicBlock) bool {
	if a.Parent() != b.Parent() {
		return true
	}
	fn := a.Parent()
	m, ok := ex.reachMemo[fn]
	if !ok {
		n := len(fn.Blocks)
		m = make([][]bool, n)
		li := computeLoops(fn)
		order := rpo(fn, li)
		for i := range m {
			m[i] = make([]bool, n)
		}
		// process in reverse RPO so successors are complete
		for i := len(order) - 1; i >= 0; i-- {
			u := order[i]
			for _, v := range u.Succs {
				if li.isBack[[2]int{u.Index, v.Index}] {
					continue
				}
				m[u.Index][v.Index] = true
				for k := 0; k < n; k++ {
					if m[v.Index][k] {
						m[u.Index][k] = true
					}
				}
			}
		}
		ex.reachMemo[fn] = m
	}
	return m[a.Index][b.Index]
}

func (ex *Exec) addFacts(st *State, fs []*Term) {
	for _, f := range fs {
		ex.fact(st, f)
	}
}

func (ex *Exec) oblige(fr *Frame, st *State, kind, label string, goal *Term, pos token.Pos, text string) {
	if ex.spec > 0 {
		return
	}
	if ex.usedText != nil && text != "" {
		ex.usedText[text] = true
	}
	fname := fr.label
	name := fname + "#" + kind
	if label != "" {
		name += "[" + label + "]"
	}
	if ex.part > 1 && ex.partPos < len(ex.partNames) {
		// later parts of a split check reuse the names given to the first part, in order
		name = ex.partNames[ex.partPos]
		ex.partPos++
	} else {
		ex.names[name]++
		if n := ex.names[name]; n > 1 {
			name = fmt.Sprintf("%s~%d", name, n)
		}
		if ex.part == 1 {
			ex.partNames = append(ex.partNames, name)
		}
	}
	g := Implies(st.reach, goal)
	o := &Obligation{Name: name, Kind: kind, Func: fname, NFacts: len(ex.facts), Goal: g, Text: text, Backend: "smt", Inputs: ex.inputs, Blk: ex.curBlk, Blks: ex.curBlks, Part: ex.part}
	if kind == "ensures" || kind == "frame" || kind == "lemma" {
		o.Blk = nil
	}
	if pos.IsValid() {
		p := ex.prog.Fset.Position(pos)
		o.Pos = fmt.Sprintf("%s:%d", shortFile(p.Filename), p.Line)
	}
	ex.obls = append(ex.obls, o)
}

// reachCheck records a guard obligation "the assumptions collected on the way to this point are
// satisfiable". It is the assertion that must fail: the goal is false, and a solver proving it
// means that the contracts, models or invariants assumed on this path contradict each other.
func (ex *Exec) reachCheck(fr *Frame, st *State, label string) {
	if ex.spec > 0 || st == nil {
		return
	}
	name := fr.label + "#vacuity[" + label + "]"
	ex.names[name]++
	if n := ex.names[name]; n > 1 {
		name = fmt.Sprintf("%s~%d", name, n)
	}
	ex.obls = append(ex.obls, &Obligation{Name: name, Kind: "vacuity", Func: fr.label, NFacts: len(ex.facts),
		Goal: Implies(st.reach, False()), Backend: "smt", Text: label + ": the assumptions on this path are satisfiable (expected: sat)"})
}

// coverClauses: emit, for every clause of the form A ==> B, a guard "A can hold where the clause
// is checked" (the clause is not vacuously true). Same convention as reachCheck: the goal is the
// negation of what we want to be possible, and a solver proving it makes the guard fail.
var coverClauses bool

// antecedent returns A for a clause text that rewriteImplies produced from "A ==> B".
func antecedent(text string) (string, bool) {
	if !strings.HasPrefix(text, "(!(") {
		return "", false
	}
	depth := 0
	inStr := byte(0)
	for i := 2; i < len(text); i++ {
		c := text[i]
		if inStr != 0 {
			if c == '\\' {
				i++
			} else if c == inStr {
				inStr = 0
			}
			continue
		}
		switch c {
		case '"', '\'', '`':
			inStr = c
		case '(', '[', '{':
			depth++
		case ')', ']', '}':
			depth--
			if depth == 0 {
				if strings.HasPrefix(text[i+1:], " || (") {
					return text[3:i], true
				}
				return "", false
			}
		}
	}
	return "", false
}

// coverCheck records the guard for one clause; neverHolds is "the antecedent is false on every
// path that reaches the check".
func (ex *Exec) coverCheck(fr *Frame, kind, label string, neverHolds *Term, text string) {
	if ex.spec > 0 {
		return
	}
	name := fr.label + "#vacuity[" + kind
	if label != "" {
		name += "." + label
	}
	name += ".antecedent-can-hold]"
	ex.names[name]++
	if n := ex.names[name]; n > 1 {
		name = fmt.Sprintf("%s~%d", name, n)
	}
	ex.obls = append(ex.obls, &Obligation{Name: name, Kind: "vacuity", Func: fr.label, NFacts: len(ex.facts),
		Goal: neverHolds, Backend: "smt", Text: "antecedent of the clause can hold here (expected: sat): " + text})
}

func shortFile(f string) string {
	if i := strings.Index(f, "/repo/"); i >= 0 {
		return f[i+6:]
	}
	return f
}

func (ex *Exec) newObj() *Term {
	ex.nextObj++
	return NewObj(ex.nextObj)
}

func (ex *Exec) typeID(t types.Type) int {
	if v := ex.typeMap.At(t); v != nil {
		return v.(int)
	}
	id := ex.typeMap.Len() + 1
	ex.typeMap.Set(t, id)
	ex.typeOf[id] = t
	ex.tagFacts = append(ex.tagFacts, Eq(UF("boxedtag", SBool, IntT(int64(id))), BoolT(!pointerShaped(t))))
	return id
}

// sealedTagFact: a value of a sealed interface type (one with an unexported method, declared in
// the module) has a dynamic type among the implementations present in the program, or is nil.
func (ex *Exec) sealedTagFact(t types.Type, tag *Term) *Term {
	nt := namedIface(t)
	if nt == nil || nt.Obj().Pkg() == nil || !strings.HasPrefix(nt.Obj().Pkg().Path(), modPath) {
		return nil
	}
	it, ok := nt.Underlying().(*types.Interface)
	if !ok {
		return nil
	}
	sealed := false
	for i := 0; i < it.NumMethods(); i++ {
		if !it.Method(i).Exported() {
			sealed = true
		}
	}
	if !sealed {
		return nil
	}
	key := types.TypeString(nt, nil)
	impls, ok := ex.sealedImpls[key]
	if !ok {
		for _, T := range ex.prog.SSA.RuntimeTypes() {
			if _, isI := T.Underlying().(*types.Interface); isI {
				continue
			}
			if types.Implements(T, it) {
				impls = append(impls, ex.typeID(T))
			}
		}
		// also named types of the declaring package (and pointers to them)
		sc := nt.Obj().Pkg().Scope()
		for _, n := range sc.Names() {
			tn, ok := sc.Lookup(n).(*types.TypeName)
			if !ok {
				continue
			}
			for _, T := range []types.Type{tn.Type(), types.NewPointer(tn.Type())} {
				if _, isI := T.Underlying().(*types.Interface); isI {
					continue
				}
				if types.Implements(T, it) {
					impls = append(impls, ex.typeID(T))
				}
			}
		}
		ex.sealedImpls[key] = impls
	}
	alts := []*Term{Eq(tag, IntT(0))}
	seen := map[int]bool{}
	for _, id := range impls {
		if !seen[id] {
			seen[id] = true
			alts = append(alts, Eq(tag, IntT(int64(id))))
		}
	}
	return Or(alts...)
}

func (ex *Exec) globalPtr(g *ssa.Global) *Term {
	id, ok := ex.globals[g]
	if !ok {
		id = len(ex.globals) + 1
		ex.globals[g] = id
	}
	return GlobPtr(id)
}

// funcLabel is the stable, line-free name of a function used in obligation names.
func funcLabel(fn *ssa.Function) string {
	pkg := ""
	for f := fn; f != nil; f = f.Parent() {
		o := f
		if f.Origin() != nil {
			o = f.Origin()
		}
		if o.Pkg != nil {
			pkg = o.Pkg.Pkg.Name()
			break
		}
	}
	d := designator(fn)
	if fn.Origin() != nil && len(fn.TypeArgs()) > 0 {
		var ta []string
		for _, t := range fn.TypeArgs() {
			ta = append(ta, types.TypeString(t, func(p *types.Package) string { return p.Name() }))
		}
		d += "<" + strings.Join(ta, ",") + ">"
	}
	return pkg + "." + d
}

// ---- loop structure

func computeLoops(fn *ssa.Function) *loopInfo {
	li := &loopInfo{ord: map[*ssa.BasicBlock]int{}, body: map[*ssa.BasicBlock]map[*ssa.BasicBlock]bool{}, isBack: map[[2]int]bool{}}
	for _, u := range fn.Blocks {
		for _, h := range u.Succs {
			if h.Dominates(u) {
				li.isBack[[2]int{u.Index, h.Index}] = true
				b := li.body[h]
				if b == nil {
					b = map[*ssa.BasicBlock]bool{h: true}
					li.body[h] = b
				}
				// natural loop: all nodes that reach u without passing h
				var stack []*ssa.BasicBlock
				if !b[u] {
					b[u] = true
					stack = append(stack, u)
				}
				for len(stack) > 0 {
					x := stack[len(stack)-1]
					stack = stack[:len(stack)-1]
					for _, p := range x.Preds {
						if !b[p] {
							b[p] = true
							stack = append(stack, p)
						}
					}
				}
			}
		}
	}
	for h := range li.body {
		li.heads = append(li.heads, h)
	}
	sort.Slice(li.heads, func(i, j int) bool { return li.heads[i].Index < li.heads[j].Index })
	for i, h := range li.heads {
		li.ord[h] = i
	}
	// loop statements in source order
	if syn := funcSyntax(fn); syn != nil {
		var body *ast.BlockStmt
		switch d := syn.(type) {
		case *ast.FuncDecl:
			body = d.Body
		case *ast.FuncLit:
			body = d.Body
		}
		if body != nil {
			ast.Inspect(body, func(n ast.Node) bool {
				switch n.(type) {
				case *ast.FuncLit:
					return false
				case *ast.ForStmt, *ast.RangeStmt:
					li.stmts = append(li.stmts, n)
				}
				return true
			})
		}
	}
	return li
}

func rpo(fn *ssa.Function, li *loopInfo) []*ssa.BasicBlock {
	seen := map[*ssa.BasicBlock]bool{}
	var post []*ssa.BasicBlock
	var dfs func(b *ssa.BasicBlock)
	dfs = func(b *ssa.BasicBlock) {
		seen[b] = true
		for _, s := range b.Succs {
			if li.isBack[[2]int{b.Index, s.Index}] || seen[s] {
				continue
			}
			dfs(s)
		}
		post = append(post, b)
	}
	dfs(fn.Blocks[0])
	for i, j := 0, len(post)-1; i < j; i, j = i+1, j-1 {
		post[i], post[j] = post[j], post[i]
	}
	return post
}

// ---- merging

func (ex *Exec) mergeStates(ins []*State) *State {
	if len(ins) == 1 {
		return ins[0].clone()
	}
	var rs []*Term
	for _, s := range ins {
		rs = append(rs, s.reach)
	}
	out := &State{reach: Or(rs...), cells: map[*ssa.Alloc]Val{}}
	// cells
	allocs := map[*ssa.Alloc]bool{}
	for _, s := range ins {
		for a := range s.cells {
			allocs[a] = true
		}
	}
	for a := range allocs {
		var v Val
		have := false
		for i := len(ins) - 1; i >= 0; i-- {
			x, ok := ins[i].cells[a]
			if !ok {
				continue
			}
			if !have {
				v, have = x, true
			} else {
				v = iteVal(ins[i].reach, x, v)
			}
		}
		out.cells[a] = v
	}
	// string iterator positions
	for _, s := range ins {
		for r := range s.iters {
			if out.iters == nil {
				out.iters = map[*ssa.Range]*Term{}
			}
			if _, done := out.iters[r]; done {
				continue
			}
			var v *Term
			for i := len(ins) - 1; i >= 0; i-- {
				x, ok := ins[i].iters[r]
				if !ok {
					continue
				}
				if v == nil {
					v = x
				} else {
					v = Ite(ins[i].reach, x, v)
				}
			}
			out.iters[r] = v
		}
	}
	// heap
	sameEpoch := true
	for _, s := range ins[1:] {
		if s.heap.epoch != ins[0].heap.epoch {
			sameEpoch = false
		}
	}
	h := &Heap{arr: map[string]*Term{}}
	names := map[string]bool{}
	if sameEpoch {
		h.epoch = ins[0].heap.epoch
		for _, s := range ins {
			for n := range s.heap.arr {
				names[n] = true
			}
		}
	} else {
		epochCtr++
		h.epoch = fmt.Sprintf("@m%d", epochCtr)
		for n := range knownArrays {
			names[n] = true
		}
	}
	for n := range names {
		sortN := knownArrays[n]
		v := ins[len(ins)-1].heap.array(n, sortN)
		for i := len(ins) - 2; i >= 0; i-- {
			v = Ite(ins[i].reach, ins[i].heap.array(n, sortN), v)
		}
		h.arr[n] = v
	}
	sameVer := true
	for _, s := range ins[1:] {
		if s.heap.ver != ins[0].heap.ver {
			sameVer = false
		}
	}
	if sameVer {
		h.ver = ins[0].heap.ver
	} else {
		v := ins[len(ins)-1].heap.ver
		for i := len(ins) - 2; i >= 0; i-- {
			v = Ite(ins[i].reach, ins[i].heap.ver, v)
		}
		h.ver = v
	}
	out.heap = h
	return out
}

// ---- running a function

type callResult struct {
	vals []Val
	st   *State // nil when no return is reachable
}

const maxDepth = 6

func (ex *Exec) newFrame(fn *ssa.Function, args, bindings []Val, parent *Frame) *Frame {
	fr := &Frame{ex: ex, fn: fn, regs: map[ssa.Value]Val{}, args: args, bindings: bindings, edge: map[[2]int]*State{},
		allocByPos: map[token.Pos]*ssa.Alloc{}, captures: map[string]*capRec{}, headSnap: map[int]*State{}, parent: parent, assertsDone: map[*Clause]bool{}, headNew: map[int]int{}, backStates: map[*ssa.BasicBlock][]*State{}, backSrc: map[*ssa.BasicBlock][]*ssa.BasicBlock{}, exitStates: map[*ssa.BasicBlock][]*State{}, exitSrc: map[*ssa.BasicBlock][]*ssa.BasicBlock{}}
	if parent != nil {
		fr.depth = parent.depth + 1
		fr.label = parent.label
	} else {
		fr.label = funcLabel(fn)
	}
	fr.con = ex.contractFor(fn)
	fr.li = computeLoops(fn)
	for _, b := range fn.Blocks {
		for _, in := range b.Instrs {
			if a, ok := in.(*ssa.Alloc); ok && a.Pos().IsValid() {
				fr.allocByPos[a.Pos()] = a
			}
		}
	}
	return fr
}

func (ex *Exec) contractFor(fn *ssa.Function) *Contract {
	d := designator(fn)
	if d == "" {
		return nil
	}
	pk := ex.prog.pkgOf(fn)
	if pk == nil {
		return nil
	}
	return ex.cs.ByKey[pk.PkgPath+":"+d]
}

// run executes fn from st and returns the merged return state and values.
func (ex *Exec) run(fr *Frame, st *State) callResult {
	fn := fr.fn
	if len(fn.Blocks) == 0 {
		unsupp("function %s has no body", fn)
	}
	if fr.depth > maxDepth {
		unsupp("inlining depth exceeded at %s", fn)
	}
	saved := ex.cur
	ex.cur = fr
	defer func() { ex.cur = saved }()
	order := rpo(fn, fr.li)
	for _, b := range order {
		var ins []*State
		var predIdx []int
		if b.Index == 0 {
			ins = []*State{st}
			predIdx = []int{-1}
		} else {
			seen := map[int]bool{}
			for pi, p := range b.Preds {
				key := [2]int{p.Index, b.Index}
				if fr.li.isBack[key] || seen[p.Index] {
					continue
				}
				seen[p.Index] = true
				if s, ok := fr.edge[key]; ok {
					ins = append(ins, s)
					predIdx = append(predIdx, pi)
					delete(fr.edge, key)
				}
			}
		}
		if len(ins) == 0 {
			continue
		}
		cur := ex.mergeStates(ins)
		if cur.reach.IsFalse() {
			continue
		}
		if fr.parent == nil {
			ex.curBlk = b
		}
		if _, isHead := fr.li.body[b]; isHead {
			cur = ex.enterLoop(fr, b, cur)
		}
		ex.execBlock(fr, b, cur, ins, predIdx)
	}
	// back edges: one merged check per loop
	for _, h := range fr.li.heads {
		if sts := fr.backStates[h]; len(sts) > 0 {
			if fr.parent == nil {
				ex.curBlk = nil
				ex.curBlks = fr.backSrc[h]
			}
			if ex.loopSpec(fr, h) != nil {
				// reachability guard: the end of the loop body must not be contradictory, or every
				// per-iteration obligation below would hold vacuously
				ex.reachCheck(fr, ex.mergeStates(sts), fmt.Sprintf("loop%d.body-reachable", fr.li.ord[h]))
			}
			if len(sts) >= 4 && fr.parent == nil {
				// many incoming back edges: check each separately (same obligation names; every
				// part must be discharged), so each query carries the facts of one path only
				ex.partNames = nil
				for i, s := range sts {
					ex.part, ex.partPos = i+1, 0
					ex.curBlks = []*ssa.BasicBlock{fr.backSrc[h][i]}
					ex.backEdge(fr, fr.backSrc[h][i], h, s)
				}
				ex.part = 0
			} else {
				ex.backEdge(fr, fr.backSrc[h][0], h, ex.mergeStates(sts))
			}
			ex.curBlks = nil
		}
	}
	for _, h := range fr.li.heads {
		if sts := fr.exitStates[h]; len(sts) > 0 {
			if fr.parent == nil {
				ex.curBlk = nil
				ex.curBlks = fr.exitSrc[h]
			}
			ex.loopExit(fr, h, ex.mergeStates(sts))
			ex.curBlks = nil
		}
	}
	if len(fr.rets) == 0 {
		return callResult{}
	}
	var sts []*State
	for _, r := range fr.rets {
		sts = append(sts, r.st)
	}
	out := ex.mergeStates(sts)
	n := len(fr.rets[0].vals)
	vals := make([]Val, n)
	for k := 0; k < n; k++ {
		v := fr.rets[len(fr.rets)-1].vals[k]
		for i := len(fr.rets) - 2; i >= 0; i-- {
			v = iteVal(fr.rets[i].st.reach, fr.rets[i].vals[k], v)
		}
		vals[k] = v
	}
	return callResult{vals: vals, st: out}
}

func (ex *Exec) execBlock(fr *Frame, b *ssa.BasicBlock, st *State, ins []*State, predIdx []int) {
	for _, in := range b.Instrs {
		switch x := in.(type) {
		case *ssa.Phi:
			if _, isHead := fr.li.body[b]; isHead {
				unsupp("phi at loop head in %s", fr.fn)
			}
			var v Val
			for i := len(ins) - 1; i >= 0; i-- {
				val := ex.operand(fr, x.Edges[predIdx[i]])
				if i == len(ins)-1 {
					v = val
				} else {
					v = iteVal(ins[i].reach, val, v)
				}
			}
			fr.regs[x] = v
		case *ssa.If:
			c := ex.operand(fr, x.Cond).(*Term)
			s0 := st.clone()
			s0.reach = And(st.reach, c)
			s1 := st.clone()
			s1.reach = And(st.reach, Not(c))
			ex.putEdge(fr, b, b.Succs[0], s0)
			ex.putEdge(fr, b, b.Succs[1], s1)
		case *ssa.Jump:
			ex.putEdge(fr, b, b.Succs[0], st)
		case *ssa.Return:
			var vals []Val
			for _, r := range x.Results {
				vals = append(vals, ex.operand(fr, r))
			}
			caps := make(map[string]*capRec, len(fr.captures))
			for k, v := range fr.captures {
				caps[k] = v
			}
			fr.rets = append(fr.rets, retRec{st: st, vals: vals, caps: caps})
		case *ssa.Panic:
			if os.Getenv("GOVC_DEBUG") != "" {
				fmt.Fprintln(os.Stderr, "PANIC instr in", fr.fn, "top", fr.topFrame().fn, fr.topFrame().con != nil, ex.forceNoPanic, ex.spec)
			}
			if fr.topFrame().con != nil && (fr.topFrame().con.NoPanic || ex.forceNoPanic) && ex.spec == 0 {
				ex.oblige(fr, st, "panic", ex.srcText(x.Pos(), "panic"), False(), x.Pos(), "explicit panic is unreachable")
			}
		default:
			ex.execInstr(fr, st, in)
		}
	}
}

func (fr *Frame) topFrame() *Frame {
	f := fr
	for f.parent != nil {
		f = f.parent
	}
	return f
}

func (ex *Exec) putEdge(fr *Frame, from, to *ssa.BasicBlock, st *State) {
	key := [2]int{from.Index, to.Index}
	// loop exits (an edge that leaves an inner loop may at the same time be a back edge of an
	// enclosing loop: `for a() { for b() {} }`; it is an exit of the inner one all the same)
	for h, body := range fr.li.body {
		if body[from] && !body[to] {
			fr.exitStates[h] = append(fr.exitStates[h], st)
			fr.exitSrc[h] = append(fr.exitSrc[h], from)
		}
	}
	if fr.li.isBack[key] {
		fr.backStates[to] = append(fr.backStates[to], st)
		fr.backSrc[to] = append(fr.backSrc[to], from)
		return
	}
	if old, ok := fr.edge[key]; ok {
		// two edges between the same blocks (if with identical successors)
		fr.edge[key] = ex.mergeStates([]*State{old, st})
		return
	}
	fr.edge[key] = st
}

func (ex *Exec) srcText(pos token.Pos, dflt string) string {
	return dflt
}

type globFact struct {
	name string
	fact *Term
}
