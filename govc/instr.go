package main

import (
	"fmt"
	"go/token"
	"go/types"
	"regexp"
	"strconv"
	"strings"

	"golang.org/x/tools/go/ssa"
)

func (ex *Exec) operand(fr *Frame, v ssa.Value) Val {
	switch x := v.(type) {
	case *ssa.Const:
		if x.Value == nil {
			return zeroVal(x.Type())
		}
		if kindOf(x.Type()) != kLeaf {
			unsupp("constant of aggregate type %s", x.Type())
		}
		return constVal(x.Value, x.Type())
	case *ssa.Function:
		return &FuncVal{Fn: x}
	case *ssa.Global:
		return ex.globalPtr(x)
	case *ssa.Parameter:
		for i, p := range fr.fn.Params {
			if p == x {
				return fr.args[i]
			}
		}
		unsupp("unknown parameter %s", x.Name())
	case *ssa.FreeVar:
		for i, p := range fr.fn.FreeVars {
			if p == x {
				if i < len(fr.bindings) {
					return fr.bindings[i]
				}
			}
		}
		unsupp("unbound free variable %s in %s", x.Name(), fr.fn)
	case *ssa.Builtin:
		unsupp("builtin %s used as value", x.Name())
	}
	if r, ok := fr.regs[v]; ok {
		return r
	}
	unsupp("use of undefined register %s in %s", v.Name(), fr.fn)
	return nil
}

func (ex *Exec) term(fr *Frame, v ssa.Value) *Term {
	x := ex.operand(fr, v)
	switch t := x.(type) {
	case *Term:
		return t
	case *FuncVal:
		return funcValPtr(t)
	}
	unsupp("expected leaf value for %s (%T) in %s", v.Name(), x, fr.fn)
	return nil
}

// ---- local cells

func getPath(v Val, path []pathElem) Val {
	for _, pe := range path {
		a, ok := v.(*Agg)
		if !ok {
			unsupp("path into non-aggregate")
		}
		if pe.Index != nil {
			// symbolic array index: ite chain
			var r Val
			for i := len(a.F) - 1; i >= 0; i-- {
				if r == nil {
					r = a.F[i]
				} else {
					r = iteVal(Eq(pe.Index, IntT(int64(i))), a.F[i], r)
				}
			}
			v = r
			continue
		}
		v = a.F[pe.Field]
	}
	return v
}

func setPath(v Val, path []pathElem, nv Val) Val {
	if len(path) == 0 {
		return nv
	}
	a, ok := v.(*Agg)
	if !ok {
		unsupp("path into non-aggregate")
	}
	r := &Agg{F: append([]Val{}, a.F...)}
	pe := path[0]
	if pe.Index != nil {
		for i := range r.F {
			r.F[i] = iteVal(Eq(pe.Index, IntT(int64(i))), setPath(a.F[i], path[1:], nv), a.F[i])
		}
		return r
	}
	r.F[pe.Field] = setPath(a.F[pe.Field], path[1:], nv)
	return r
}

func (ex *Exec) load(fr *Frame, st *State, addr Val, t types.Type) Val {
	switch p := addr.(type) {
	case *LocalPtr:
		c, ok := st.cells[p.Cell]
		if !ok {
			unsupp("read of uninitialised local cell %s", p.Cell.Comment)
		}
		return getPath(c, p.Path)
	case *Term:
		var fs []*Term
		v := st.heap.load(p, t, &fs)
		if ex.spec == 0 {
			ex.addFacts(nil, fs)
		}
		if ex.spec == 0 || ex.olderAtLoad {
			// a pointer read from the heap refers to an object that exists now: it differs from
			// every object allocated from here on (also recorded for the reads of the invariants
			// assumed at a loop head)
			for _, l := range flatten(v, nil) {
				if l.Sort == SPtr && !l.hasBound && (l.Op == "select" || l.Op == "ite") {
					ex.fact(nil, ex.olderThanNow(l))
				}
			}
		}
		return v
	}
	unsupp("load through %T", addr)
	return nil
}

func (ex *Exec) store(fr *Frame, st *State, addr Val, t types.Type, v Val) {
	switch p := addr.(type) {
	case *LocalPtr:
		c := st.cells[p.Cell]
		st.cells[p.Cell] = setPath(c, p.Path, v)
	case *Term:
		st.heap.store(p, t, v)
	default:
		unsupp("store through %T", addr)
	}
}

func elemOfPtr(t types.Type) types.Type {
	return t.Underlying().(*types.Pointer).Elem()
}

// ---- instructions

func (ex *Exec) execInstr(fr *Frame, st *State, in ssa.Instruction) {
	switch x := in.(type) {
	case *ssa.DebugRef:
	case *ssa.Alloc:
		et := elemOfPtr(x.Type())
		if !x.Heap {
			st.cells[x] = zeroVal(et)
			fr.regs[x] = &LocalPtr{Cell: x}
		} else {
			ex.allocAsserts(fr, st, x)
			p := ex.newObj()
			st.heap.store(p, et, zeroVal(et))
			if nt, ok := et.(*types.Named); ok && nt.Obj().Pkg() != nil {
				// ghost content of the modelled library buffers starts empty
				switch nt.Obj().Pkg().Path() + "." + nt.Obj().Name() {
				case "strings.Builder":
					st.heap.storeLeaf(Fld(p, builderContentField), StrLit(""))
				case "bytes.Buffer":
					st.heap.storeLeaf(Fld(p, bufferContentField), StrLit(""))
				}
			}
			fr.regs[x] = p
			if privateCell(x) {
				ex.private = append(ex.private, privCell{p, et})
			}
		}
	case *ssa.Store:
		if p, ok := ex.operand(fr, x.Addr).(*Term); ok && p.Sort == SPtr {
			ex.derefCheck(fr, st, p, x.Pos(), x.Addr.Name())
		}
		ex.store(fr, st, ex.operand(fr, x.Addr), x.Val.Type(), ex.operand(fr, x.Val))
	case *ssa.UnOp:
		fr.regs[x] = ex.unop(fr, st, x)
	case *ssa.BinOp:
		fr.regs[x] = ex.binop(fr, st, x.Op, ex.operand(fr, x.X), ex.operand(fr, x.Y), x.X.Type(), x.Pos())
	case *ssa.FieldAddr:
		base := ex.operand(fr, x.X)
		switch p := base.(type) {
		case *LocalPtr:
			fr.regs[x] = &LocalPtr{Cell: p.Cell, Path: append(append([]pathElem{}, p.Path...), pathElem{Field: x.Field})}
		case *Term:
			ex.derefCheck(fr, st, p, x.Pos(), x.X.Name())
			fr.regs[x] = Fld(p, fieldID(elemOfPtr(x.X.Type()).Underlying().(*types.Struct), x.Field))
		default:
			unsupp("FieldAddr on %T", base)
		}
	case *ssa.Field:
		fr.regs[x] = ex.operand(fr, x.X).(*Agg).F[x.Field]
	case *ssa.IndexAddr:
		fr.regs[x] = ex.indexAddr(fr, st, x)
	case *ssa.Index:
		base := ex.operand(fr, x.X)
		idx := ex.term(fr, x.Index)
		switch u := x.X.Type().Underlying().(type) {
		case *types.Basic: // string
			s := base.(*Term)
			ex.oblige(fr, st, "index", ex.exprText(x.Pos(), x.X.Name()), And(Ge(idx, IntT(0)), Lt(idx, ex.slen(s))), x.Pos(), "string index in range")
			fr.regs[x] = SAt(s, idx)
		case *types.Array:
			a := base.(*Agg)
			ex.oblige(fr, st, "index", ex.exprText(x.Pos(), x.X.Name()), And(Ge(idx, IntT(0)), Lt(idx, IntT(u.Len()))), x.Pos(), "array index in range")
			fr.regs[x] = getPath(a, []pathElem{{Index: idx}})
		default:
			unsupp("Index on %s", x.X.Type())
		}
	case *ssa.Slice:
		fr.regs[x] = ex.sliceOp(fr, st, x)
	case *ssa.Extract:
		fr.regs[x] = ex.operand(fr, x.Tuple).(*Agg).F[x.Index]
	case *ssa.ChangeType:
		fr.regs[x] = ex.operand(fr, x.X)
	case *ssa.ChangeInterface:
		fr.regs[x] = ex.operand(fr, x.X)
	case *ssa.Convert:
		fr.regs[x] = ex.convert(fr, st, ex.operand(fr, x.X), x.X.Type(), x.Type())
	case *ssa.MakeInterface:
		fr.regs[x] = ex.makeInterface(st, ex.operand(fr, x.X), x.X.Type())
	case *ssa.TypeAssert:
		fr.regs[x] = ex.typeAssert(fr, st, x)
	case *ssa.MakeClosure:
		fv := &FuncVal{Fn: x.Fn.(*ssa.Function)}
		for _, b := range x.Bindings {
			fv.Bindings = append(fv.Bindings, ex.operand(fr, b))
		}
		fr.regs[x] = fv
	case *ssa.MakeMap:
		p := ex.newObj()
		st.heap.mapInitEmpty(p, x.Type().Underlying().(*types.Map))
		fr.regs[x] = p
		if privateMap(x) {
			ex.privMaps = append(ex.privMaps, privMap{p, x.Type().Underlying().(*types.Map)})
		}
	case *ssa.MakeSlice:
		ln := ex.term(fr, x.Len)
		cp := ex.term(fr, x.Cap)
		ex.oblige(fr, st, "makeslice", ex.exprText(x.Pos(), "make"), And(Ge(ln, IntT(0)), Le(ln, cp)), x.Pos(), "make: 0 <= len <= cap")
		p := ex.newObj()
		ex.zeroElems(st, p, x.Type().Underlying().(*types.Slice).Elem())
		fr.regs[x] = &Agg{F: []Val{p, IntT(0), ln, cp}}
	case *ssa.Lookup:
		fr.regs[x] = ex.lookup(fr, st, x)
	case *ssa.MapUpdate:
		m := ex.term(fr, x.Map)
		mt := x.Map.Type().Underlying().(*types.Map)
		ex.oblige(fr, st, "nilmap", ex.exprText(x.Pos(), x.Map.Name()), Not(Eq(m, Null())), x.Pos(), "assignment to entry in nil map")
		st.heap.mapSet(m, mt, ex.term(fr, x.Key), ex.operand(fr, x.Value))
	case *ssa.Range:
		fr.regs[x] = ex.operand(fr, x.X)
		if b, ok := x.X.Type().Underlying().(*types.Basic); ok && b.Info()&types.IsString != 0 {
			if st.iters == nil {
				st.iters = map[*ssa.Range]*Term{}
			}
			st.iters[x] = IntT(0)
		}
	case *ssa.Next:
		fr.regs[x] = ex.next(fr, st, x)
	case *ssa.Call:
		rs := ex.call(fr, st, x, &x.Call)
		sig := x.Call.Signature()
		switch sig.Results().Len() {
		case 0:
			fr.regs[x] = nil
		case 1:
			fr.regs[x] = rs[0]
		default:
			fr.regs[x] = &Agg{F: rs}
		}
	case *ssa.Defer:
		d := deferEntry{cond: st.reach, call: x}
		if x.Call.IsInvoke() {
			d.recv = ex.operand(fr, x.Call.Value)
		} else {
			if _, isB := x.Call.Value.(*ssa.Builtin); !isB {
				d.fn = ex.operand(fr, x.Call.Value)
			}
		}
		for _, a := range x.Call.Args {
			d.args = append(d.args, ex.operand(fr, a))
		}
		fr.defers = append(fr.defers, d)
	case *ssa.RunDefers:
		for i := len(fr.defers) - 1; i >= 0; i-- {
			d := fr.defers[i]
			ex.runDeferred(fr, st, d)
		}
	case *ssa.Go:
		ex.note("%s: go statement havoced", fr.label)
		st.heap.havocAll()
	case *ssa.MakeChan, *ssa.Send, *ssa.Select:
		unsupp("channel operation in %s", fr.fn)
	case *ssa.SliceToArrayPointer, *ssa.MultiConvert:
		unsupp("%T in %s", in, fr.fn)
	default:
		unsupp("instruction %T in %s", in, fr.fn)
	}
}

func (ex *Exec) slen(s *Term) *Term {
	l := SLen(s)
	if !l.hasBound && l.Op != "int" {
		ex.fact(nil, Ge(l, IntT(0)))
	}
	return l
}

func (ex *Exec) exprText(pos token.Pos, dflt string) string {
	if !pos.IsValid() {
		return "range"
	}
	t := ex.prog.sourceExprAt(pos, "")
	if t == "" {
		return "range"
	}
	return t
}

func (ex *Exec) zeroElems(st *State, arr *Term, et types.Type) {
	// forall i. leaf(arr,i) == zero   (one quantified fact per leaf)
	i := BoundVar("zi", SInt)
	var fs []*Term
	v := st.heap.load(Elt(arr, i), et, nil)
	z := zeroVal(et)
	lv, lz := flatten(v, nil), flatten(z, nil)
	for k := range lv {
		fs = append(fs, Forall([]*Term{i}, SameVal(lv[k], lz[k])))
	}
	ex.addFacts(st, fs)
}

func (ex *Exec) unop(fr *Frame, st *State, x *ssa.UnOp) Val {
	v := ex.operand(fr, x.X)
	switch x.Op {
	case token.MUL:
		if g, ok := x.X.(*ssa.Global); ok {
			if c := ex.constGlobal(g); c != nil {
				return c
			}
		}
		if p, ok := v.(*Term); ok && p.Sort == SPtr {
			ex.derefCheck(fr, st, p, x.Pos(), x.X.Name())
		}
		r := ex.load(fr, st, v, x.Type())
		if g, ok := x.X.(*ssa.Global); ok && ex.spec == 0 {
			ex.assumeGlobalInv(fr, st, g)
		}
		return r
	case token.NOT:
		return Not(v.(*Term))
	case token.SUB:
		t := v.(*Term)
		if t.Sort == SF64 {
			return FOp("fp.neg", t)
		}
		return Neg(t)
	case token.XOR:
		return UF("bitnot", SInt, v.(*Term))
	}
	unsupp("unary %s", x.Op)
	return nil
}

func (ex *Exec) binop(fr *Frame, st *State, op token.Token, a, b Val, t types.Type, pos token.Pos) Val {
	switch op {
	case token.EQL:
		return ex.goEq(a, b, t)
	case token.NEQ:
		return Not(ex.goEq(a, b, t))
	}
	x, ok1 := a.(*Term)
	y, ok2 := b.(*Term)
	if !ok1 || !ok2 {
		unsupp("binary %s on aggregates", op)
	}
	switch x.Sort {
	case SInt:
		switch op {
		case token.ADD:
			return Add(x, y)
		case token.SUB:
			return Sub(x, y)
		case token.MUL:
			return Mul(x, y)
		case token.QUO:
			if fr != nil {
				ex.oblige(fr, st, "div", ex.exprText(pos, "/"), Not(Eq(y, IntT(0))), pos, "integer division by zero")
			}
			return Quo(x, y)
		case token.REM:
			if fr != nil {
				ex.oblige(fr, st, "div", ex.exprText(pos, "%"), Not(Eq(y, IntT(0))), pos, "integer division by zero")
			}
			r := Rem(x, y)
			if _, lit := y.IsInt(); !lit && !r.hasBound {
				// congruence instances for divisors fixed by a global invariant (keeps the VC linear)
				for _, n := range ex.divHints() {
					ex.fact(nil, Implies(Eq(y, IntT(n)), Eq(r, Rem(x, IntT(n)))))
				}
			}
			return r
		case token.LSS, token.LEQ, token.GTR, token.GEQ:
			return tokenCmp(op, x, y)
		case token.SHL:
			if n, ok := y.IsInt(); ok && n >= 0 && n < 62 {
				return Mul(x, IntT(1<<uint(n)))
			}
			return UF("shl", SInt, x, y)
		case token.SHR:
			if n, ok := y.IsInt(); ok && n >= 0 && n < 62 && isUnsigned(t) {
				return Quo(x, IntT(1<<uint(n)))
			}
			return UF("shr", SInt, x, y)
		case token.AND:
			// x & (2^k - 1) on an unsigned operand is x mod 2^k
			if n, ok := y.IsInt(); ok && n > 0 && n < 1<<62 && (n+1)&n == 0 && isUnsigned(t) {
				return Rem(x, IntT(n+1))
			}
			return UF("bitand", SInt, x, y)
		case token.OR:
			return UF("bitor", SInt, x, y)
		case token.XOR:
			return UF("bitxor", SInt, x, y)
		case token.AND_NOT:
			return UF("bitandnot", SInt, x, y)
		}
	case SF64:
		switch op {
		case token.ADD:
			return FOp("fp.add", x, y)
		case token.SUB:
			return FOp("fp.sub", x, y)
		case token.MUL:
			return FOp("fp.mul", x, y)
		case token.QUO:
			return FOp("fp.div", x, y)
		case token.LSS, token.LEQ, token.GTR, token.GEQ:
			return tokenCmp(op, x, y)
		}
	case SStr:
		switch op {
		case token.ADD:
			r := SConcat(x, y)
			if !r.hasBound && r.Op == "uf" {
				ex.fact(nil, Eq(SLen(r), Add(SLen(x), SLen(y))))
			}
			return r
		case token.LSS:
			return UF("strlt", SBool, x, y)
		case token.GTR:
			return UF("strlt", SBool, y, x)
		case token.LEQ:
			return Not(UF("strlt", SBool, y, x))
		case token.GEQ:
			return Not(UF("strlt", SBool, x, y))
		}
	case SBool:
		switch op {
		case token.AND, token.LAND:
			return And(x, y)
		case token.OR, token.LOR:
			return Or(x, y)
		}
	}
	unsupp("binary %s on %s", op, x.Sort)
	return nil
}

// goEq implements == for all comparable kinds.
func (ex *Exec) goEq(a, b Val, t types.Type) *Term {
	if fa, ok := a.(*FuncVal); ok {
		a = funcValPtr(fa)
	}
	if fb, ok := b.(*FuncVal); ok {
		b = funcValPtr(fb)
	}
	if kindOf(t) == kIface {
		x, y := a.(*Agg), b.(*Agg)
		// comparing against nil: tag == 0
		return ex.ifaceEq(x, y)
	}
	if kindOf(t) == kSlice {
		// only slice == nil is legal
		x, y := a.(*Agg), b.(*Agg)
		if isNullSlice(y) {
			return Eq(x.F[0].(*Term), Null())
		}
		if isNullSlice(x) {
			return Eq(y.F[0].(*Term), Null())
		}
	}
	return eqVal(a, b)
}

func isNullSlice(a *Agg) bool { return a.F[0].(*Term).Op == "null" }

func (ex *Exec) ifaceEq(x, y *Agg) *Term {
	xt, yt := x.F[0].(*Term), y.F[0].(*Term)
	if n, ok := yt.IsInt(); ok && n == 0 {
		return Eq(xt, IntT(0))
	}
	if n, ok := xt.IsInt(); ok && n == 0 {
		return Eq(yt, IntT(0))
	}
	// Dynamic values: for pointer-shaped dynamic types equality is tag and payload identity; for
	// boxed (non-pointer) dynamic types identical boxes are sufficient but not necessary.
	same := And(Eq(xt, yt), Or(Eq(xt, IntT(0)), Eq(x.F[1].(*Term), y.F[1].(*Term))))
	// an uninterpreted predicate of the four components (so it may depend on quantifier-bound
	// variables occurring in them), bounded from both sides
	r := UF("ifaceeq", SBool, xt, x.F[1].(*Term), yt, y.F[1].(*Term))
	boxed := UF("boxedtag", SBool, xt)
	ex.fact(nil, Implies(same, r))
	ex.fact(nil, Implies(r, And(Eq(xt, yt), Or(boxed, Eq(xt, IntT(0)), Eq(x.F[1].(*Term), y.F[1].(*Term))))))
	return r
}

func (ex *Exec) indexAddr(fr *Frame, st *State, x *ssa.IndexAddr) Val {
	base := ex.operand(fr, x.X)
	idx := ex.term(fr, x.Index)
	switch u := x.X.Type().Underlying().(type) {
	case *types.Slice:
		s := base.(*Agg)
		ex.oblige(fr, st, "index", ex.exprText(x.Pos(), x.X.Name()), And(Ge(idx, IntT(0)), Lt(idx, s.F[2].(*Term))), x.Pos(), "slice index in range")
		return Elt(s.F[0].(*Term), Add(s.F[1].(*Term), idx))
	case *types.Pointer:
		at := u.Elem().Underlying().(*types.Array)
		if at.Len() > maxArrayLen {
			unsupp("indexing an array of %d elements (arrays longer than %d are not modelled)", at.Len(), maxArrayLen)
		}
		ex.oblige(fr, st, "index", ex.exprText(x.Pos(), x.X.Name()), And(Ge(idx, IntT(0)), Lt(idx, IntT(at.Len()))), x.Pos(), "array index in range")
		switch p := base.(type) {
		case *LocalPtr:
			pe := pathElem{Index: idx}
			if n, ok := idx.IsInt(); ok {
				pe = pathElem{Field: int(n)}
			}
			return &LocalPtr{Cell: p.Cell, Path: append(append([]pathElem{}, p.Path...), pe)}
		case *Term:
			return Elt(p, idx)
		}
	}
	unsupp("IndexAddr on %s", x.X.Type())
	return nil
}

func (ex *Exec) sliceOp(fr *Frame, st *State, x *ssa.Slice) Val {
	base := ex.operand(fr, x.X)
	var lo, hi *Term
	if x.Low != nil {
		lo = ex.term(fr, x.Low)
	} else {
		lo = IntT(0)
	}
	var max *Term
	if x.Max != nil {
		max = ex.term(fr, x.Max)
	}
	switch u := x.X.Type().Underlying().(type) {
	case *types.Basic:
		s := base.(*Term)
		if x.High != nil {
			hi = ex.term(fr, x.High)
		} else {
			hi = ex.slen(s)
		}
		ex.oblige(fr, st, "slice", ex.exprText(x.Pos(), x.X.Name()), And(Ge(lo, IntT(0)), Le(lo, hi), Le(hi, ex.slen(s))), x.Pos(), "string slice bounds in range")
		return ex.ssub(s, lo, hi)
	case *types.Slice:
		s := base.(*Agg)
		arr, off, ln, cp := s.F[0].(*Term), s.F[1].(*Term), s.F[2].(*Term), s.F[3].(*Term)
		if x.High != nil {
			hi = ex.term(fr, x.High)
		} else {
			hi = ln
		}
		if max != nil {
			ex.oblige(fr, st, "slice", ex.exprText(x.Pos(), x.X.Name()), And(Ge(lo, IntT(0)), Le(lo, hi), Le(hi, max), Le(max, cp)), x.Pos(), "slice bounds in range")
			return &Agg{F: []Val{arr, Add(off, lo), Sub(hi, lo), Sub(max, lo)}}
		}
		ex.oblige(fr, st, "slice", ex.exprText(x.Pos(), x.X.Name()), And(Ge(lo, IntT(0)), Le(lo, hi), Le(hi, cp)), x.Pos(), "slice bounds in range")
		return &Agg{F: []Val{arr, Add(off, lo), Sub(hi, lo), Sub(cp, lo)}}
	case *types.Pointer:
		at := u.Elem().Underlying().(*types.Array)
		p, ok := base.(*Term)
		if !ok {
			unsupp("slicing a non-escaping local array")
		}
		n := IntT(at.Len())
		if x.High != nil {
			hi = ex.term(fr, x.High)
		} else {
			hi = n
		}
		if max != nil {
			ex.oblige(fr, st, "slice", ex.exprText(x.Pos(), x.X.Name()), And(Ge(lo, IntT(0)), Le(lo, hi), Le(hi, max), Le(max, n)), x.Pos(), "array slice bounds in range")
			return &Agg{F: []Val{p, lo, Sub(hi, lo), Sub(max, lo)}}
		}
		ex.oblige(fr, st, "slice", ex.exprText(x.Pos(), x.X.Name()), And(Ge(lo, IntT(0)), Le(lo, hi), Le(hi, n)), x.Pos(), "array slice bounds in range")
		return &Agg{F: []Val{p, lo, Sub(hi, lo), Sub(n, lo)}}
	}
	unsupp("Slice on %s", x.X.Type())
	return nil
}

func (ex *Exec) ssub(s, lo, hi *Term) *Term {
	r := SSub(s, lo, hi)
	if r.Op == "uf" && r.Name == "ssub" && !r.hasBound {
		ex.fact(nil, Implies(And(Le(IntT(0), lo), Le(lo, hi), Le(hi, SLen(s))), Eq(SLen(r), Sub(hi, lo))))
	}
	return r
}

func (ex *Exec) convert(fr *Frame, st *State, v Val, from, to types.Type) Val {
	fu, tu := from.Underlying(), to.Underlying()
	fb, fok := fu.(*types.Basic)
	tb, tok := tu.(*types.Basic)
	if fok && tok {
		fi, ti := fb.Info(), tb.Info()
		x := v.(*Term)
		switch {
		case fi&types.IsInteger != 0 && ti&types.IsInteger != 0:
			if intNarrows(fb, tb) {
				ex.note("%s: integer conversion %s -> %s treated as value-preserving", ex.curLabel(), fb.Name(), tb.Name())
			}
			return x
		case fi&types.IsInteger != 0 && ti&types.IsFloat != 0:
			return IntToF64(x)
		case fi&types.IsFloat != 0 && ti&types.IsInteger != 0:
			return F64ToInt(x)
		case fi&types.IsFloat != 0 && ti&types.IsFloat != 0:
			return x
		case fi&types.IsString != 0 && ti&types.IsString != 0:
			return x
		case fi&types.IsInteger != 0 && ti&types.IsString != 0:
			r := UF("runestr", SStr, x)
			return r
		}
	}
	if _, ok := tu.(*types.Slice); ok && fok && fb.Info()&types.IsString != 0 {
		// []byte(s): fresh backing array whose bytes are those of s
		s := v.(*Term)
		p := ex.newObj()
		i := BoundVar("ci", SInt)
		ex.fact(st, Forall([]*Term{i}, Implies(And(Le(IntT(0), i), Lt(i, SLen(s))), Eq(st.heap.loadLeaf(Elt(p, i), SInt), SAt(s, i)))))
		return &Agg{F: []Val{p, IntT(0), ex.slen(s), ex.slen(s)}}
	}
	if _, ok := fu.(*types.Slice); ok && tok && tb.Info()&types.IsString != 0 {
		// string(bytes)
		b := v.(*Agg)
		// a function of the slice header and the byte heap: converting the same bytes twice (in the
		// code and in a specification clause) denotes the same string
		hn, hs := heapName(SInt)
		r := UF("bytestr", SStr, b.F[0].(*Term), b.F[1].(*Term), b.F[2].(*Term), st.heap.array(hn, hs))
		if r.hasBound {
			return r
		}
		ex.fact(nil, Eq(SLen(r), b.F[2].(*Term)))
		i := BoundVar("ci", SInt)
		ex.fact(st, Forall([]*Term{i}, Implies(And(Le(IntT(0), i), Lt(i, b.F[2].(*Term))),
			Eq(SAt(r, i), st.heap.loadLeaf(Elt(b.F[0].(*Term), Add(b.F[1].(*Term), i)), SInt)))))
		return r
	}
	if _, ok := fu.(*types.Pointer); ok {
		return v
	}
	if _, ok := fu.(*types.Signature); ok {
		return v
	}
	if tok && tb.Kind() == types.UnsafePointer {
		return v
	}
	unsupp("conversion %s -> %s", from, to)
	return nil
}

func (ex *Exec) curLabel() string {
	if ex.cur != nil {
		return ex.cur.label
	}
	return "?"
}

func intNarrows(from, to *types.Basic) bool {
	size := func(b *types.Basic) int {
		switch b.Kind() {
		case types.Int8, types.Uint8:
			return 8
		case types.Int16, types.Uint16:
			return 16
		case types.Int32, types.Uint32:
			return 32
		}
		return 64
	}
	return size(to) < size(from)
}

// pointerShaped reports whether a dynamic type is stored directly in the interface payload.
func pointerShaped(t types.Type) bool {
	switch t.Underlying().(type) {
	case *types.Pointer, *types.Map, *types.Chan, *types.Signature:
		return true
	}
	if b, ok := t.Underlying().(*types.Basic); ok && b.Kind() == types.UnsafePointer {
		return true
	}
	return false
}

func (ex *Exec) makeInterface(st *State, v Val, t types.Type) Val {
	if _, ok := t.Underlying().(*types.Interface); ok {
		return v
	}
	tag := IntT(int64(ex.typeID(t)))
	if pointerShaped(t) {
		switch p := v.(type) {
		case *Term:
			return &Agg{F: []Val{tag, p}}
		case *FuncVal:
			return &Agg{F: []Val{tag, funcValPtr(p)}}
		}
		unsupp("MakeInterface of %T", v)
	}
	box := ex.newObj()
	st.heap.store(box, t, v)
	return &Agg{F: []Val{tag, box}}
}

func (ex *Exec) typeAssert(fr *Frame, st *State, x *ssa.TypeAssert) Val {
	iv := ex.operand(fr, x.X).(*Agg)
	tag, pl := iv.F[0].(*Term), iv.F[1].(*Term)
	var ok *Term
	var val Val
	if it, isI := x.AssertedType.Underlying().(*types.Interface); isI {
		if n, lit := tag.IsInt(); lit {
			if n == 0 {
				ok = False()
			} else {
				ok = BoolT(types.Implements(ex.typeOf[int(n)], it))
			}
		} else if it.NumMethods() == 0 {
			ok = Not(Eq(tag, IntT(0)))
		} else {
			ok = And(Not(Eq(tag, IntT(0))), UF("implements@"+types.TypeString(x.AssertedType, nil), SBool, tag))
		}
		val = iv
	} else {
		ok = Eq(tag, IntT(int64(ex.typeID(x.AssertedType))))
		if pointerShaped(x.AssertedType) {
			val = pl
		} else {
			val = st.heap.load(pl, x.AssertedType, nil)
		}
	}
	if x.CommaOk {
		if _, isI := x.AssertedType.Underlying().(*types.Interface); isI {
			val = iteVal(ok, val, zeroVal(x.AssertedType))
		} else {
			val = iteVal(ok, val, zeroVal(x.AssertedType))
		}
		return &Agg{F: []Val{val, ok}}
	}
	ex.oblige(fr, st, "typeassert", ex.exprText(x.Pos(), x.X.Name()), ok, x.Pos(), "type assertion holds")
	return val
}

func (ex *Exec) lookup(fr *Frame, st *State, x *ssa.Lookup) Val {
	if mt, ok := x.X.Type().Underlying().(*types.Map); ok {
		m := ex.term(fr, x.X)
		k := ex.term(fr, x.Index)
		v, has := st.heap.mapGet(m, mt, k)
		var fs []*Term
		typeFacts(v, mt.Elem(), &fs)
		ex.addFacts(nil, fs)
		if x.CommaOk {
			return &Agg{F: []Val{v, has}}
		}
		return v
	}
	// string index (x.X is string): yields byte
	s := ex.term(fr, x.X)
	idx := ex.term(fr, x.Index)
	ex.oblige(fr, st, "index", ex.exprText(x.Pos(), x.X.Name()), And(Ge(idx, IntT(0)), Lt(idx, ex.slen(s))), x.Pos(), "string index in range")
	return SAt(s, idx)
}

// next models one step of a map or string range iterator (no progress tracking: an arbitrary
// present key, or an arbitrary valid rune position).
func (ex *Exec) next(fr *Frame, st *State, x *ssa.Next) Val {
	rng := x.Iter.(*ssa.Range)
	ok := Fresh("rng.ok", SBool)
	if x.IsString {
		// position-tracking iterator: yields (pos, rune at pos) and advances by the rune's width;
		// bytes < 0x80 are one-byte runes, other runes are >= 0x80 and 1..4 bytes wide.
		s := ex.term(fr, rng.X)
		pos := st.iters[rng]
		if pos == nil {
			unsupp("string range iterator without position")
		}
		L := ex.slen(s)
		okT := Lt(pos, L)
		b := SAt(s, pos)
		r := Fresh("rng.r", SInt)
		w := Fresh("rng.w", SInt)
		ex.fact(st, And(Ge(pos, IntT(0)), Le(pos, L)))
		ex.fact(st, Implies(okT, And(Ge(b, IntT(0)), Lt(b, IntT(256)),
			Implies(Lt(b, IntT(128)), And(Eq(r, b), Eq(w, IntT(1)))),
			Implies(Ge(b, IntT(128)), And(Ge(r, IntT(128)), Ge(w, IntT(1)), Le(w, IntT(4)))),
			Le(Add(pos, w), L))))
		st.iters[rng] = Ite(okT, Add(pos, w), pos)
		return &Agg{F: []Val{okT, pos, r}}
	}
	mt := rng.X.Type().Underlying().(*types.Map)
	m := ex.term(fr, rng.X)
	k := Fresh("rng.k", mapKeySort(mt))
	if st.iters == nil {
		st.iters = map[*ssa.Range]*Term{}
	}
	st.iters[rng] = ok // the answer of the last `next` of this map iterator: rangedone()
	ex.fact(st, Implies(ok, st.heap.mapHas(m, mt, k)))
	ex.fact(st, Implies(Eq(m, Null()), Not(ok)))
	ex.fact(st, Implies(Eq(st.heap.mapLen(m), IntT(0)), Not(ok)))
	var fs []*Term
	kv := Val(k)
	typeFacts(kv, mt.Key(), &fs)
	v := st.heap.mapGetRaw(m, mt, k)
	typeFacts(v, mt.Elem(), &fs)
	ex.addFacts(nil, fs)
	return &Agg{F: []Val{ok, k, v}}
}

var _ = fmt.Sprintf


// allocAsserts evaluates `assert@alloc(T,k)` clauses anchored at the k-th heap allocation of type T.
func (ex *Exec) allocAsserts(fr *Frame, st *State, x *ssa.Alloc) {
	if fr.con == nil || len(fr.con.Asserts) == 0 || ex.spec > 0 || fr.parent != nil {
		return
	}
	nt, ok := elemOfPtr(x.Type()).(*types.Named)
	if !ok {
		return
	}
	// ordinal among heap allocations of this type, by source position
	ord := 0
	for _, b := range fr.fn.Blocks {
		for _, in := range b.Instrs {
			if a, ok := in.(*ssa.Alloc); ok && a.Heap && a != x {
				if n2, ok := elemOfPtr(a.Type()).(*types.Named); ok && n2.Obj() == nt.Obj() && a.Pos() < x.Pos() {
					ord++
				}
			}
		}
	}
	anchor := fmt.Sprintf("alloc(%s,%d)", nt.Obj().Name(), ord)
	for _, cl := range fr.con.Asserts {
		if fr.con.Anchors[cl] != anchor {
			continue
		}
		env := ex.funcEnv(fr, st)
		env.pos = x.Pos()
		for h, body := range fr.li.body {
			if body[x.Block()] {
				if env.loop == nil || fr.li.body[env.loop][h] {
					env.loop = h
				}
			}
		}
		ex.oblige(fr, st, "assert@"+anchor, cl.Label, env.evalBool(cl.Text), x.Pos(), cl.Text)
		fr.assertsDone[cl] = true
	}
}


var divHintRe = regexp.MustCompile(`==\s*(\d+)`)

func (ex *Exec) divHints() []int64 {
	var out []int64
	for _, g := range ex.cs.Globals {
		if m := divHintRe.FindStringSubmatch(g.Clause.Text); m != nil {
			n, _ := strconv.ParseInt(m[1], 10, 64)
			if n > 0 {
				out = append(out, n)
			}
		}
	}
	return out
}


type privCell struct {
	p *Term
	t types.Type
}

// privateCell: a heap-allocated local whose address is only ever loaded from, stored to, or captured
// by closures that themselves only load/store it. No callee can reach such a cell, so a havoc
// caused by a call leaves it unchanged.
func privateCell(a *ssa.Alloc) bool {
	var ok func(v ssa.Value, depth int) bool
	ok = func(v ssa.Value, depth int) bool {
		if depth > 3 {
			return false
		}
		refs := v.Referrers()
		if refs == nil {
			return false
		}
		for _, r := range *refs {
			switch x := r.(type) {
			case *ssa.Store:
				if x.Addr != v {
					return false // the address itself is stored somewhere
				}
			case *ssa.UnOp:
			case *ssa.DebugRef:
			case *ssa.FieldAddr:
				if !ok(x, depth+1) {
					return false
				}
			case *ssa.MakeClosure:
				fn := x.Fn.(*ssa.Function)
				for i, b := range x.Bindings {
					if b == v {
						if i >= len(fn.FreeVars) || !ok(fn.FreeVars[i], depth+1) {
							return false
						}
					}
				}
			default:
				return false
			}
		}
		return true
	}
	return ok(a, 0)
}

// preservingPrivate runs a heap havoc and then restores the private cells and private maps.
func (ex *Exec) preservingPrivate(st *State, havoc func()) {
	if ex.loopHavoc {
		// a loop's own footprint: the loop body may well modify the function's private cells and maps
		havoc()
		return
	}
	type saved struct {
		c privCell
		v Val
	}
	var sv []saved
	for _, c := range ex.private {
		sv = append(sv, saved{c, st.heap.load(c.p, c.t, nil)})
	}
	type savedMap struct {
		name string
		p    *Term
		v    *Term
	}
	var sm []savedMap
	for _, m := range ex.privMaps {
		ks := mapKeySort(m.t)
		dn, ds := mdomName(ks)
		sm = append(sm, savedMap{dn, m.p, Select(st.heap.array(dn, ds), m.p)})
		for _, l := range typeLeaves(m.t.Elem(), "", nil) {
			n, s := mvalName(ks, l.path, l.sort)
			sm = append(sm, savedMap{n, m.p, Select(st.heap.array(n, s), m.p)})
		}
		sm = append(sm, savedMap{mlenName, m.p, Select(st.heap.array(mlenName, mlenSort), m.p)})
	}
	havoc()
	for _, s := range sv {
		st.heap.store(s.c.p, s.c.t, s.v)
	}
	for _, s := range sm {
		st.heap.set(s.name, Store(st.heap.array(s.name, knownArrays[s.name]), s.p, s.v))
	}
}

type privMap struct {
	p *Term
	t *types.Map
}

// privateMap: a map created here whose reference never leaves the function: it is only used for
// lookups, updates, range, len/delete, stored in a non-escaping local variable, or passed to a
// modelled pure library function. No callee can reach it.
func privateMap(m *ssa.MakeMap) bool {
	holders := []ssa.Value{m}
	seen := map[ssa.Value]bool{m: true}
	for len(holders) > 0 {
		v := holders[0]
		holders = holders[1:]
		refs := v.Referrers()
		if refs == nil {
			return false
		}
		for _, r := range *refs {
			switch x := r.(type) {
			case *ssa.MapUpdate:
				if x.Map != v {
					return false
				}
			case *ssa.Lookup:
				if x.X != v {
					return false
				}
			case *ssa.Range, *ssa.DebugRef:
			case *ssa.Store:
				if x.Val != v {
					continue
				}
				a, ok := x.Addr.(*ssa.Alloc)
				if !ok || a.Heap {
					return false
				}
				// every load of that local may hold the map
				for _, ar := range *a.Referrers() {
					if u, ok := ar.(*ssa.UnOp); ok && !seen[u] {
						seen[u] = true
						holders = append(holders, u)
					}
				}
			case *ssa.Call:
				if b, ok := x.Call.Value.(*ssa.Builtin); ok && (b.Name() == "len" || b.Name() == "delete") {
					continue
				}
				if f := x.Call.StaticCallee(); f != nil && pureModel(ssaFullName(f)) {
					continue
				}
				return false
			default:
				return false
			}
		}
	}
	return true
}


// constGlobal: exported error variables of dependencies (io.EOF, ...) are never reassigned; they
// are modelled as constants that are non-nil and pairwise distinct.
func (ex *Exec) constGlobal(g *ssa.Global) Val {
	if g.Pkg == nil || strings.HasPrefix(g.Pkg.Pkg.Path(), modPath) {
		return nil
	}
	et := elemOfPtr(g.Type())
	if kindOf(et) != kIface || !types.Identical(et, types.Universe.Lookup("error").Type()) {
		return nil
	}
	name := g.Pkg.Pkg.Path() + "." + g.Name()
	if v, ok := ex.constGlobals[name]; ok {
		return v
	}
	ex.assumed["exported error variables of dependencies (e.g. "+name+") are constants: never reassigned, non-nil, pairwise distinct"] = true
	tag, pl := Const("glob@"+name+".tag", SInt), Const("glob@"+name+".pl", SPtr)
	ex.tagFacts = append(ex.tagFacts, Not(UF("boxedtag", SBool, tag)))
	// non-nilness does not depend on the classification of dynamic types: it goes to every query
	// that mentions the variable
	ex.globFacts = append(ex.globFacts, globFact{tag.Name, Gt(tag, IntT(0))})
	for _, o := range ex.constGlobals {
		ex.tagFacts = append(ex.tagFacts, Not(Eq(pl, o.(*Agg).F[1].(*Term))))
	}
	v := &Agg{F: []Val{tag, pl}}
	ex.constGlobals[name] = v
	return v
}

func (ex *Exec) errGlobal(pkg, name string) *Agg {
	p := ex.prog.SSA.ImportedPackage(pkg)
	if p == nil {
		unsupp("package %s not loaded", pkg)
	}
	g, _ := p.Members[name].(*ssa.Global)
	if g == nil {
		unsupp("no global %s.%s", pkg, name)
	}
	return ex.constGlobal(g).(*Agg)
}
