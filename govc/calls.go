package main

import (
	"fmt"
	"go/ast"
	"go/token"
	"go/types"
	"regexp"
	"sort"
	"strings"

	"golang.org/x/tools/go/ssa"
)

// call executes a call instruction and returns its result values.
func (ex *Exec) call(fr *Frame, st *State, site ssa.Instruction, c *ssa.CallCommon) []Val {
	if ex.nilSweep() {
		// dereferences made by the call itself: the interface receiver, the function value
		if c.IsInvoke() {
			if recv, ok := ex.operand(fr, c.Value).(*Agg); ok && len(recv.F) == 2 {
				if tg, ok := recv.F[0].(*Term); ok {
					ex.derefCheck(fr, st, tg, site.Pos(), c.Value.Name()+"."+c.Method.Name())
				}
			}
		} else if _, isB := c.Value.(*ssa.Builtin); !isB {
			if t, ok := ex.operand(fr, c.Value).(*Term); ok && t.Sort == SPtr {
				ex.derefCheck(fr, st, t, site.Pos(), c.Value.Name())
			}
		}
	}
	rets := ex.call1(fr, st, site, c)
	if _, isB := c.Value.(*ssa.Builtin); !isB {
		optOut := false
		if sc := c.StaticCallee(); sc != nil {
			if con := ex.contractFor(sc); con != nil && con.MayReturnNil {
				optOut = true
			}
		}
		ex.afterCall(c.Signature(), rets, "result of "+ex.prog.callFunText(site.Pos())+" before its error was checked", optOut)
	}
	return rets
}

func (ex *Exec) call1(fr *Frame, st *State, site ssa.Instruction, c *ssa.CallCommon) []Val {
	var args []Val
	for _, a := range c.Args {
		args = append(args, ex.operand(fr, a))
	}
	sig := c.Signature()
	if b, ok := c.Value.(*ssa.Builtin); ok {
		return ex.builtinCall(fr, st, site, b, c, args)
	}
	var rets []Val
	pre := ex.capturePre(fr, st, site)
	if c.IsInvoke() {
		recv := ex.operand(fr, c.Value).(*Agg)
		rets = ex.invoke(fr, st, site, c.Value.Type(), c.Method, recv, args)
		ex.recordCapture(fr, st, site, append([]Val{recv}, args...), rets, sig, pre)
		return rets
	}
	fv, ok := ex.operand(fr, c.Value).(*FuncVal)
	if !ok {
		// a closure that went through the heap comes back as its id
		if t, isT := ex.operand(fr, c.Value).(*Term); isT && t.Op == "fnp" {
			if id, lit := t.Args[0].IsInt(); lit && closureByID[int(id)] != nil {
				fv, ok = closureByID[int(id)], true
			}
		}
	}
	if !ok {
		txt := ex.prog.callFunText(site.Pos())
		pure := false
		if top := fr.topFrame(); top.con != nil {
			for _, a := range top.con.AssumePure {
				if a == txt {
					pure = true
				}
			}
		}
		fresh := false
		if top := fr.topFrame(); top.con != nil {
			for _, a := range top.con.AssumeFresh {
				if a == txt {
					fresh = true
				}
			}
		}
		viaCalls := false
		if top := fr.topFrame(); top.con != nil {
			for _, a := range top.con.Calls {
				if a == txt {
					viaCalls = true
				}
			}
		}
		if viaCalls {
			// the effect of the callback is accounted for at the call sites of this function
			// (contract clause `calls`); inside, it is assumed disjoint from what the contract talks about
			ex.assumed[fmt.Sprintf("%s: the footprint of the callback parameter %s is disjoint from the locations this function's contract mentions (its effect is applied at every call site through `calls %s`)", fr.label, txt, txt)] = true
			rets = ex.freshResults(st, sig, "cbret")
		} else if fresh {
			ex.assumed[fmt.Sprintf("%s: calls through the function value %s modify nothing and return freshly allocated values", fr.label, txt)] = true
			for i := 0; i < sig.Results().Len(); i++ {
				rt := sig.Results().At(i).Type()
				switch kindOf(rt) {
				case kIface:
					tag := Fresh("freshtag", SInt)
					ex.fact(nil, Gt(tag, IntT(0)))
					rets = append(rets, &Agg{F: []Val{tag, ex.newObj()}})
				default:
					if kindOf(rt) == kLeaf && leafSort(rt) == SPtr {
						rets = append(rets, ex.newObj())
					} else {
						unsupp("assume_fresh on result type %s", rt)
					}
				}
			}
		} else if pure {
			ex.assumed[fmt.Sprintf("%s: calls through the function value %s are pure (result determined by the function value and its arguments, no heap effect)", fr.label, txt)] = true
			flat := append([]*Term{tm(ex.operand(fr, c.Value))}, flatAll(args)...)
			for i := 0; i < sig.Results().Len(); i++ {
				rets = append(rets, ufVal(fmt.Sprintf("fv@%s.%d", txt, i), sig.Results().At(i).Type(), flat...))
			}
		} else {
			ex.note("%s: call through unknown function value havoced", fr.label)
			rets = ex.havocCall(st, sig)
			if top := fr.topFrame(); top.con != nil && sig.Results().Len() >= 2 {
				for _, a := range top.con.AssumeValueOrError {
					if a != txt {
						continue
					}
					// (value, ..., error): a nil error comes with a non-nil value
					if v0, ok := rets[0].(*Agg); ok && kindOf(sig.Results().At(0).Type()) == kIface {
						if e, ok := rets[len(rets)-1].(*Agg); ok {
							ex.assumed[fmt.Sprintf("%s: a call through the function value %s that returns a nil error returns a non-nil value", fr.label, txt)] = true
							ex.fact(nil, Implies(Eq(tm(e.F[0]), IntT(0)), Not(Eq(tm(v0.F[0]), IntT(0)))))
						}
					}
				}
			}
		}
	} else {
		rets = ex.dispatch(fr, st, site, fv.Fn, args, fv.Bindings)
	}
	ex.recordCapture(fr, st, site, args, rets, sig, pre)
	return rets
}

func (ex *Exec) havocCall(st *State, sig *types.Signature) []Val {
	ex.preservingPrivate(st, st.heap.havocAll)
	return ex.freshResults(st, sig, "ret")
}

func (ex *Exec) freshResults(st *State, sig *types.Signature, prefix string) []Val {
	var rets []Val
	for i := 0; i < sig.Results().Len(); i++ {
		var fs []*Term
		rets = append(rets, freshVal(sig.Results().At(i).Type(), fmt.Sprintf("%s%d", prefix, i), &fs))
		ex.addFacts(nil, fs)
		ex.assumeOlder(rets[len(rets)-1])
		ex.assumeSealed(rets[len(rets)-1], sig.Results().At(i).Type())
	}
	return rets
}

// dispatch decides how a statically known callee is handled.
func (ex *Exec) dispatch(fr *Frame, st *State, site ssa.Instruction, fn *ssa.Function, args, bindings []Val) []Val {
	full := ssaFullName(fn)
	if idx, ok := callbackModels[full]; ok && idx < len(args) {
		ex.assumed["model "+full+": invokes its function argument any number of times and has no other effect on the program heap; its results are unconstrained"] = true
		// expressions the callback declares stable across a successful invocation
		type stab struct {
			text string
			pre  Val
			env  func(*State) *SpecEnv
		}
		var stabs []stab
		if cfv, ok := args[idx].(*FuncVal); ok {
			if ccon := ex.contractFor(cfv.Fn); ccon != nil && len(ccon.CallbackStable) > 0 {
				mk := func(s *State) *SpecEnv {
					sf, sb := ex.cfn, ex.cbind
					ex.cfn, ex.cbind = cfv.Fn, cfv.Bindings
					defer func() { ex.cfn, ex.cbind = sf, sb }()
					return ex.calleeEnv(cfv.Fn, ccon, nil, s, s, nil)
				}
				pre0 := st.clone()
				for _, e := range ccon.CallbackStable {
					sf, sb := ex.cfn, ex.cbind
					ex.cfn, ex.cbind = cfv.Fn, cfv.Bindings
					v := mk(pre0).evalAny(e)
					ex.cfn, ex.cbind = sf, sb
					stabs = append(stabs, stab{e, v, mk})
				}
			}
		}
		ex.callbackEffect(fr, st, site, args[idx])
		rets := ex.freshResults(st, fn.Signature, "lib")
		if len(stabs) > 0 && len(rets) > 0 {
			if e, ok := rets[len(rets)-1].(*Agg); ok && len(e.F) == 2 && isErrorType(fn.Signature.Results().At(len(rets)-1).Type()) {
				ex.assumed["model "+full+": returns a nil error only if every invocation of its callback returned nil (so what the callback leaves unchanged when it succeeds is unchanged by the whole call)"] = true
				for _, sb := range stabs {
					sf, sbd := ex.cfn, ex.cbind
					cfv := args[idx].(*FuncVal)
					ex.cfn, ex.cbind = cfv.Fn, cfv.Bindings
					post := sb.env(st).evalAny(sb.text)
					ex.cfn, ex.cbind = sf, sbd
					a, b := flatten(sb.pre, nil), flatten(post, nil)
					for k := range a {
						if k < len(b) {
							ex.fact(st, Implies(Eq(tm(e.F[0]), IntT(0)), SameVal(b[k], a[k])))
						}
					}
				}
			}
		}
		return rets
	}
	if full == "(*text/scanner.Scanner).Scan" && len(args) == 1 {
		return ex.scannerScan(fr, st, site, fn, args)
	}
	if (full == "container/heap.Push" || full == "container/heap.Pop") && len(args) > 0 {
		if r, ok := ex.heapGeneric(fr, st, site, fn, full, args); ok {
			return r
		}
	}
	if r, ok := ex.modelCall(full, args, st, fn.Signature); ok {
		return r
	}
	con := ex.contractFor(fn)
	switch {
	case con != nil && con.Inline:
		return ex.inlineCall(fr, st, fn, args, bindings)
	case con != nil && (con.Pure || con.PureHeap):
		ex.checkRequires(fr, st, site, fn, con, args)
		return ex.pureApply(fn, con, args, st, false)
	case con != nil:
		if len(bindings) > 0 {
			sf, sb := ex.cfn, ex.cbind
			ex.cfn, ex.cbind = fn, bindings
			defer func() { ex.cfn, ex.cbind = sf, sb }()
		}
		return ex.modularCall(fr, st, site, fn, con, args)
	case fn.Parent() != nil && len(fn.Blocks) > 0:
		// closure of a function under verification: part of its body
		return ex.inlineCall(fr, st, fn, args, bindings)
	case fn.Synthetic != "" && !strings.HasPrefix(fn.Synthetic, "instance of") && len(fn.Blocks) > 0:
		return ex.inlineCall(fr, st, fn, args, bindings)
	}
	if ex.spec == 0 {
		ex.note("%s: call to %s without contract havoced", fr.label, full)
	}
	if pk := ex.prog.pkgOf(fn); pk == nil || !strings.HasPrefix(pk.PkgPath, modPath) {
		// A dependency: arbitrary effect on the program heap, but the ghost resource state (which
		// only the contracts of this module talk about) is not touched.
		ex.assumed["functions of dependencies called without contract havoc the program heap but never open or close log readers (ghost state unchanged)"] = true
		ex.preservingPrivate(st, st.heap.havocReal)
		return ex.freshResults(st, fn.Signature, "ret")
	}
	return ex.havocCall(st, fn.Signature)
}

func ssaFullName(fn *ssa.Function) string {
	o := fn
	if fn.Origin() != nil {
		o = fn.Origin()
	}
	if obj, ok := o.Object().(*types.Func); ok && obj != nil {
		return funcFullName(obj)
	}
	return o.String()
}

// inlineCall runs the callee's body in the caller's state.
func (ex *Exec) inlineCall(fr *Frame, st *State, fn *ssa.Function, args, bindings []Val) []Val {
	nf := ex.newFrame(fn, args, bindings, fr)
	if fr == nil {
		nf.label = funcLabel(fn)
	}
	nf.entry = st.clone()
	nf.entryArgs = args
	res := ex.run(nf, st.clone())
	if res.st == nil {
		st.reach = False()
		var out []Val
		for i := 0; i < fn.Signature.Results().Len(); i++ {
			out = append(out, zeroVal(fn.Signature.Results().At(i).Type()))
		}
		return out
	}
	// the callee's local cells die with it
	for a := range res.st.cells {
		if _, mine := st.cells[a]; !mine {
			delete(res.st.cells, a)
		}
	}
	st.reach = res.st.reach
	st.heap = res.st.heap
	for a, v := range res.st.cells {
		st.cells[a] = v
	}
	return res.vals
}

func (ex *Exec) runDeferred(fr *Frame, st *State, d deferEntry) {
	c := &d.call.Call
	sub := st.clone()
	sub.reach = And(st.reach, d.cond)
	var rets []Val
	if b, ok := c.Value.(*ssa.Builtin); ok {
		ex.builtinCall(fr, sub, d.call, b, c, d.args)
	} else if c.IsInvoke() {
		rets = ex.invoke(fr, sub, d.call, c.Value.Type(), c.Method, d.recv.(*Agg), d.args)
		ex.recordCapture(fr, sub, d.call, append([]Val{d.recv}, d.args...), rets, c.Signature(), nil)
	} else if fv, ok := d.fn.(*FuncVal); ok {
		called := sub.reach
		rets = ex.dispatch(fr, sub, d.call, fv.Fn, d.args, fv.Bindings)
		pre := &State{reach: called}
		ex.recordCapture(fr, pre, d.call, d.args, rets, c.Signature(), nil)
	} else {
		ex.note("%s: deferred call through unknown function value havoced", fr.label)
		ex.havocCall(sub, c.Signature())
	}
	// merge: deferred call ran under d.cond, skipped otherwise
	skipped := st.clone()
	skipped.reach = And(st.reach, Not(d.cond))
	var ins []*State
	if !sub.reach.IsFalse() {
		ins = append(ins, sub)
	}
	if !skipped.reach.IsFalse() {
		ins = append(ins, skipped)
	}
	if len(ins) == 0 {
		st.reach = False()
		return
	}
	m := ex.mergeStates(ins)
	st.reach, st.cells, st.heap = m.reach, m.cells, m.heap
}

// ---- specification environments for contracts

// bindParams maps the parameter objects of fn's declaration to values.
func (ex *Exec) paramObjs(fn *ssa.Function) []*types.Var {
	o := fn
	if fn.Origin() != nil {
		o = fn.Origin()
	}
	sig := o.Signature
	var out []*types.Var
	if sig.Recv() != nil {
		out = append(out, sig.Recv())
	}
	for i := 0; i < sig.Params().Len(); i++ {
		out = append(out, sig.Params().At(i))
	}
	return out
}

type specScope struct {
	pos     token.Pos
	rets    []*types.Var
	extra   map[string]*types.Var
	logical []*types.Var
}

var scopeCache = map[string]*specScope{}

// funcScope prepares the scope in which fn's function-level clauses are checked.
func (ex *Exec) funcScope(fn *ssa.Function, con *Contract) *specScope {
	o := fn
	if fn.Origin() != nil {
		o = fn.Origin()
	}
	key := o.String()
	if s, ok := scopeCache[key]; ok {
		return s
	}
	pk := ex.prog.pkgOf(fn)
	ensureIntrinsics(pk.Types)
	syn := funcSyntax(fn)
	var ftype *ast.FuncType
	var body *ast.BlockStmt
	switch d := syn.(type) {
	case *ast.FuncDecl:
		ftype, body = d.Type, d.Body
	case *ast.FuncLit:
		ftype, body = d.Type, d.Body
	default:
		unsupp("no syntax for %s", fn)
	}
	sc := pk.TypesInfo.Scopes[ftype]
	if sc == nil {
		unsupp("no scope for %s", fn)
	}
	s := &specScope{pos: body.Rbrace, extra: map[string]*types.Var{}}
	res := o.Signature.Results()
	for i := 0; i < res.Len(); i++ {
		name := fmt.Sprintf("ret%d", i)
		v, _ := sc.Lookup(name).(*types.Var)
		if v == nil {
			v = types.NewVar(token.NoPos, pk.Types, name, res.At(i).Type())
			sc.Insert(v)
		}
		s.rets = append(s.rets, v)
	}
	if sc.Lookup("rangeindex") == nil {
		sc.Insert(types.NewVar(token.NoPos, pk.Types, "rangeindex", types.Typ[types.Int]))
	}
	if con != nil {
		for _, cp := range con.Captures {
			ex.insertCaptureVars(fn, sc, pk.Types, cp, s)
		}
		for _, lv := range con.Logical {
			tv, err := types.Eval(pk.Fset, pk.Types, body.Rbrace, lv[1])
			if err != nil {
				unsupp("logical %s %s: %v", lv[0], lv[1], err)
			}
			v, _ := sc.Lookup(lv[0]).(*types.Var)
			if v == nil {
				v = types.NewVar(token.NoPos, pk.Types, lv[0], tv.Type)
				sc.Insert(v)
			}
			s.logical = append(s.logical, v)
		}
	}
	scopeCache[key] = s
	return s
}

// ifaceScope prepares a scope for the abstract contract of an interface method.
func (ex *Exec) ifaceScope(named *types.Named, m *types.Func) (*specScope, []*types.Var, *types.Var) {
	// One scope per generic interface method: the parameters are typed with the *generic*
	// signature (type parameters), and ifaceEnv maps the type parameters to the type arguments of
	// the instantiation at hand. (Typing them with the first instantiation met - Iterator[Record]
	// - made `modifies *t` havoc a Record where a Step was passed.)
	key := "iface:" + named.Obj().Pkg().Path() + "." + named.Obj().Name() + "." + m.Name()
	pk := ex.prog.Pkgs[named.Obj().Pkg().Path()]
	if pk == nil {
		unsupp("interface %s is outside the loaded packages", named)
	}
	type cached struct {
		s      *specScope
		params []*types.Var
		self   *types.Var
	}
	if c, ok := ifaceScopeCache[key]; ok {
		return c.s, c.params, c.self
	}
	ensureIntrinsics(pk.Types)
	parent := pk.Types.Scope().Innermost(m.Pos())
	if parent == nil {
		unsupp("no scope around %s", key)
	}
	sc := types.NewScope(parent, m.Pos(), m.Pos()+token.Pos(len(m.Name())), "verif iface contract")
	sig := m.Type().(*types.Signature)
	origin := named.Origin()
	if oi, ok := origin.Underlying().(*types.Interface); ok && origin.TypeParams().Len() > 0 {
		for i := 0; i < oi.NumMethods(); i++ {
			if om := oi.Method(i); om.Name() == m.Name() {
				sig = om.Type().(*types.Signature)
			}
		}
	}
	self := types.NewVar(token.NoPos, pk.Types, "self", origin)
	if origin.TypeParams().Len() > 0 {
		// self is typed with the generic interface instantiated by its own type parameters
		var targs []types.Type
		for i := 0; i < origin.TypeParams().Len(); i++ {
			targs = append(targs, origin.TypeParams().At(i))
		}
		if inst, err := types.Instantiate(nil, origin, targs, false); err == nil {
			self = types.NewVar(token.NoPos, pk.Types, "self", inst)
		}
	}
	sc.Insert(self)
	var params []*types.Var
	for i := 0; i < sig.Params().Len(); i++ {
		p := sig.Params().At(i)
		name := p.Name()
		if name == "" || name == "_" {
			name = fmt.Sprintf("arg%d", i)
		}
		v := types.NewVar(token.NoPos, pk.Types, name, p.Type())
		sc.Insert(v)
		params = append(params, v)
	}
	s := &specScope{pos: m.Pos(), extra: map[string]*types.Var{}}
	for i := 0; i < sig.Results().Len(); i++ {
		v := types.NewVar(token.NoPos, pk.Types, fmt.Sprintf("ret%d", i), sig.Results().At(i).Type())
		sc.Insert(v)
		s.rets = append(s.rets, v)
	}
	ifaceScopeCache[key] = struct {
		s      *specScope
		params []*types.Var
		self   *types.Var
	}{s, params, self}
	return s, params, self
}

var ifaceScopeCache = map[string]struct {
	s      *specScope
	params []*types.Var
	self   *types.Var
}{}

// calleeEnv builds the environment to evaluate callee clauses at a call site.
func (ex *Exec) calleeEnv(fn *ssa.Function, con *Contract, args []Val, pre, post *State, rets []Val) *SpecEnv {
	sc := ex.funcScope(fn, con)
	pk := ex.prog.pkgOf(fn)
	env := &SpecEnv{ex: ex, pkg: pk, pos: sc.pos, st: post, old: pre, objs: map[types.Object]Val{}, entry: map[types.Object]Val{}, label: funcLabel(fn)}
	env.tparams = typeParamMap(fn)
	if ex.cfn == fn {
		env.cfn, env.cbind = fn, ex.cbind
	}
	for i, p := range ex.paramObjs(fn) {
		if i < len(args) {
			env.objs[p] = args[i]
			env.entry[p] = args[i]
		}
	}
	for _, lv := range sc.logical {
		ls := typeLeaves(lv.Type(), "", nil)
		leaves := make([]*Term, len(ls))
		for k, l := range ls {
			leaves[k] = BoundVar("lv."+lv.Name()+l.path, l.sort)
		}
		p := 0
		env.objs[lv] = unflatten(lv.Type(), leaves, &p)
		env.logicalBound = append(env.logicalBound, leaves...)
	}
	// captures of the callee are not observable from outside: arbitrary values
	for name, v := range sc.extra {
		env.objs[v] = freshVal(v.Type(), "cap."+name, nil)
	}
	o := fn
	if fn.Origin() != nil {
		o = fn.Origin()
	}
	res := o.Signature.Results()
	for i := range sc.rets {
		if i < len(rets) {
			env.objs[sc.rets[i]] = rets[i]
			if res.At(i).Name() != "" && res.At(i).Name() != "_" {
				env.objs[res.At(i)] = rets[i]
			}
		}
	}
	return env
}

func (ex *Exec) checkRequires(fr *Frame, st *State, site ssa.Instruction, fn *ssa.Function, con *Contract, args []Val) {
	if len(con.Requires) == 0 {
		return
	}
	env := ex.calleeEnv(fn, con, args, st, st, nil)
	for _, cl := range con.Requires {
		g := env.evalBool(cl.Text)
		lbl := designator(fn)
		if cl.Label != "" {
			lbl += "." + cl.Label
		}
		ex.oblige(fr, st, "requires@call", lbl, g, site.Pos(), cl.Text)
	}
}

// modularCall: requires proved, frame havoced, ensures assumed. The body is not looked at.
func (ex *Exec) modularCall(fr *Frame, st *State, site ssa.Instruction, fn *ssa.Function, con *Contract, args []Val) []Val {
	con.Used = true
	if con.Trusted {
		ex.assumed[fmt.Sprintf("trusted contract of %s", funcLabel(fn))] = true
	}
	ex.checkRequires(fr, st, site, fn, con, args)
	pre := st.clone()
	if !con.HasMod {
		// no frame stated (and therefore none checked): the callee may have changed anything
		ex.preservingPrivate(st, st.heap.havocAll)
	} else {
		ex.applyModifies(st, pre, con.Modifies, func() *SpecEnv { return ex.calleeEnv(fn, con, args, pre, pre, nil) })
	}
	// function-valued parameters the callee may invoke: their frames are part of the effect
	for _, pn := range con.Calls {
		found := false
		for i, p := range fn.Params {
			if p.Name() == pn && i < len(args) {
				found = true
				ex.callbackEffect(fr, st, site, args[i])
			}
		}
		if !found {
			// not a parameter: an expression over the callee's parameters (a function-valued
			// field, say), evaluated in the state in front of the call
			v := ex.calleeEnv(fn, con, args, pre, pre, nil).evalAny(pn)
			ex.callsAt = pre
			ex.callbackEffect(fr, st, site, v)
			ex.callsAt = nil
		}
	}
	rets := ex.freshResults(st, fn.Signature, "r."+fn.Name()+".")
	env := ex.calleeEnv(fn, con, args, pre, st, rets)
	for _, cl := range con.Ensures {
		depth := ex.spec
		f, ok := env.tryEvalBool(cl.Text)
		if !ok {
			ex.spec = depth
			continue
		}
		if f.hasBound && len(env.logicalBound) > 0 {
			f = Forall(env.logicalBound, Implies(st.reach, f))
			ex.fact(nil, f)
			continue
		}
		ex.fact(st, f)
	}
	return rets
}

// scannerScan models (*text/scanner.Scanner).Scan on the ghost counter scanRemaining(s): the unread
// input never grows, a token other than EOF consumes at least one rune, and EOF is returned when
// nothing is left. Scan reports lexical errors through the Error field: when that holds a closure
// under contract, the closure's frame becomes arbitrary (it may have run).
func (ex *Exec) scannerScan(fr *Frame, st *State, site ssa.Instruction, fn *ssa.Function, args []Val) []Val {
	ex.assumed["model (*text/scanner.Scanner).Scan: returns EOF when the ghost counter scanRemaining(s) is 0; any other token consumes at least one rune; errors are reported through s.Error (its frame is havoced); the program heap is otherwise untouched"] = true
	s := tm(args[0])
	// s.Error
	if st0, ok := fn.Signature.Recv().Type().(*types.Pointer).Elem().Underlying().(*types.Struct); ok {
		for i := 0; i < st0.NumFields(); i++ {
			if st0.Field(i).Name() == "Error" {
				cb := st.heap.load(Fld(s, fieldID(st0, i)), st0.Field(i).Type(), nil)
				if t, isT := cb.(*Term); isT && t.Op == "fnp" {
					if id, lit := t.Args[0].IsInt(); lit && closureByID[int(id)] != nil {
						ex.callbackEffect(fr, st, site, closureByID[int(id)])
					}
				}
			}
		}
	}
	arr := st.heap.array("G@scanRemaining", arrSort(SPtr, SInt))
	rem := Select(arr, s)
	r := Fresh("scan.tok", SInt)
	rem2 := Fresh("scan.rem", SInt)
	ex.fact(nil, And(Ge(rem, IntT(0)), Ge(rem2, IntT(0)), Le(rem2, rem)))
	ex.fact(nil, Implies(Not(Eq(r, IntT(-1))), Lt(rem2, rem)))
	ex.fact(nil, Implies(Eq(rem, IntT(0)), Eq(r, IntT(-1))))
	st.heap.set("G@scanRemaining", Store(arr, s, rem2))
	return []Val{r}
}

// heapGeneric models container/heap.Push / Pop on an implementation that is not a plain slice
// (e.g. a struct holding the slice): Push calls h.Push(x) and then sifts (any number of Swap
// calls: the frame of the implementation's Swap becomes arbitrary); Pop sifts and then calls h.Pop().
// Which element ends up where is not modelled.
func (ex *Exec) heapGeneric(fr *Frame, st *State, site ssa.Instruction, fn *ssa.Function, full string, args []Val) ([]Val, bool) {
	h, ok := args[0].(*Agg)
	if !ok {
		return nil, false
	}
	id, lit := tm(h.F[0]).IsInt()
	if !lit || id == 0 {
		return nil, false
	}
	dt := ex.typeOf[int(id)]
	if pt, isPtr := dt.Underlying().(*types.Pointer); isPtr {
		if _, isSlice := pt.Elem().Underlying().(*types.Slice); isSlice {
			return nil, false // the slice-backed model is more precise
		}
	}
	it, _ := fn.Signature.Params().At(0).Type().Underlying().(*types.Interface)
	if it == nil {
		return nil, false
	}
	method := func(name string) *types.Func {
		for i := 0; i < it.NumMethods(); i++ {
			if it.Method(i).Name() == name {
				return it.Method(i)
			}
		}
		return nil
	}
	sift := func() {
		sw := method("Swap")
		sel := ex.prog.SSA.MethodSets.MethodSet(dt).Lookup(sw.Pkg(), "Swap")
		var impl *ssa.Function
		if sel != nil {
			impl = ex.prog.SSA.MethodValue(sel)
		}
		var con *Contract
		if impl != nil {
			con = ex.contractFor(impl)
		}
		if con == nil || !con.HasMod {
			ex.note("%s: %s: Swap of the heap implementation has no frame: heap havoced", fr.label, full)
			ex.preservingPrivate(st, st.heap.havocAll)
			return
		}
		var fs []*Term
		cargs := []Val{h.F[1], freshVal(types.Typ[types.Int], "heap.i", &fs), freshVal(types.Typ[types.Int], "heap.j", &fs)}
		pre := st.clone()
		ex.applyModifies(st, pre, con.Modifies, func() *SpecEnv { return ex.calleeEnv(impl, con, cargs, pre, pre, nil) })
	}
	ex.assumed["model "+full+" (generic heap.Interface implementation): calls the implementation's Push/Pop and Swap; which element is at the top is not modelled"] = true
	if full == "container/heap.Push" {
		ex.invoke(fr, st, site, fn.Signature.Params().At(0).Type(), method("Push"), h, args[1:])
		sift()
		return nil, true
	}
	sift()
	r := ex.invoke(fr, st, site, fn.Signature.Params().At(0).Type(), method("Pop"), h, nil)
	return r, true
}

// callbackEffect accounts for any number of invocations (including none) of a function value by a
// callee: the locations its contract lists as modified become arbitrary. Preconditions of the
// callback that do not mention its parameters are proved here; its postconditions are not assumed
// (it may not run at all).
func (ex *Exec) callbackEffect(fr *Frame, st *State, site ssa.Instruction, f Val) {
	fv, ok := f.(*FuncVal)
	if !ok {
		if t, isT := f.(*Term); isT && t.Op == "fnp" {
			if id, lit := t.Args[0].IsInt(); lit && closureByID[int(id)] != nil {
				fv, ok = closureByID[int(id)], true
			}
		}
	}
	if !ok {
		if t, isT := f.(*Term); isT {
			if same := ex.ownCallsValue(fr, st, t); same != nil {
				// The callback is (provably or not) one this function itself declares with `calls`:
				// its effect is accounted for at the call sites of this function, and inside it is
				// assumed disjoint from what the contract talks about. Otherwise: anything.
				ex.assumed[fmt.Sprintf("%s: a callback this function declares with `calls` is invoked by its callees too; its footprint is disjoint from the locations the contracts on the way mention (its effect is applied where the outermost function is called)", fr.topFrame().label)] = true
				if same.Op == "true" {
					return
				}
				ex.note("%s: callback equal to a declared `calls` value only under a condition: heap havoced conditionally", fr.label)
				hv := st.clone()
				ex.preservingPrivate(hv, hv.heap.havocAll)
				keep := st.clone()
				keep.reach = And(st.reach, same)
				hv.reach = And(st.reach, Not(same))
				m := ex.mergeStates([]*State{keep, hv})
				m.reach = st.reach
				*st = *m
				return
			}
		}
		ex.note("%s: callback is an unknown function value: heap havoced", fr.label)
		ex.preservingPrivate(st, st.heap.havocAll)
		return
	}
	con := ex.contractFor(fv.Fn)
	if con == nil || !con.HasMod {
		ex.note("%s: callback %s has no frame: heap havoced", fr.label, funcLabel(fv.Fn))
		ex.preservingPrivate(st, st.heap.havocAll)
		return
	}
	con.Used = true
	sf, sb := ex.cfn, ex.cbind
	ex.cfn, ex.cbind = fv.Fn, fv.Bindings
	defer func() { ex.cfn, ex.cbind = sf, sb }()
	var args []Val
	for _, p := range fv.Fn.Params {
		var fs []*Term
		args = append(args, freshVal(p.Type(), "cb."+p.Name(), &fs))
		ex.addFacts(nil, fs)
	}
	// requires that talk about captured state only
	if len(con.Requires) > 0 {
		env := ex.calleeEnv(fv.Fn, con, args, st, st, nil)
		for _, cl := range con.Requires {
			mentions := false
			for _, p := range fv.Fn.Params {
				if regexp.MustCompile(`\b` + regexp.QuoteMeta(p.Name()) + `\b`).MatchString(cl.Text) {
					mentions = true
				}
			}
			if mentions {
				ex.assumed["callbacks are invoked by library code only with arguments satisfying their preconditions"] = true
				continue
			}
			ex.oblige(fr, st, "requires@callback", designator(fv.Fn), env.evalBool(cl.Text), site.Pos(), cl.Text)
		}
	}
	pre := st.clone()
	ex.applyModifies(st, pre, con.Modifies, func() *SpecEnv { return ex.calleeEnv(fv.Fn, con, args, pre, pre, nil) })
	for _, pn := range con.Calls {
		isParam := false
		for _, p := range fv.Fn.Params {
			if p.Name() == pn {
				isParam = true
			}
		}
		if isParam {
			ex.preservingPrivate(st, st.heap.havocAll)
			continue
		}
		v := ex.calleeEnv(fv.Fn, con, args, pre, pre, nil).evalAny(pn)
		saved := ex.callsAt
		ex.callsAt = pre
		ex.callbackEffect(fr, st, site, v)
		ex.callsAt = saved
	}
}

// ownCallsValue: the condition under which t is the value of one of the `calls` designators of the
// function being verified (nil if it declares none). Designators that are parameters are compared
// with their entry values, expressions are evaluated in the current state.
func (ex *Exec) ownCallsValue(fr *Frame, st *State, t *Term) *Term {
	top := fr.topFrame()
	if top.con == nil || len(top.con.Calls) == 0 || ex.spec > 0 {
		return nil
	}
	var alts []*Term
	for _, pn := range top.con.Calls {
		var v Val
		func() {
			defer func() {
				if r := recover(); r != nil {
					if _, ok := r.(unsupported); !ok {
						panic(r)
					}
				}
			}()
			at := st
			if ex.callsAt != nil {
				// compare in the state the callee's designator was evaluated in (in front of the
				// call), not after the callee's frame has been applied
				at = ex.callsAt
			}
			v = ex.funcEnv(top, at).evalAny(pn)
		}()
		switch x := v.(type) {
		case *Term:
			if x == t {
				return True()
			}
			alts = append(alts, Eq(x, t))
		case *FuncVal:
			alts = append(alts, Eq(funcValPtr(x), t))
		}
	}
	if len(alts) == 0 {
		return nil
	}
	return Or(alts...)
}

// applyModifies havocs the locations named by modifies clauses (evaluated in the pre-state).
func (ex *Exec) applyModifies(st, pre *State, mods []*Clause, mkEnv func() *SpecEnv) {
	if len(mods) == 0 {
		return
	}
	env := mkEnv()
	for _, m := range mods {
		ex.havocLvalue(st, env, m.Text)
	}
}

// havocLvalue havocs one frame item: "*" (everything), "x.f", "*p", "m[*]", "s[*]", ghost "g()", "g(x)".
func (ex *Exec) havocLvalue(st *State, env *SpecEnv, text string) {
	text = strings.TrimSpace(text)
	if text == "*" {
		// the whole program heap; ghost state only changes where a ghost item says so
		ex.preservingPrivate(st, st.heap.havocReal)
		return
	}
	if text == "everything" {
		ex.preservingPrivate(st, st.heap.havocAll)
		return
	}
	if strings.HasSuffix(text, "[*]") {
		base := strings.TrimSuffix(text, "[*]")
		pc := ex.parseClause(env.pkg, env.pos, base)
		if pc.err != nil {
			unsupp("modifies %s: %v", text, pc.err)
		}
		env.info = pc.info
		ex.spec++
		v := env.eval(pc.expr)
		ex.spec--
		t := env.resolve(pc.info.Types[pc.expr].Type)
		switch u := t.Underlying().(type) {
		case *types.Map:
			ex.havocMap(st, v.(*Term), u)
		case *types.Slice:
			ex.havocElems(st, v.(*Agg).F[0].(*Term), u.Elem())
		default:
			unsupp("modifies %s: not a map or slice", text)
		}
		return
	}
	if strings.HasSuffix(text, ".*") {
		base := strings.TrimSuffix(text, ".*")
		pc := ex.parseClause(env.pkg, env.pos, base)
		if pc.err != nil {
			unsupp("modifies %s: %v", text, pc.err)
		}
		env.info = pc.info
		root := ex.objectRoot(env, pc)
		if root == nil {
			unsupp("modifies %s: not a pointer, interface or addressable variable", text)
		}
		ex.havocUnder(st, root)
		return
	}
	if strings.HasSuffix(text, ")") {
		// ghost state
		name := text[:strings.Index(text, "(")]
		if g := ex.ghostByName(env.pkg.PkgPath, name); g != nil {
			argText := strings.TrimSpace(text[strings.Index(text, "(")+1 : len(text)-1])
			var key *Term
			if argText != "" && argText != "*" {
				pc := ex.parseClause(env.pkg, env.pos, argText)
				if pc.err != nil {
					unsupp("modifies %s: %v", text, pc.err)
				}
				env.info = pc.info
				ex.spec++
				fl := flatten(env.eval(pc.expr), nil)
				ex.spec--
				key = fl[len(fl)-1]
			}
			ex.ghostHavoc(st, g, key)
			return
		}
	}
	// lvalue expression: evaluate its address
	pc := ex.parseClause(env.pkg, env.pos, text)
	if pc.err != nil {
		unsupp("modifies %s: %v", text, pc.err)
	}
	env.info = pc.info
	ex.spec++
	addr := env.addrOf(pc.expr)
	ex.spec--
	t := env.resolve(pc.info.Types[pc.expr].Type)
	var fs []*Term
	nv := freshVal(t, "mod", &fs)
	ex.addFacts(nil, fs)
	// whatever the callee / earlier iterations stored there exists now
	ex.assumeOlder(nv)
	ex.assumeSealed(nv, t)
	st.heap.store(addr, t, nv)
}

// addrOf evaluates the heap address of an lvalue expression.
func (e *SpecEnv) addrOf(x ast.Expr) *Term {
	switch n := x.(type) {
	case *ast.ParenExpr:
		return e.addrOf(n.X)
	case *ast.StarExpr:
		return e.eval(n.X).(*Term)
	case *ast.SelectorExpr:
		sel, ok := e.info.Selections[n]
		if !ok || sel.Kind() != types.FieldVal {
			break
		}
		t := e.typeOf(n.X)
		var p *Term
		if _, isPtr := t.Underlying().(*types.Pointer); isPtr {
			p = e.eval(n.X).(*Term)
			t = t.Underlying().(*types.Pointer).Elem()
		} else {
			p = e.addrOf(n.X)
		}
		idx := sel.Index()
		for k, i := range idx {
			if k > 0 {
				if pt, ok := t.Underlying().(*types.Pointer); ok {
					p = e.state().heap.loadLeaf(p, SPtr)
					t = pt.Elem()
				}
			}
			p = Fld(p, fieldID(t.Underlying().(*types.Struct), i))
			t = t.Underlying().(*types.Struct).Field(i).Type()
		}
		return p
	case *ast.IndexExpr:
		t := e.typeOf(n.X)
		if sl, ok := t.Underlying().(*types.Slice); ok {
			_ = sl
			s := e.eval(n.X).(*Agg)
			return Elt(s.F[0].(*Term), Add(s.F[1].(*Term), e.eval(n.Index).(*Term)))
		}
	case *ast.Ident:
		obj := e.info.Uses[n]
		if v, ok := obj.(*types.Var); ok && v.Parent() == v.Pkg().Scope() {
			if g := e.ex.findGlobal(v); g != nil {
				return e.ex.globalPtr(g)
			}
		}
		if e.frame != nil {
			if a, ok := e.frame.allocByPos[obj.Pos()]; ok && a.Heap {
				if p, ok := e.frame.regs[a].(*Term); ok {
					return p
				}
			}
			// variable captured by the closure under verification
			for k, fv := range e.frame.fn.FreeVars {
				if fv.Name() == obj.Name() && fv.Pos() == obj.Pos() && k < len(e.frame.bindings) {
					if p, ok := e.frame.bindings[k].(*Term); ok {
						return p
					}
				}
			}
		}
		if e.cfn != nil {
			for k, fv := range e.cfn.FreeVars {
				if fv.Name() == obj.Name() && fv.Pos() == obj.Pos() && k < len(e.cbind) {
					if p, ok := e.cbind[k].(*Term); ok {
						return p
					}
				}
			}
		}
	}
	e.fail("expression is not an addressable heap location")
	return nil
}

func (ex *Exec) havocMap(st *State, m *Term, mt *types.Map) {
	ks := mapKeySort(mt)
	dn, ds := mdomName(ks)
	// a nil map has no contents to modify
	isNil := Eq(m, Null())
	dom := st.heap.array(dn, ds)
	st.heap.set(dn, Ite(isNil, dom, Store(dom, m, Fresh("mdom", arrSort(ks, SBool)))))
	for _, l := range typeLeaves(mt.Elem(), "", nil) {
		n, s := mvalName(ks, l.path, l.sort)
		a := st.heap.array(n, s)
		st.heap.set(n, Ite(isNil, a, Store(a, m, Fresh("mval", arrSort(ks, l.sort)))))
	}
	la := st.heap.array(mlenName, mlenSort)
	nl := Fresh("mlen", SInt)
	ex.fact(nil, Ge(nl, IntT(0)))
	st.heap.set(mlenName, Ite(isNil, la, Store(la, m, nl)))
}

// havocElems havocs every element cell of the backing array arr (frame axiom is quantified).
func (ex *Exec) havocElems(st *State, arr *Term, et types.Type) {
	p := BoundVar("fp", SPtr)
	seen := map[string]bool{}
	for _, l := range typeLeaves(et, "", nil) {
		if seen[l.sort] {
			continue
		}
		seen[l.sort] = true
		n, s := heapName(l.sort)
		old := st.heap.array(n, s)
		nw := Fresh(n+"@el", s)
		// cells that are not a leaf (of this sort) of an element of arr keep their value
		ex.fact(nil, Forall([]*Term{p}, Or(elemLeafOf(p, arr, et, l.sort, nil, nil), SameVal(Select(nw, p), Select(old, p)))))
		st.heap.set(n, nw)
	}
}

// elemLeafOf: p is the address of a leaf of sort `sort` of element arr[i] (lo <= i < hi when given).
// A nil slice has no elements: nothing is at an element of the null array.
func elemLeafOf(p, arr *Term, et types.Type, sort string, lo, hi *Term) *Term {
	return And(Not(Eq(arr, Null())), elemLeafOf1(p, arr, et, sort, lo, hi))
}

func elemLeafOf1(p, arr *Term, et types.Type, sort string, lo, hi *Term) *Term {
	paths, ok := leafFieldPaths(et, nil, nil)
	nsort := 0
	for _, fp := range paths {
		if fp.sort == sort {
			nsort++
		}
	}
	if !ok || nsort > 3 {
		// many leaves: the exact path patterns make a large disjunction the solvers choke on; the
		// two-level typed region below is a superset of it (havocs no less) and still keeps cells
		// of unrelated struct types out
		if lo != nil {
			return underElem(p, arr, et, lo, hi)
		}
		return underElem(p, arr, et, nil, nil)
	}
	var alts []*Term
	for _, fp := range paths {
		if fp.sort != sort {
			continue
		}
		q := p
		var cs []*Term
		for k := len(fp.idx) - 1; k >= 0; k-- {
			if fp.idx[k] == -1 {
				// element of an array field (any index)
				cs = append(cs, P.mk("(_ is elt)", "", SBool, []*Term{q}, nil))
				q = P.mk("ebase", "", SPtr, []*Term{q}, nil)
				continue
			}
			cs = append(cs, P.mk("(_ is fld)", "", SBool, []*Term{q}, nil), Eq(P.mk("fidx", "", SInt, []*Term{q}, nil), IntT(int64(fp.idx[k]))))
			q = P.mk("fbase", "", SPtr, []*Term{q}, nil)
		}
		cs = append(cs, P.mk("(_ is elt)", "", SBool, []*Term{q}, nil), Eq(P.mk("ebase", "", SPtr, []*Term{q}, nil), arr))
		if lo != nil {
			idx := P.mk("eidx", "", SInt, []*Term{q}, nil)
			cs = append(cs, Le(lo, idx), Lt(idx, hi))
		}
		alts = append(alts, And(cs...))
	}
	return Or(alts...)
}

// rootedAtElem: p is elt(arr,_) or a field path below it (depth <= 3).
// underElem: p is elt(arr, i) (lo <= i < hi when a range is given) or a cell below it: a field
// path of depth <= 3, or a byte of an array field. The step right below the element must be a
// field of the element type et (field identities are per struct type; slice headers and
// interfaces use the small fixed indices), so a cell of an unrelated struct is never "inside" the
// array even if the solver picks the struct's address among the array's elements.
func underElem(p, arr *Term, et types.Type, lo, hi *Term) *Term {
	var ids []int
	switch kindOf(et) {
	case kStruct:
		st := et.Underlying().(*types.Struct)
		for i := 0; i < st.NumFields(); i++ {
			ids = append(ids, fieldID(st, i))
		}
	case kSlice:
		ids = []int{1, 2, 3, 4}
	case kIface:
		ids = []int{5, 6}
	}
	// second step: fields of the struct-typed fields of et (slice headers / interfaces: fixed indices)
	ids2 := map[int]bool{}
	anyArrayField := false
	if st, isSt := et.Underlying().(*types.Struct); isSt && kindOf(et) == kStruct {
		for i := 0; i < st.NumFields(); i++ {
			ft := st.Field(i).Type()
			switch kindOf(ft) {
			case kStruct:
				st2 := ft.Underlying().(*types.Struct)
				for k := 0; k < st2.NumFields(); k++ {
					ids2[fieldID(st2, k)] = true
				}
			case kSlice:
				for _, k := range []int{1, 2, 3, 4} {
					ids2[k] = true
				}
			case kIface:
				ids2[5], ids2[6] = true, true
			case kArray:
				anyArrayField = true
			}
		}
	}
	isFld := func(q *Term) *Term { return P.mk("(_ is fld)", "", SBool, []*Term{q}, nil) }
	isAnyElt := func(q *Term) *Term { return P.mk("(_ is elt)", "", SBool, []*Term{q}, nil) }
	fb := func(q *Term) *Term { return P.mk("fbase", "", SPtr, []*Term{q}, nil) }
	eb := func(q *Term) *Term { return P.mk("ebase", "", SPtr, []*Term{q}, nil) }
	fidx2In := func(q *Term) *Term {
		var ks []int
		for k := range ids2 {
			ks = append(ks, k)
		}
		sort.Ints(ks)
		var alts []*Term
		for _, k := range ks {
			alts = append(alts, Eq(P.mk("fidx", "", SInt, []*Term{q}, nil), IntT(int64(k))))
		}
		return Or(alts...)
	}
	_ = anyArrayField
	base := func(q *Term) *Term {
		cs := []*Term{isAnyElt(q), Eq(eb(q), arr)}
		if lo != nil {
			idx := P.mk("eidx", "", SInt, []*Term{q}, nil)
			cs = append(cs, Le(lo, idx), Lt(idx, hi))
		}
		return And(cs...)
	}
	fidxIn := func(q *Term) *Term {
		if kindOf(et) == kArray {
			return True() // arrays of arrays: no typed first step
		}
		var alts []*Term
		for _, id := range ids {
			alts = append(alts, Eq(P.mk("fidx", "", SInt, []*Term{q}, nil), IntT(int64(id))))
		}
		return Or(alts...)
	}
	d0 := base(p)
	d1 := And(isFld(p), base(fb(p)), fidxIn(p))
	d2 := And(isFld(p), isFld(fb(p)), base(fb(fb(p))), fidxIn(fb(p)), fidx2In(p))
	d3 := And(isFld(p), isFld(fb(p)), isFld(fb(fb(p))), base(fb(fb(fb(p)))), fidxIn(fb(fb(p))), fidx2In(fb(p)))
	a2 := And(isAnyElt(p), isFld(eb(p)), base(fb(eb(p))), fidxIn(eb(p)))
	a3 := And(isAnyElt(p), isFld(eb(p)), isFld(fb(eb(p))), base(fb(fb(eb(p)))), fidxIn(fb(eb(p))), fidx2In(eb(p)))
	return Or(d0, d1, d2, d3, a2, a3)
}

// ---- pure functions

// pureApply applies the uninterpreted function standing for a pure function and assumes the
// function's own postconditions for this application.
func (ex *Exec) pureApply(fn *ssa.Function, con *Contract, args []Val, st *State, inSpec bool) []Val {
	con.Used = true
	var flat []*Term
	for _, a := range args {
		flat = flatten(a, flat)
	}
	if con.PureHeap {
		flat = append(flat, st.heap.ver)
	}
	sig := fn.Signature
	name := "pure@" + funcLabel(fn)
	var rets []Val
	for i := 0; i < sig.Results().Len(); i++ {
		rt := sig.Results().At(i).Type()
		ls := typeLeaves(rt, "", nil)
		leaves := make([]*Term, len(ls))
		for k, l := range ls {
			leaves[k] = UF(fmt.Sprintf("%s.%d%s", name, i, l.path), l.sort, flat...)
		}
		p := 0
		rets = append(rets, unflatten(rt, leaves, &p))
	}
	hasBound := false
	for _, t := range flat {
		if t.hasBound {
			hasBound = true
		}
	}
	if !hasBound {
		for _, r := range rets {
			for _, l := range flatten(r, nil) {
				if l.Sort == SStr {
					ex.fact(nil, Ge(SLen(l), IntT(0)))
				}
			}
		}
	}
	if hasBound {
		ex.pureAxiom(fn, con, name)
		return rets
	}
	key := fmt.Sprintf("%s|%v", name, termIDs(flat))
	if !ex.pureSeen[key] && ex.pureDepth < 2 {
		ex.pureSeen[key] = true
		ex.pureDepth++
		env := ex.calleeEnv(fn, con, args, st, st, rets)
		for _, cl := range con.Ensures {
			f := env.evalBool(cl.Text)
			if f.hasBound {
				continue
			}
			ex.fact(nil, f)
		}
		ex.pureDepth--
	}
	return rets
}

// pureAxiom asserts, once per VC, the postconditions of a pure (heap-independent) function for all
// arguments: used when the function is applied to quantified variables.
func (ex *Exec) pureAxiom(fn *ssa.Function, con *Contract, name string) {
	if con.PureHeap || ex.pureSeen["axiom|"+name] || ex.pureDepth >= 2 {
		return
	}
	ex.pureSeen["axiom|"+name] = true
	ex.pureDepth++
	defer func() { ex.pureDepth-- }()
	var bvs []*Term
	var args []Val
	var pre []*Term
	for i, p := range fn.Params {
		ls := typeLeaves(p.Type(), "", nil)
		leaves := make([]*Term, len(ls))
		for k, l := range ls {
			leaves[k] = BoundVar(fmt.Sprintf("ax.%s%s", paramName(p, i), l.path), l.sort)
			bvs = append(bvs, leaves[k])
		}
		pos := 0
		v := unflatten(p.Type(), leaves, &pos)
		args = append(args, v)
		if isUnsigned(p.Type()) {
			pre = append(pre, Ge(leaves[0], IntT(0)))
		}
	}
	sig := fn.Signature
	var rets []Val
	for i := 0; i < sig.Results().Len(); i++ {
		rt := sig.Results().At(i).Type()
		ls := typeLeaves(rt, "", nil)
		leaves := make([]*Term, len(ls))
		for k, l := range ls {
			leaves[k] = UF(fmt.Sprintf("%s.%d%s", name, i, l.path), l.sort, bvs...)
		}
		p := 0
		rets = append(rets, unflatten(rt, leaves, &p))
	}
	st := &State{reach: True(), cells: map[*ssa.Alloc]Val{}, heap: newHeap("")}
	env := ex.calleeEnv(fn, con, args, st, st, rets)
	var fs []*Term
	for _, cl := range con.Ensures {
		fs = append(fs, env.evalBool(cl.Text))
	}
	ex.fact(nil, Forall(bvs, Implies(And(pre...), And(fs...))))
}

type pendingFact struct{ f *Term }

func termIDs(ts []*Term) []int {
	out := make([]int, len(ts))
	for i, t := range ts {
		out[i] = t.id
	}
	return out
}

func containsAnyBound(f *Term, among []*Term) bool {
	for _, t := range among {
		if t.hasBound {
			return true
		}
	}
	return false
}

// ---- interface method calls

func (ex *Exec) invoke(fr *Frame, st *State, site ssa.Instruction, it types.Type, m *types.Func, recv *Agg, args []Val) []Val {
	tag := recv.F[0].(*Term)
	if n, ok := tag.IsInt(); ok && n != 0 {
		// dynamic type known: resolve
		dt := ex.typeOf[int(n)]
		sel := ex.prog.SSA.MethodSets.MethodSet(dt).Lookup(m.Pkg(), m.Name())
		if sel != nil {
			fn := ex.prog.SSA.MethodValue(sel)
			if fn != nil {
				var rv Val
				if pointerShaped(dt) {
					rv = recv.F[1]
				} else {
					rv = st.heap.load(recv.F[1].(*Term), dt, nil)
				}
				// method may be declared on T while dt is *T (or promoted): let the wrapper sort it out
				if len(fn.Params) > 0 {
					if _, wantPtr := fn.Params[0].Type().Underlying().(*types.Pointer); !wantPtr && pointerShaped(dt) {
						if pt, ok := dt.Underlying().(*types.Pointer); ok {
							rv = st.heap.load(recv.F[1].(*Term), pt.Elem(), nil)
						}
					}
				}
				return ex.dispatch(fr, st, site, fn, append([]Val{rv}, args...), nil)
			}
		}
	}
	// abstract contract of the interface method
	if named := namedIface(it); named != nil {
		key := named.Obj().Pkg().Path() + ":iface:" + named.Obj().Name() + "." + m.Name()
		if con := ex.cs.ByKey[key]; con != nil {
			return ex.ifaceCall(fr, st, site, named, m, con, recv, args)
		}
		// modelled interface methods of dependencies (error.Error, io.Closer ...)
		full := "(" + named.Obj().Pkg().Path() + "." + named.Obj().Name() + ")." + m.Name()
		if r, ok := ex.modelCall(full, append([]Val{recv}, args...), st, m.Type().(*types.Signature)); ok {
			return r
		}
	} else if m.Name() == "Error" {
		return []Val{UF("error.Error", SStr, recv.F[0].(*Term), recv.F[1].(*Term))}
	}
	if ex.spec == 0 {
		ex.note("%s: interface call %s.%s without abstract contract havoced", fr.label, types.TypeString(it, nil), m.Name())
	}
	return ex.havocCall(st, m.Type().(*types.Signature))
}

func namedIface(t types.Type) *types.Named {
	if n, ok := t.(*types.Named); ok {
		if n.Obj().Pkg() == nil {
			return nil // error
		}
		return n
	}
	if a, ok := t.(*types.Alias); ok {
		return namedIface(types.Unalias(a))
	}
	return nil
}

func (ex *Exec) ifaceEnv(named *types.Named, m *types.Func, recv *Agg, args []Val, pre, post *State, rets []Val) *SpecEnv {
	sc, params, self := ex.ifaceScope(named, m)
	pk := ex.prog.Pkgs[named.Obj().Pkg().Path()]
	env := &SpecEnv{ex: ex, pkg: pk, pos: sc.pos, st: post, old: pre, objs: map[types.Object]Val{}, entry: map[types.Object]Val{},
		label: named.Obj().Name() + "." + m.Name()}
	if o := named.Origin(); o.TypeParams().Len() > 0 && named.TypeArgs().Len() == o.TypeParams().Len() {
		env.tparams = map[*types.TypeParam]types.Type{}
		for i := 0; i < o.TypeParams().Len(); i++ {
			env.tparams[o.TypeParams().At(i)] = named.TypeArgs().At(i)
		}
	}
	env.objs[self] = recv
	env.entry[self] = recv
	for i, p := range params {
		if i < len(args) {
			env.objs[p] = args[i]
			env.entry[p] = args[i]
		}
	}
	for i, r := range sc.rets {
		if i < len(rets) {
			env.objs[r] = rets[i]
		}
	}
	return env
}

func (ex *Exec) ifaceCall(fr *Frame, st *State, site ssa.Instruction, named *types.Named, m *types.Func, con *Contract, recv *Agg, args []Val) []Val {
	con.Used = true
	sig := m.Type().(*types.Signature)
	if len(con.Requires) > 0 {
		env := ex.ifaceEnv(named, m, recv, args, st, st, nil)
		for _, cl := range con.Requires {
			lbl := named.Obj().Name() + "." + m.Name()
			if cl.Label != "" {
				lbl += "." + cl.Label
			}
			ex.oblige(fr, st, "requires@call", lbl, env.evalBool(cl.Text), site.Pos(), cl.Text)
		}
	}
	pre := st.clone()
	if con.Pure {
		return ex.abstractInvoke(st, named, m, append([]Val{recv}, args...))
	}
	if !con.HasMod {
		ex.preservingPrivate(st, st.heap.havocAll)
	} else {
		ex.applyModifies(st, pre, con.Modifies, func() *SpecEnv { return ex.ifaceEnv(named, m, recv, args, pre, pre, nil) })
	}
	rets := ex.freshResults(st, sig, "r."+m.Name()+".")
	env := ex.ifaceEnv(named, m, recv, args, pre, st, rets)
	for _, cl := range con.Ensures {
		ex.fact(st, env.evalBool(cl.Text))
	}
	return rets
}

// abstractInvoke models a pure interface method as an uninterpreted function of receiver and arguments.
func (ex *Exec) abstractInvoke(st *State, it types.Type, m *types.Func, vals []Val) []Val {
	if recv, ok := vals[0].(*Agg); ok && len(recv.F) == 2 {
		if r, ok := ex.dispatchByTag(st, it, m, recv, vals[1:]); ok {
			return r
		}
	}
	return ex.abstractInvokeUF(st, it, m, vals)
}

// tagLeaves collects the literal leaves of an ite-tree tag; ok=false when a leaf is symbolic.
func tagLeaves(t *Term, out map[int64]bool) bool {
	if n, ok := t.IsInt(); ok {
		out[n] = true
		return true
	}
	if t.Op == "ite" {
		return tagLeaves(t.Args[1], out) && tagLeaves(t.Args[2], out)
	}
	return false
}

// dispatchByTag resolves a pure interface method call whose receiver's dynamic type ranges over a
// known finite set (literal tag or ite-tree of literal tags) to the implementations' contracts.
func (ex *Exec) dispatchByTag(st *State, it types.Type, m *types.Func, recv *Agg, args []Val) ([]Val, bool) {
	tag := recv.F[0].(*Term)
	ids := map[int64]bool{}
	if !tagLeaves(tag, ids) || len(ids) == 0 || len(ids) > 12 {
		return nil, false
	}
	var result []Val
	first := true
	for id := range ids {
		if id == 0 {
			continue
		}
		dt := ex.typeOf[int(id)]
		sel := ex.prog.SSA.MethodSets.MethodSet(dt).Lookup(m.Pkg(), m.Name())
		if sel == nil {
			return nil, false
		}
		fn := ex.prog.SSA.MethodValue(sel)
		if fn == nil {
			return nil, false
		}
		var rv Val
		if pointerShaped(dt) {
			rv = recv.F[1]
			if len(fn.Params) > 0 {
				if _, wantPtr := fn.Params[0].Type().Underlying().(*types.Pointer); !wantPtr {
					if pt, ok := dt.Underlying().(*types.Pointer); ok {
						rv = st.heap.load(recv.F[1].(*Term), pt.Elem(), nil)
					}
				}
			}
		} else {
			rv = st.heap.load(recv.F[1].(*Term), dt, nil)
		}
		full := append([]Val{rv}, args...)
		var r []Val
		con := ex.contractFor(fn)
		switch {
		case con != nil && (con.Pure || con.PureHeap):
			r = ex.pureApply(fn, con, full, st, true)
		case (con != nil && con.Inline) || (fn.Synthetic != "" && len(fn.Blocks) > 0):
			ex.spec++
			r = ex.inlineCall(nil, st.clone(), fn, full, nil)
			ex.spec--
		default:
			return nil, false
		}
		if first {
			result = r
			first = false
		} else {
			for k := range result {
				result[k] = iteVal(Eq(tag, IntT(id)), r[k], result[k])
			}
		}
	}
	if first {
		return nil, false
	}
	return result, true
}

func (ex *Exec) abstractInvokeUF(st *State, it types.Type, m *types.Func, vals []Val) []Val {
	var flat []*Term
	for _, a := range vals {
		flat = flatten(a, flat)
	}
	sig := m.Type().(*types.Signature)
	name := "imeth@" + types.TypeString(it, func(p *types.Package) string { return p.Name() }) + "." + m.Name()
	if n := namedIface(it); n != nil {
		name = "imeth@" + n.Obj().Pkg().Name() + "." + n.Obj().Name() + "." + m.Name()
	}
	var rets []Val
	for i := 0; i < sig.Results().Len(); i++ {
		rt := sig.Results().At(i).Type()
		if _, isTP := rt.(*types.TypeParam); isTP {
			unsupp("abstract invoke with type-parameter result")
		}
		ls := typeLeaves(rt, "", nil)
		leaves := make([]*Term, len(ls))
		for k, l := range ls {
			leaves[k] = UF(fmt.Sprintf("%s.%d%s", name, i, l.path), l.sort, flat...)
		}
		p := 0
		rets = append(rets, unflatten(rt, leaves, &p))
	}
	return rets
}

// ---- captures

func (ex *Exec) insertCaptureVars(fn *ssa.Function, sc *types.Scope, pkg *types.Package, cp *Capture, s *specScope) {
	site := ex.findCaptureSite(fn, cp)
	if site == nil {
		return
	}
	ins := func(name string, t types.Type) {
		if sc.Lookup(name) != nil {
			if v, ok := sc.Lookup(name).(*types.Var); ok {
				s.extra[name] = v
			}
			return
		}
		v := types.NewVar(token.NoPos, pkg, name, t)
		sc.Insert(v)
		s.extra[name] = v
	}
	c := site.Common()
	sig := c.Signature()
	ins(cp.Name+"_called", types.Typ[types.Bool])
	off := 0
	if c.IsInvoke() {
		ins(cp.Name+"_recv", c.Value.Type())
	} else if sig.Recv() != nil {
		ins(cp.Name+"_recv", sig.Recv().Type())
		off = 1
	}
	_ = off
	for i := 0; i < sig.Params().Len(); i++ {
		ins(fmt.Sprintf("%s_a%d", cp.Name, i), sig.Params().At(i).Type())
	}
	for i := 0; i < sig.Results().Len(); i++ {
		ins(fmt.Sprintf("%s_r%d", cp.Name, i), sig.Results().At(i).Type())
	}
}

// findCaptureSite locates the ord-th call instruction whose callee expression has the given text.
func (ex *Exec) findCaptureSite(fn *ssa.Function, cp *Capture) ssa.CallInstruction {
	type cand struct {
		pos  token.Pos
		inst ssa.CallInstruction
	}
	var cands []cand
	var collect func(f *ssa.Function)
	collect = func(f *ssa.Function) {
		for _, b := range f.Blocks {
			for _, in := range b.Instrs {
				ci, ok := in.(ssa.CallInstruction)
				if !ok || !in.Pos().IsValid() {
					continue
				}
				want := strings.ReplaceAll(cp.Callee, " ", "")
				txt := ex.prog.callFunText(in.Pos())
				// `*.Name` names a method call by its selector only, whatever expression (a call
				// chain, say) the receiver is
				if txt == want || (strings.HasPrefix(want, "*.") && strings.HasSuffix(txt, want[1:])) {
					cands = append(cands, cand{in.Pos(), ci})
				}
			}
		}
		// function literals without a contract of their own are part of the body (inlined)
		for _, af := range f.AnonFuncs {
			if ex.contractFor(af) == nil {
				collect(af)
			}
		}
	}
	collect(fn)
	for i := 0; i < len(cands); i++ {
		for j := i + 1; j < len(cands); j++ {
			if cands[j].pos < cands[i].pos {
				cands[i], cands[j] = cands[j], cands[i]
			}
		}
	}
	if cp.Ord < len(cands) {
		return cands[cp.Ord].inst
	}
	return nil
}

// captureOwner: calls inside an inlined function literal belong to the enclosing function under contract.
func captureOwner(fr *Frame) *Frame {
	for fr != nil && fr.con == nil && fr.parent != nil && fr.fn.Parent() != nil {
		fr = fr.parent
	}
	return fr
}

func (ex *Exec) captureSites(fr *Frame) map[*Capture]ssa.CallInstruction {
	if fr.capSites == nil {
		fr.capSites = map[*Capture]ssa.CallInstruction{}
		for _, c := range fr.con.Captures {
			fr.capSites[c] = ex.findCaptureSite(fr.fn, c)
		}
	}
	return fr.capSites
}

// capturePre snapshots the state in front of a captured call site (for the before() intrinsic).
func (ex *Exec) capturePre(fr *Frame, st *State, site ssa.Instruction) *State {
	fr = captureOwner(fr)
	if fr == nil || fr.con == nil || len(fr.con.Captures) == 0 || ex.spec > 0 {
		return nil
	}
	for _, ci := range ex.captureSites(fr) {
		if ci != nil && ci.(ssa.Instruction) == site {
			return st.clone()
		}
	}
	return nil
}

func (ex *Exec) recordCapture(fr *Frame, st *State, site ssa.Instruction, args, rets []Val, sig *types.Signature, pre *State) {
	fr = captureOwner(fr)
	if fr == nil || fr.con == nil || len(fr.con.Captures) == 0 || ex.spec > 0 {
		return
	}
	for _, cp := range fr.con.Captures {
		if fr.capSites == nil {
			fr.capSites = map[*Capture]ssa.CallInstruction{}
			for _, c := range fr.con.Captures {
				fr.capSites[c] = ex.findCaptureSite(fr.fn, c)
			}
		}
		if ci := fr.capSites[cp]; ci != nil && ci.(ssa.Instruction) == site {
			ex.capSeq++
			rec := &capRec{seq: ex.capSeq, called: st.reach, args: args, rets: rets, sig: sig, pre: pre}
			if old := fr.captures[cp.Name]; old != nil && old.called != st.reach && len(old.args) == len(args) && len(old.rets) == len(rets) {
				// the site ran before on another path (an inlined closure invoked from several
				// places): the latest execution wins where it ran, the earlier one elsewhere
				rec = &capRec{seq: ex.capSeq, called: Or(old.called, st.reach), sig: sig}
				if old.pre != nil && pre != nil {
					// the two pre-states carry their own reach conditions: merge picks by them
					rec.pre = ex.mergeStates([]*State{old.pre, pre})
				}
				for i := range args {
					rec.args = append(rec.args, iteVal(st.reach, args[i], old.args[i]))
				}
				for i := range rets {
					rec.rets = append(rec.rets, iteVal(st.reach, rets[i], old.rets[i]))
				}
			}
			fr.captures[cp.Name] = rec
		}
	}
}

// bindCaptures adds the capture variables to a function-level environment.
func (ex *Exec) bindCaptures(fr *Frame, env *SpecEnv, sc *specScope, reachNow *Term) {
	if fr.con == nil {
		return
	}
	for _, cp := range fr.con.Captures {
		caps := fr.captures
		if fr.capsOverride != nil {
			caps = fr.capsOverride
		}
		rec := caps[cp.Name]
		ci := ex.findCaptureSite(fr.fn, cp)
		if ci == nil {
			continue
		}
		c := ci.Common()
		sig := c.Signature()
		bind := func(name string, v Val) {
			if o, ok := sc.extra[name]; ok {
				env.objs[o] = v
			}
		}
		if rec == nil {
			// the call did not execute on this path: its arguments and results are arbitrary
			for name, o := range sc.extra {
				if strings.HasPrefix(name, cp.Name+"_") {
					if _, done := env.objs[o]; !done {
						env.objs[o] = freshVal(o.Type(), "nocall."+name, nil)
					}
				}
			}
			bind(cp.Name+"_called", False())
			continue
		}
		bind(cp.Name+"_called", rec.called)
		if env.capPre == nil {
			env.capPre = map[string]*State{}
		}
		env.capPre[cp.Name+"_called"] = rec.pre
		if env.capSeq == nil {
			env.capSeq = map[string]int{}
		}
		env.capSeq[cp.Name+"_called"] = rec.seq
		args := rec.args
		if c.IsInvoke() || sig.Recv() != nil {
			if len(args) > 0 {
				bind(cp.Name+"_recv", args[0])
				args = args[1:]
			}
		}
		for i := 0; i < sig.Params().Len() && i < len(args); i++ {
			bind(fmt.Sprintf("%s_a%d", cp.Name, i), args[i])
		}
		for i := 0; i < sig.Results().Len() && i < len(rec.rets); i++ {
			bind(fmt.Sprintf("%s_r%d", cp.Name, i), rec.rets[i])
		}
	}
}

// havocUnder havocs every heap cell at or below the object `root` (all leaf sorts touched so far).
func (ex *Exec) havocUnder(st *State, root *Term) {
	p := BoundVar("hp", SPtr)
	for _, sort := range []string{SInt, SBool, SStr, SPtr, SF64} {
		n, s := heapName(sort)
		old := st.heap.array(n, s)
		nw := Fresh(n+"@obj", s)
		ex.fact(nil, Forall([]*Term{p}, Or(underPred(p, func(q *Term) *Term { return Eq(q, root) }, 3), SameVal(Select(nw, p), Select(old, p)))))
		st.heap.set(n, nw)
	}
}

// objectRoot: the object denoted by `x` in a frame item `x.*`: the pointee of a pointer, the
// dynamic value of an interface, or the heap cell of an addressable (escaping) local variable.
func (ex *Exec) objectRoot(env *SpecEnv, pc *parsedClause) (root *Term) {
	t := env.resolve(pc.info.Types[pc.expr].Type)
	ex.spec++
	defer func() { ex.spec-- }()
	switch t.Underlying().(type) {
	case *types.Pointer:
		return env.eval(pc.expr).(*Term)
	case *types.Interface:
		return env.eval(pc.expr).(*Agg).F[1].(*Term)
	}
	defer func() {
		if r := recover(); r != nil {
			if _, ok := r.(unsupported); ok {
				root = nil
				return
			}
			panic(r)
		}
	}()
	return env.addrOf(pc.expr)
}
