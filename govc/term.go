package main

// Term DAG with hash-consing, light simplification and SMT-LIB2 printing.

import (
	"fmt"
	"math"
	"math/big"
	"sort"
	"strconv"
	"strings"
)

const (
	SBool = "Bool"
	SInt  = "Int"
	SF64  = "F64"
	SStr  = "Str"
	SPtr  = "Ptr"
)

func arrSort(k, v string) string { return "(Array " + k + " " + v + ")" }

type Term struct {
	Op       string
	Name     string
	Args     []*Term
	Sort     string
	Bound    []*Term // quantifier-bound variables
	id       int
	hasBound bool  // some bound variable occurs free in the term
	free     []int // ids of the bound variables occurring free (sorted, small)
}

type Decl struct {
	Name string
	Args []string
	Ret  string
}

type TermPool struct {
	tab   map[string]*Term
	next  int
	decls map[string]*Decl
	fresh map[string]int
}

func NewPool() *TermPool {
	return &TermPool{tab: map[string]*Term{}, decls: map[string]*Decl{}, fresh: map[string]int{}}
}

var P *TermPool

func (p *TermPool) mk(op, name, sort string, args []*Term, bound []*Term) *Term {
	var sb strings.Builder
	sb.WriteString(op)
	sb.WriteByte('|')
	sb.WriteString(name)
	sb.WriteByte('|')
	sb.WriteString(sort)
	for _, a := range args {
		sb.WriteByte(',')
		sb.WriteString(strconv.Itoa(a.id))
	}
	for _, a := range bound {
		sb.WriteByte(';')
		sb.WriteString(strconv.Itoa(a.id))
	}
	k := sb.String()
	if t, ok := p.tab[k]; ok {
		return t
	}
	p.next++
	t := &Term{Op: op, Name: name, Sort: sort, Args: args, Bound: bound, id: p.next}
	if op == "bound" {
		t.free = []int{t.id}
	}
	for _, a := range args {
		for _, f := range a.free {
			dup := false
			for _, g := range t.free {
				if g == f {
					dup = true
				}
			}
			binds := false
			for _, b := range bound {
				if b.id == f {
					binds = true
				}
			}
			if !dup && !binds {
				t.free = append(t.free, f)
			}
		}
	}
	t.hasBound = len(t.free) > 0
	p.tab[k] = t
	return t
}

// ---- leaves

func True() *Term  { return P.mk("true", "", SBool, nil, nil) }
func False() *Term { return P.mk("false", "", SBool, nil, nil) }
func BoolT(b bool) *Term {
	if b {
		return True()
	}
	return False()
}
func IntT(n int64) *Term { return P.mk("int", strconv.FormatInt(n, 10), SInt, nil, nil) }
func BigIntT(n *big.Int) *Term {
	return P.mk("int", n.String(), SInt, nil, nil)
}
func F64T(f float64) *Term {
	return P.mk("f64", strconv.FormatUint(math.Float64bits(f), 10), SF64, nil, nil)
}

func (t *Term) IsInt() (int64, bool) {
	if t.Op == "int" {
		n, err := strconv.ParseInt(t.Name, 10, 64)
		if err == nil {
			return n, true
		}
	}
	return 0, false
}
func (t *Term) IsTrue() bool  { return t.Op == "true" }
func (t *Term) IsFalse() bool { return t.Op == "false" }

// Const declares (once) and returns a named constant.
func Const(name, sort string) *Term {
	if d, ok := P.decls[name]; ok {
		if d.Ret != sort || len(d.Args) != 0 {
			panic("const redeclared with other sort: " + name + " " + d.Ret + " vs " + sort)
		}
	} else {
		P.decls[name] = &Decl{Name: name, Ret: sort}
	}
	return P.mk("const", name, sort, nil, nil)
}

// Fresh returns a fresh constant with the given name prefix.
func Fresh(prefix, sort string) *Term {
	P.fresh[prefix]++
	return Const(fmt.Sprintf("%s!%d", prefix, P.fresh[prefix]), sort)
}

var boundByID = map[int]*Term{}

func BoundVar(prefix, sort string) *Term {
	P.fresh["bv:"+prefix]++
	t := P.mk("bound", fmt.Sprintf("%s?%d", prefix, P.fresh["bv:"+prefix]), sort, nil, nil)
	boundByID[t.id] = t
	return t
}

// closeOver universally quantifies the bound variables occurring free in f.
func closeOver(f *Term) *Term {
	if !f.hasBound {
		return f
	}
	var vs []*Term
	for _, id := range f.free {
		if v := boundByID[id]; v != nil {
			vs = append(vs, v)
		}
	}
	return Forall(vs, f)
}

// UF applies an uninterpreted function (declared on first use).
func UF(name string, ret string, args ...*Term) *Term {
	as := make([]string, len(args))
	for i, a := range args {
		as[i] = a.Sort
	}
	if d, ok := P.decls[name]; ok {
		if d.Ret != ret || strings.Join(d.Args, ",") != strings.Join(as, ",") {
			panic(fmt.Sprintf("uf %s redeclared: (%v)->%s vs (%v)->%s", name, d.Args, d.Ret, as, ret))
		}
	} else {
		P.decls[name] = &Decl{Name: name, Args: as, Ret: ret}
	}
	if len(args) == 0 {
		return P.mk("const", name, ret, nil, nil)
	}
	return P.mk("uf", name, ret, args, nil)
}

// ---- boolean

func Not(a *Term) *Term {
	switch {
	case a.IsTrue():
		return False()
	case a.IsFalse():
		return True()
	case a.Op == "not":
		return a.Args[0]
	}
	return P.mk("not", "", SBool, []*Term{a}, nil)
}

func And(as ...*Term) *Term {
	var out []*Term
	seen := map[int]bool{}
	for _, a := range as {
		if a.IsFalse() {
			return False()
		}
		if a.IsTrue() || seen[a.id] {
			continue
		}
		if a.Op == "and" {
			for _, b := range a.Args {
				if !seen[b.id] {
					seen[b.id] = true
					out = append(out, b)
				}
			}
			continue
		}
		seen[a.id] = true
		out = append(out, a)
	}
	for _, a := range out {
		if a.Op == "not" && seen[a.Args[0].id] {
			return False()
		}
	}
	switch len(out) {
	case 0:
		return True()
	case 1:
		return out[0]
	}
	return P.mk("and", "", SBool, out, nil)
}

func Or(as ...*Term) *Term {
	var out []*Term
	seen := map[int]bool{}
	for _, a := range as {
		if a.IsTrue() {
			return True()
		}
		if a.IsFalse() || seen[a.id] {
			continue
		}
		if a.Op == "or" {
			for _, b := range a.Args {
				if !seen[b.id] {
					seen[b.id] = true
					out = append(out, b)
				}
			}
			continue
		}
		seen[a.id] = true
		out = append(out, a)
	}
	for _, a := range out {
		if a.Op == "not" && seen[a.Args[0].id] {
			return True()
		}
	}
	switch len(out) {
	case 0:
		return False()
	case 1:
		return out[0]
	}
	return P.mk("or", "", SBool, out, nil)
}

func Implies(a, b *Term) *Term { return Or(Not(a), b) }

func Ite(c, a, b *Term) *Term {
	if c.IsTrue() {
		return a
	}
	if c.IsFalse() {
		return b
	}
	if a == b {
		return a
	}
	if a.Sort != b.Sort {
		panic("ite sort mismatch " + a.Sort + " / " + b.Sort + " : " + a.String() + " / " + b.String())
	}
	if a.Sort == SBool {
		if a.IsTrue() && b.IsFalse() {
			return c
		}
		if a.IsFalse() && b.IsTrue() {
			return Not(c)
		}
		if a.IsTrue() {
			return Or(c, b)
		}
		if a.IsFalse() {
			return And(Not(c), b)
		}
		if b.IsFalse() {
			return And(c, a)
		}
		if b.IsTrue() {
			return Or(Not(c), a)
		}
	}
	if c.Op == "not" {
		return Ite(c.Args[0], b, a)
	}
	return P.mk("ite", "", a.Sort, []*Term{c, a, b}, nil)
}

// ptrDistinct decides syntactically whether two Ptr terms are certainly different (1),
// certainly equal (0) or unknown (-1).
func ptrCmp(a, b *Term) int {
	if a == b {
		return 0
	}
	isCons := func(t *Term) bool {
		switch t.Op {
		case "null", "obj", "new", "fld", "elt", "fnp", "glob":
			return true
		}
		return false
	}
	if isCons(a) && isCons(b) {
		if a.Op != b.Op {
			return 1
		}
		// same constructor: compare args
		allEq := true
		for i := range a.Args {
			x, y := a.Args[i], b.Args[i]
			if x.Sort == SPtr {
				switch ptrCmp(x, y) {
				case 1:
					return 1
				case -1:
					allEq = false
				}
			} else {
				xi, ok1 := x.IsInt()
				yi, ok2 := y.IsInt()
				if ok1 && ok2 {
					if xi != yi {
						return 1
					}
				} else if x != y {
					allEq = false
				}
			}
		}
		if a.Name != b.Name {
			return 1
		}
		if allEq {
			return 0
		}
	}
	return -1
}

func Eq(a, b *Term) *Term {
	if a == b {
		return True()
	}
	if a.Sort != b.Sort {
		panic("eq sort mismatch " + a.Sort + " / " + b.Sort + ": " + a.String() + " / " + b.String())
	}
	switch a.Sort {
	case SInt:
		x, ok1 := a.IsInt()
		y, ok2 := b.IsInt()
		if ok1 && ok2 {
			return BoolT(x == y)
		}
	case SBool:
		if a.IsTrue() {
			return b
		}
		if b.IsTrue() {
			return a
		}
		if a.IsFalse() {
			return Not(b)
		}
		if b.IsFalse() {
			return Not(a)
		}
	case SPtr:
		switch ptrCmp(a, b) {
		case 0:
			return True()
		case 1:
			return False()
		}
	case SF64:
		// Go == on floats is IEEE equality
		return P.mk("fp.eq", "", SBool, ord(a, b), nil)
	}
	if a.Op == "strlit" && b.Op == "strlit" {
		return BoolT(a.Name == b.Name)
	}
	return P.mk("=", "", SBool, ord(a, b), nil)
}

// StructEq is structural (bitwise) equality also for floats; used for "same value" facts.
func SameVal(a, b *Term) *Term {
	if a == b {
		return True()
	}
	if a.Sort == SF64 {
		return P.mk("=", "", SBool, ord(a, b), nil)
	}
	return Eq(a, b)
}

func ord(a, b *Term) []*Term {
	if a.id > b.id {
		return []*Term{b, a}
	}
	return []*Term{a, b}
}

// ---- integer arithmetic (mathematical integers)

// linear normal form: sum of coef*atom + const, atoms ordered by id.
type linForm struct {
	coef map[int]int64
	atom map[int]*Term
	c    int64
	ok   bool
}

func linOf(t *Term, k int64, lf *linForm) {
	if !lf.ok {
		return
	}
	if n, ok := t.IsInt(); ok {
		lf.c += k * n
		return
	}
	if t.Op == "int" {
		lf.ok = false // big literal
		return
	}
	switch t.Op {
	case "+":
		for _, a := range t.Args {
			linOf(a, k, lf)
		}
		return
	case "-":
		if len(t.Args) == 2 {
			linOf(t.Args[0], k, lf)
			linOf(t.Args[1], -k, lf)
			return
		}
	case "*":
		if len(t.Args) == 2 {
			if n, ok := t.Args[0].IsInt(); ok {
				linOf(t.Args[1], k*n, lf)
				return
			}
			if n, ok := t.Args[1].IsInt(); ok {
				linOf(t.Args[0], k*n, lf)
				return
			}
		}
	}
	lf.coef[t.id] += k
	lf.atom[t.id] = t
}

func linBuild(lf *linForm) *Term {
	var ids []int
	for id, c := range lf.coef {
		if c != 0 {
			ids = append(ids, id)
		}
	}
	sort.Ints(ids)
	var parts []*Term
	for _, id := range ids {
		c := lf.coef[id]
		a := lf.atom[id]
		if c == 1 {
			parts = append(parts, a)
		} else {
			parts = append(parts, P.mk("*", "", SInt, []*Term{IntT(c), a}, nil))
		}
	}
	if lf.c != 0 || len(parts) == 0 {
		parts = append(parts, IntT(lf.c))
	}
	if len(parts) == 1 {
		return parts[0]
	}
	return P.mk("+", "", SInt, parts, nil)
}

func linComb(a *Term, ka int64, b *Term, kb int64) (*Term, bool) {
	lf := &linForm{coef: map[int]int64{}, atom: map[int]*Term{}, ok: true}
	linOf(a, ka, lf)
	linOf(b, kb, lf)
	if !lf.ok {
		return nil, false
	}
	return linBuild(lf), true
}

func Add(a, b *Term) *Term {
	if r, ok := linComb(a, 1, b, 1); ok {
		return r
	}
	return P.mk("+", "", SInt, []*Term{a, b}, nil)
}
func Sub(a, b *Term) *Term {
	if r, ok := linComb(a, 1, b, -1); ok {
		return r
	}
	return P.mk("-", "", SInt, []*Term{a, b}, nil)
}
func Neg(a *Term) *Term { return Sub(IntT(0), a) }
func Mul(a, b *Term) *Term {
	x, ok1 := a.IsInt()
	y, ok2 := b.IsInt()
	if ok1 && ok2 {
		r := new(big.Int).Mul(big.NewInt(x), big.NewInt(y))
		return BigIntT(r)
	}
	if ok1 && x == 1 {
		return b
	}
	if ok2 && y == 1 {
		return a
	}
	if (ok1 && x == 0) || (ok2 && y == 0) {
		return IntT(0)
	}
	if ok1 {
		if r, ok := linComb(b, x, IntT(0), 1); ok {
			return r
		}
	}
	if ok2 {
		if r, ok := linComb(a, y, IntT(0), 1); ok {
			return r
		}
	}
	return P.mk("*", "", SInt, []*Term{a, b}, nil)
}

// Quo / Rem follow Go's truncated division.
func Quo(a, b *Term) *Term {
	x, ok1 := a.IsInt()
	y, ok2 := b.IsInt()
	if ok1 && ok2 && y != 0 {
		return IntT(x / y)
	}
	return P.mk("goquo", "", SInt, []*Term{a, b}, nil)
}
func Rem(a, b *Term) *Term {
	x, ok1 := a.IsInt()
	y, ok2 := b.IsInt()
	if ok1 && ok2 && y != 0 {
		return IntT(x % y)
	}
	return P.mk("gorem", "", SInt, []*Term{a, b}, nil)
}

func Lt(a, b *Term) *Term {
	if a.Sort == SF64 {
		return P.mk("fp.lt", "", SBool, []*Term{a, b}, nil)
	}
	x, ok1 := a.IsInt()
	y, ok2 := b.IsInt()
	if ok1 && ok2 {
		return BoolT(x < y)
	}
	if a == b {
		return False()
	}
	return P.mk("<", "", SBool, []*Term{a, b}, nil)
}
func Le(a, b *Term) *Term {
	if a.Sort == SF64 {
		return P.mk("fp.leq", "", SBool, []*Term{a, b}, nil)
	}
	x, ok1 := a.IsInt()
	y, ok2 := b.IsInt()
	if ok1 && ok2 {
		return BoolT(x <= y)
	}
	if a == b {
		return True()
	}
	return P.mk("<=", "", SBool, []*Term{a, b}, nil)
}
func Gt(a, b *Term) *Term { return Lt(b, a) }
func Ge(a, b *Term) *Term { return Le(b, a) }

// ---- floats

func FOp(op string, args ...*Term) *Term {
	switch op {
	case "fp.add", "fp.sub", "fp.mul", "fp.div", "fp.neg", "fp.abs", "fp.sqrt", "fp.roundToIntegral":
		return P.mk(op, "", SF64, args, nil)
	case "fp.isNaN", "fp.isInfinite", "fp.isZero", "fp.isNegative", "fp.isPositive":
		return P.mk(op, "", SBool, args, nil)
	}
	panic("fop " + op)
}
func IntToF64(a *Term) *Term { return P.mk("i2f", "", SF64, []*Term{a}, nil) }

// F64ToInt truncates toward zero (Go conversion); result unspecified for NaN/Inf/out of range.
func F64ToInt(a *Term) *Term { return P.mk("f2i", "", SInt, []*Term{a}, nil) }

// ---- arrays

func Select(arr, idx *Term) *Term {
	vs := arrElem(arr.Sort)
	if idx.Sort == SPtr && idx.Op == "ite" && iteDepth(idx) <= 16 {
		return Ite(idx.Args[0], Select(arr, idx.Args[1]), Select(arr, idx.Args[2]))
	}
	for {
		if arr.Op == "store" {
			k := arr.Args[1]
			var c int
			if idx.Sort == SPtr {
				c = ptrCmp(k, idx)
			} else if k == idx {
				c = 0
			} else {
				c = -1
				x, ok1 := k.IsInt()
				y, ok2 := idx.IsInt()
				if ok1 && ok2 && x != y {
					c = 1
				}
				if k.Op == "strlit" && idx.Op == "strlit" && k.Name != idx.Name {
					c = 1
				}
			}
			if c == 0 {
				return arr.Args[2]
			}
			if c == 1 {
				arr = arr.Args[0]
				continue
			}
		}
		if arr.Op == "constarr" {
			return arr.Args[0]
		}
		if arr.Op == "ite" {
			// both branches agree on this cell (typical after merging states that did not touch it)
			a1 := Select(arr.Args[1], idx)
			a2 := Select(arr.Args[2], idx)
			if a1 == a2 {
				return a1
			}
			if a1.Op != "select" || a2.Op != "select" {
				// one branch wrote this cell: keep the case split explicit
				return Ite(arr.Args[0], a1, a2)
			}
		}
		break
	}
	return P.mk("select", "", vs, []*Term{arr, idx}, nil)
}

func Store(arr, idx, v *Term) *Term {
	if v.Sort != arrElem(arr.Sort) {
		panic("store sort mismatch: " + arr.Sort + " <- " + v.Sort)
	}
	if arr.Op == "store" && arr.Args[1] == idx {
		arr = arr.Args[0]
	}
	return P.mk("store", "", arr.Sort, []*Term{arr, idx, v}, nil)
}

func ConstArr(sort string, v *Term) *Term {
	return P.mk("constarr", "", sort, []*Term{v}, nil)
}

// arrElem returns the element sort of "(Array K V)".
func arrElem(s string) string {
	k, v := arrKV(s)
	_ = k
	return v
}
func arrKV(s string) (string, string) {
	if !strings.HasPrefix(s, "(Array ") {
		panic("not an array sort: " + s)
	}
	body := s[len("(Array ") : len(s)-1]
	// split first sort token
	depth := 0
	for i := 0; i < len(body); i++ {
		switch body[i] {
		case '(':
			depth++
		case ')':
			depth--
		case ' ':
			if depth == 0 {
				return body[:i], body[i+1:]
			}
		}
	}
	panic("bad array sort " + s)
}

// ---- pointers

func Null() *Term           { return P.mk("null", "", SPtr, nil, nil) }
func NewObj(k int) *Term    { return P.mk("new", "", SPtr, []*Term{IntT(int64(k))}, nil) }
func GlobPtr(k int) *Term   { return P.mk("glob", "", SPtr, []*Term{IntT(int64(k))}, nil) }
func FnPtr(k int) *Term     { return P.mk("fnp", "", SPtr, []*Term{IntT(int64(k))}, nil) }
func Fld(p *Term, i int) *Term {
	if p.Op == "ite" {
		// distribute over a choice of objects so that later selects resolve per object
		return Ite(p.Args[0], Fld(p.Args[1], i), Fld(p.Args[2], i))
	}
	return P.mk("fld", "", SPtr, []*Term{p, IntT(int64(i))}, nil)
}
func Elt(p, i *Term) *Term  { return P.mk("elt", "", SPtr, []*Term{p, i}, nil) }

// ---- quantifiers

func Forall(vars []*Term, body *Term) *Term {
	if body.IsTrue() {
		return True()
	}
	return P.mk("forall", "", SBool, []*Term{body}, vars)
}
func Exists(vars []*Term, body *Term) *Term {
	if body.IsFalse() {
		return False()
	}
	return P.mk("exists", "", SBool, []*Term{body}, vars)
}

// ---- strings (uninterpreted sort Str)

var strLits = map[string]*Term{}

func StrLit(s string) *Term {
	return P.mk("strlit", s, SStr, nil, nil)
}
func SLen(s *Term) *Term {
	if s.Op == "strlit" {
		return IntT(int64(len(s.Name)))
	}
	return P.mk("uf", "slen", SInt, []*Term{s}, nil)
}
func SAt(s, i *Term) *Term {
	if s.Op == "strlit" {
		if k, ok := i.IsInt(); ok && k >= 0 && int(k) < len(s.Name) {
			return IntT(int64(s.Name[k]))
		}
	}
	return P.mk("uf", "sat", SInt, []*Term{s, i}, nil)
}
func SConcat(a, b *Term) *Term {
	if a.Op == "strlit" && b.Op == "strlit" {
		return StrLit(a.Name + b.Name)
	}
	if a.Op == "strlit" && a.Name == "" {
		return b
	}
	if b.Op == "strlit" && b.Name == "" {
		return a
	}
	return P.mk("uf", "sconcat", SStr, []*Term{a, b}, nil)
}
func SSub(s, lo, hi *Term) *Term {
	if s.Op == "strlit" {
		l, ok1 := lo.IsInt()
		h, ok2 := hi.IsInt()
		if ok1 && ok2 && 0 <= l && l <= h && int(h) <= len(s.Name) {
			return StrLit(s.Name[l:h])
		}
	}
	if l, ok := lo.IsInt(); ok && l == 0 && hi.Op == "uf" && hi.Name == "slen" && hi.Args[0] == s {
		return s
	}
	return P.mk("uf", "ssub", SStr, []*Term{s, lo, hi}, nil)
}

// ---- printing

func smtName(n string) string {
	ok := true
	for _, c := range n {
		if !(c >= 'a' && c <= 'z' || c >= 'A' && c <= 'Z' || c >= '0' && c <= '9' || strings.ContainsRune("_.!$-<>", c)) {
			ok = false
			break
		}
	}
	if ok && n != "" && !(n[0] >= '0' && n[0] <= '9') {
		return n
	}
	return "|" + strings.NewReplacer("|", "!", "\\", "/").Replace(n) + "|"
}

var realFloatMode bool

func smtSort(s string) string {
	switch s {
	case SF64:
		if realFloatMode {
			return "Real"
		}
		return "(_ FloatingPoint 11 53)"
	}
	if strings.HasPrefix(s, "(Array ") {
		k, v := arrKV(s)
		return "(Array " + smtSort(k) + " " + smtSort(v) + ")"
	}
	return s
}

func smtInt(n string) string {
	if strings.HasPrefix(n, "-") {
		return "(- " + n[1:] + ")"
	}
	return n
}

type printer struct {
	real  bool // float64 printed as Real (exact arithmetic, no NaN/Inf)
	names map[int]string
	lits  map[string]string // string literal -> const name
	order []string
}

func (t *Term) String() string {
	pr := &printer{names: map[int]string{}, lits: map[string]string{}}
	return pr.expr(t)
}

func (pr *printer) litName(s string) string {
	if n, ok := pr.lits[s]; ok {
		return n
	}
	n := fmt.Sprintf("strlit!%d", len(pr.lits))
	pr.lits[s] = n
	pr.order = append(pr.order, s)
	return n
}

func (pr *printer) expr(t *Term) string {
	if n, ok := pr.names[t.id]; ok {
		return n
	}
	return pr.raw(t)
}

func (pr *printer) raw(t *Term) string {
	args := func() string {
		var sb strings.Builder
		for _, a := range t.Args {
			sb.WriteByte(' ')
			sb.WriteString(pr.expr(a))
		}
		return sb.String()
	}
	switch t.Op {
	case "true", "false":
		return t.Op
	case "int":
		return smtInt(t.Name)
	case "f64":
		bits, _ := strconv.ParseUint(t.Name, 10, 64)
		if pr.real {
			f := math.Float64frombits(bits)
			r := new(big.Rat)
			if r.SetFloat64(f) == nil {
				return "0.0"
			}
			num, den := r.Num(), r.Denom()
			sgn := ""
			if num.Sign() < 0 {
				num = new(big.Int).Neg(num)
				sgn = "-"
			}
			e := "(/ " + num.String() + ".0 " + den.String() + ".0)"
			if sgn != "" {
				e = "(- " + e + ")"
			}
			return e
		}
		return fmt.Sprintf("(fp #b%01b #b%011b #b%052b)", bits>>63, (bits>>52)&0x7ff, bits&((1<<52)-1))
	case "const", "bound":
		return smtName(t.Name)
	case "strlit":
		return pr.litName(t.Name)
	case "uf":
		return "(" + smtName(t.Name) + args() + ")"
	case "null":
		return "null"
	case "constarr":
		return "((as const " + smtSort(t.Sort) + ")" + args() + ")"
	case "forall", "exists":
		var sb strings.Builder
		sb.WriteString("(" + t.Op + " (")
		for _, v := range t.Bound {
			sb.WriteString("(" + smtName(v.Name) + " " + smtSort(v.Sort) + ")")
		}
		sb.WriteString(") " + pr.expr(t.Args[0]) + ")")
		return sb.String()
	case "i2f":
		if pr.real {
			return "(to_real " + pr.expr(t.Args[0]) + ")"
		}
		if n, ok := t.Args[0].IsInt(); ok && n > -(1<<52) && n < (1<<52) {
			return pr.raw(F64T(float64(n)))
		}
		return "(i2f " + pr.expr(t.Args[0]) + ")"
	case "f2i":
		return "(f2i " + pr.expr(t.Args[0]) + ")"
	case "fp.add", "fp.sub", "fp.mul", "fp.div", "fp.sqrt":
		if pr.real {
			op := map[string]string{"fp.add": "+", "fp.sub": "-", "fp.mul": "*", "fp.div": "/", "fp.sqrt": "realsqrt"}[t.Op]
			return "(" + op + args() + ")"
		}
		return "(" + t.Op + " RNE" + args() + ")"
	case "fp.roundToIntegral":
		if pr.real {
			x := pr.expr(t.Args[0])
			switch t.Name {
			case "RTN":
				return "(to_real (to_int " + x + "))"
			case "RTP":
				return "(- (to_real (to_int (- " + x + "))))"
			default:
				return "(to_real (to_int (+ " + x + " 0.5)))"
			}
		}
		return "(fp.roundToIntegral " + t.Name + args() + ")"
	case "fp.lt", "fp.leq", "fp.eq", "fp.neg", "fp.abs", "fp.isNaN", "fp.isInfinite", "fp.isZero", "fp.isNegative", "fp.isPositive":
		if pr.real {
			x := pr.expr(t.Args[0])
			switch t.Op {
			case "fp.lt":
				return "(< " + x + " " + pr.expr(t.Args[1]) + ")"
			case "fp.leq":
				return "(<= " + x + " " + pr.expr(t.Args[1]) + ")"
			case "fp.eq":
				return "(= " + x + " " + pr.expr(t.Args[1]) + ")"
			case "fp.neg":
				return "(- " + x + ")"
			case "fp.abs":
				return "(ite (< " + x + " 0.0) (- " + x + ") " + x + ")"
			case "fp.isNaN", "fp.isInfinite":
				return "false"
			case "fp.isZero":
				return "(= " + x + " 0.0)"
			case "fp.isNegative":
				return "(< " + x + " 0.0)"
			case "fp.isPositive":
				return "(>= " + x + " 0.0)"
			}
		}
		return "(" + t.Op + args() + ")"
	case "nan":
		if pr.real {
			return "real!nan"
		}
		return "(_ NaN 11 53)"
	case "pinf":
		if pr.real {
			return "real!pinf"
		}
		return "(_ +oo 11 53)"
	case "ninf":
		if pr.real {
			return "real!ninf"
		}
		return "(_ -oo 11 53)"
	case "new", "glob", "fnp", "fld", "elt", "obj":
		return "(" + t.Op + args() + ")"
	}
	if t.Op == "goquo" || t.Op == "gorem" {
		if _, lit := t.Args[1].IsInt(); !lit {
			// symbolic divisor: uninterpreted (keeps the VC linear); instances for known divisors are added as facts
			return "(" + t.Op + "_u" + args() + ")"
		}
	}
	return "(" + t.Op + args() + ")"
}

// Script renders a complete SMT-LIB2 query: facts asserted, goal negated is the caller's job
// (pass the already negated goal among asserts).
func Script(asserts []*Term, getValues []*Term, real bool) string {
	realFloatMode = real
	defer func() { realFloatMode = false }()
	pr := &printer{names: map[int]string{}, lits: map[string]string{}, real: real}
	// collect reachable nodes, refcounts
	ref := map[int]int{}
	var order []*Term
	seen := map[int]bool{}
	var visit func(t *Term)
	visit = func(t *Term) {
		ref[t.id]++
		if seen[t.id] {
			return
		}
		seen[t.id] = true
		for _, a := range t.Args {
			visit(a)
		}
		order = append(order, t)
	}
	roots := append(append([]*Term{}, asserts...), getValues...)
	for _, r := range roots {
		visit(r)
	}
	usedDecl := map[string]bool{}
	usesStr, usesQuo, usesF2I := false, false, false
	usesI2F := false
	for _, t := range order {
		switch t.Op {
		case "const", "uf":
			usedDecl[t.Name] = true
		case "strlit":
			usesStr = true
			pr.litName(t.Name)
		case "goquo", "gorem":
			usesQuo = true
		case "f2i":
			usesF2I = true
		case "i2f":
			usesI2F = true
		}
		if t.Sort == SStr || strings.Contains(t.Sort, "Str") {
			usesStr = true
		}
	}
	var sb strings.Builder
	sb.WriteString("(set-option :produce-models true)\n(set-logic ALL)\n")
	sb.WriteString("(declare-sort Str 0)\n")
	_ = usesStr
	sb.WriteString("(declare-datatypes ((Ptr 0)) (((null) (obj (oid Int)) (new (nid Int)) (glob (gid Int)) (fnp (fnid Int)) (fld (fbase Ptr) (fidx Int)) (elt (ebase Ptr) (eidx Int)))))\n")
	if usesQuo {
		sb.WriteString("(define-fun goquo ((a Int) (b Int)) Int (ite (> b 0) (ite (>= a 0) (div a b) (- (div (- a) b))) (ite (>= a 0) (- (div a (- b))) (div (- a) (- b)))))\n")
		sb.WriteString("(define-fun gorem ((a Int) (b Int)) Int (- a (* b (goquo a b))))\n")
		sb.WriteString("(declare-fun goquo_u (Int Int) Int)\n(declare-fun gorem_u (Int Int) Int)\n")
	}
	if usesF2I {
		if real {
			sb.WriteString("(define-fun f2i ((x Real)) Int (ite (< x 0.0) (- (to_int (- x))) (to_int x)))\n")
		} else {
			sb.WriteString("(declare-fun f2i ((_ FloatingPoint 11 53)) Int)\n")
		}
	}
	if usesI2F && !real {
		// int -> float64 conversion is uninterpreted (deterministic, otherwise unconstrained)
		sb.WriteString("(declare-fun i2f (Int) (_ FloatingPoint 11 53))\n")
	}
	if real {
		sb.WriteString("(declare-fun real!nan () Real)\n(declare-fun real!pinf () Real)\n(declare-fun real!ninf () Real)\n(declare-fun realsqrt (Real) Real)\n")
	}
	// builtin string functions
	builtin := map[string]*Decl{
		"slen":    {Name: "slen", Args: []string{SStr}, Ret: SInt},
		"sat":     {Name: "sat", Args: []string{SStr, SInt}, Ret: SInt},
		"sconcat": {Name: "sconcat", Args: []string{SStr, SStr}, Ret: SStr},
		"ssub":    {Name: "ssub", Args: []string{SStr, SInt, SInt}, Ret: SStr},
	}
	var names []string
	for n := range usedDecl {
		if builtin[n] == nil {
			names = append(names, n)
		}
	}
	sort.Strings(names)
	names = append([]string{"slen", "sat", "sconcat", "ssub"}, names...)
	for _, n := range names {
		d := builtin[n]
		if d == nil {
			d = P.decls[n]
		}
		if d == nil {
			panic("undeclared symbol " + n)
		}
		as := make([]string, len(d.Args))
		for i, a := range d.Args {
			as[i] = smtSort(a)
		}
		fmt.Fprintf(&sb, "(declare-fun %s (%s) %s)\n", smtName(n), strings.Join(as, " "), smtSort(d.Ret))
	}
	// string literals
	if len(pr.order) > 0 {
		for _, s := range pr.order {
			n := pr.lits[s]
			fmt.Fprintf(&sb, "(declare-fun %s () Str) ; %q\n", n, s)
		}
		if len(pr.order) > 1 {
			sb.WriteString("(assert (distinct")
			for _, s := range pr.order {
				sb.WriteString(" " + pr.lits[s])
			}
			sb.WriteString("))\n")
		}
		if usedDecl["slen"] || true {
			for _, s := range pr.order {
				fmt.Fprintf(&sb, "(assert (= (slen %s) %d))\n", pr.lits[s], len(s))
			}
		}
		for _, s := range pr.order {
			if len(s) <= 24 {
				for i := 0; i < len(s); i++ {
					fmt.Fprintf(&sb, "(assert (= (sat %s %d) %d))\n", pr.lits[s], i, s[i])
				}
			}
		}
	}
	if usedDecl["sconcat"] {
		sb.WriteString("(assert (forall ((a!s Str) (b!s Str)) (! (= (slen (sconcat a!s b!s)) (+ (slen a!s) (slen b!s))) :pattern ((sconcat a!s b!s)))))\n")
		sb.WriteString("(assert (forall ((a!s Str) (b!s Str) (j!s Int)) (! (= (sat (sconcat a!s b!s) j!s) (ite (< j!s (slen a!s)) (sat a!s j!s) (sat b!s (- j!s (slen a!s))))) :pattern ((sat (sconcat a!s b!s) j!s)))))\n")
	}
	if usedDecl["ssub"] {
		sb.WriteString("(assert (forall ((a!s Str) (l!s Int) (h!s Int) (j!s Int)) (! (=> (and (<= 0 l!s) (<= l!s h!s) (<= h!s (slen a!s)) (<= 0 j!s) (< j!s (- h!s l!s))) (= (sat (ssub a!s l!s h!s) j!s) (sat a!s (+ l!s j!s)))) :pattern ((sat (ssub a!s l!s h!s) j!s)))))\n")
	}
	if usedDecl["strlt"] {
		// strict string order is asymmetric and irreflexive
		sb.WriteString("(assert (forall ((a!s Str) (b!s Str)) (! (not (and (strlt a!s b!s) (strlt b!s a!s))) :pattern ((strlt a!s b!s)))))\n")
	}
	// shared subterms as define-fun
	for _, t := range order {
		if ref[t.id] >= 2 && len(t.Args) > 0 && !t.hasBound {
			body := pr.raw(t)
			name := fmt.Sprintf("t!%d", t.id)
			fmt.Fprintf(&sb, "(define-fun %s () %s %s)\n", name, smtSort(t.Sort), body)
			pr.names[t.id] = name
		}
	}
	for _, a := range asserts {
		fmt.Fprintf(&sb, "(assert %s)\n", pr.expr(a))
	}
	sb.WriteString("(check-sat)\n")
	if len(getValues) > 0 {
		sb.WriteString("(get-value (")
		for _, v := range getValues {
			sb.WriteString(pr.expr(v) + " ")
		}
		sb.WriteString("))\n")
	}
	return sb.String()
}


// Subst replaces occurrences of `from` (a bound variable or constant) by `to`, re-simplifying.
func Subst(t, from, to *Term) *Term {
	memo := map[int]*Term{}
	var rec func(t *Term) *Term
	rec = func(t *Term) *Term {
		if t == from {
			return to
		}
		if len(t.Args) == 0 {
			return t
		}
		if r, ok := memo[t.id]; ok {
			return r
		}
		args := make([]*Term, len(t.Args))
		changed := false
		for i, a := range t.Args {
			args[i] = rec(a)
			if args[i] != a {
				changed = true
			}
		}
		r := t
		if changed {
			r = rebuild(t, args)
		}
		memo[t.id] = r
		return r
	}
	return rec(t)
}

func rebuild(t *Term, args []*Term) *Term {
	switch t.Op {
	case "+":
		r := args[0]
		for _, a := range args[1:] {
			r = Add(r, a)
		}
		return r
	case "-":
		if len(args) == 2 {
			return Sub(args[0], args[1])
		}
	case "*":
		if len(args) == 2 {
			return Mul(args[0], args[1])
		}
	case "and":
		return And(args...)
	case "or":
		return Or(args...)
	case "not":
		return Not(args[0])
	case "ite":
		return Ite(args[0], args[1], args[2])
	case "=":
		if args[0].Sort != SF64 {
			return Eq(args[0], args[1])
		}
	case "<":
		return Lt(args[0], args[1])
	case "<=":
		return Le(args[0], args[1])
	case "select":
		return Select(args[0], args[1])
	case "store":
		return Store(args[0], args[1], args[2])
	}
	return P.mk(t.Op, t.Name, t.Sort, args, t.Bound)
}


func iteDepth(t *Term) int {
	if t.Op != "ite" {
		return 0
	}
	a, b := iteDepth(t.Args[1]), iteDepth(t.Args[2])
	if b > a {
		a = b
	}
	return a + 1
}
