package main

import (
	"fmt"
	"go/ast"
	"go/token"
	"go/types"
	"regexp"

	"golang.org/x/tools/go/ssa"
)

// loopEnv builds the environment for clauses of loop `ord` of fr evaluated in state st.
func (ex *Exec) loopEnv(fr *Frame, h *ssa.BasicBlock, st *State) *SpecEnv {
	env := ex.funcEnv(fr, st)
	ord := fr.li.ord[h]
	if ord < len(fr.li.stmts) && len(fr.li.stmts) == len(fr.li.heads) {
		switch s := fr.li.stmts[ord].(type) {
		case *ast.ForStmt:
			env.pos = s.Body.Rbrace
		case *ast.RangeStmt:
			env.pos = s.Body.Rbrace
		}
	}
	env.loop = h
	env.head = fr.headSnap[ord]
	return env
}

// funcEnv builds the environment for function-level clauses of the frame's own contract.
func (ex *Exec) funcEnv(fr *Frame, st *State) *SpecEnv {
	top := fr
	sc := ex.funcScope(top.fn, top.con)
	pk := ex.prog.pkgOf(top.fn)
	env := &SpecEnv{ex: ex, pkg: pk, pos: sc.pos, st: st, old: top.entry, frame: top, objs: map[types.Object]Val{}, entry: map[types.Object]Val{}, label: top.label}
	for i, p := range ex.paramObjs(top.fn) {
		if i < len(top.entryArgs) {
			env.entry[p] = top.entryArgs[i]
		}
	}
	env.tparams = typeParamMap(top.fn)
	for _, lv := range sc.logical {
		if top.logical == nil {
			top.logical = map[*types.Var]Val{}
		}
		if _, ok := top.logical[lv]; !ok {
			var fs []*Term
			top.logical[lv] = freshVal(lv.Type(), "logical."+lv.Name(), &fs)
			ex.addFacts(nil, fs)
		}
		env.objs[lv] = top.logical[lv]
	}
	ex.bindCaptures(fr, env, sc, st.reach)
	return env
}

// modifiedInLoop computes the local cells assigned in the loop body and a description of heap effects.
type loopEffects struct {
	cells   map[*ssa.Alloc]bool
	heapAll bool
	arrays  map[string]string // heap array names (wholesale havoc)
	why     []string
}

func rootAlloc(v ssa.Value) *ssa.Alloc {
	for {
		switch x := v.(type) {
		case *ssa.Alloc:
			return x
		case *ssa.FieldAddr:
			v = x.X
		case *ssa.IndexAddr:
			v = x.X
		default:
			return nil
		}
	}
}

func (ex *Exec) effectsOf(fr *Frame, blocks map[*ssa.BasicBlock]bool) *loopEffects {
	ef := &loopEffects{cells: map[*ssa.Alloc]bool{}, arrays: map[string]string{}}
	addLeaves := func(t types.Type) {
		for _, l := range typeLeaves(t, "", nil) {
			n, s := heapName(l.sort)
			ef.arrays[n] = s
		}
	}
	addMap := func(mt *types.Map) {
		ks := mapKeySort(mt)
		n, s := mdomName(ks)
		ef.arrays[n] = s
		for _, l := range typeLeaves(mt.Elem(), "", nil) {
			n, s := mvalName(ks, l.path, l.sort)
			ef.arrays[n] = s
		}
		ef.arrays[mlenName] = mlenSort
	}
	var scanFn func(fn *ssa.Function, blocks map[*ssa.BasicBlock]bool, depth int)
	var curSite ssa.Instruction
	scanCall := func(c *ssa.CallCommon, depth int) {
		if b, ok := c.Value.(*ssa.Builtin); ok {
			switch b.Name() {
			case "append":
				if sl, ok := c.Args[0].Type().Underlying().(*types.Slice); ok {
					addLeaves(sl.Elem())
				}
			case "copy":
				if sl, ok := c.Args[0].Type().Underlying().(*types.Slice); ok {
					addLeaves(sl.Elem())
				}
			case "delete", "clear":
				if mt, ok := c.Args[0].Type().Underlying().(*types.Map); ok {
					addMap(mt)
				}
			}
			return
		}
		if c.IsInvoke() {
			if named := namedIface(c.Value.Type()); named != nil {
				key := named.Obj().Pkg().Path() + ":iface:" + named.Obj().Name() + "." + c.Method.Name()
				if con := ex.cs.ByKey[key]; con != nil && (con.Pure || (con.HasMod && len(con.Modifies) == 0)) {
					return
				}
				full := "(" + named.Obj().Pkg().Path() + "." + named.Obj().Name() + ")." + c.Method.Name()
				if pureModel(full) {
					return
				}
			} else if c.Method.Name() == "Error" {
				return
			}
			ef.heapAll = true
			ef.why = append(ef.why, "interface call "+c.Method.Name())
			return
		}
		var fn *ssa.Function
		switch v := c.Value.(type) {
		case *ssa.Function:
			fn = v
		case *ssa.MakeClosure:
			fn = v.Fn.(*ssa.Function)
		case *ssa.UnOp:
			fn = singleStoredFunc(v.X)
		}
		if fn == nil {
			if top := fr.topFrame(); top.con != nil && curSite != nil {
				txt := ex.prog.callFunText(curSite.Pos())
				for _, a := range append(append(append([]string{}, top.con.AssumePure...), top.con.AssumeFresh...), top.con.Calls...) {
					if a == txt {
						return
					}
				}
			}
			ef.heapAll = true
			ef.why = append(ef.why, "call through function value")
			return
		}
		full := ssaFullName(fn)
		if pureModel(full) {
			return
		}
		if effectModel(full, ef, c) {
			return
		}
		con := ex.contractFor(fn)
		switch {
		case con != nil && (con.Pure || con.PureHeap):
			return
		case con != nil && !con.Inline:
			if len(con.Modifies) == 0 {
				return
			}
			// conservatively: everything (a loop-level modifies clause makes this precise)
			ef.heapAll = true
			ef.why = append(ef.why, "call to "+full+" with modifies")
			return
		case (con != nil && con.Inline) || fn.Parent() != nil || (fn.Synthetic != "" && len(fn.Blocks) > 0):
			if depth < 3 && len(fn.Blocks) > 0 {
				all := map[*ssa.BasicBlock]bool{}
				for _, b := range fn.Blocks {
					all[b] = true
				}
				scanFn(fn, all, depth+1)
				return
			}
		}
		ef.heapAll = true
		ef.why = append(ef.why, "call to "+full)
	}
	scanFn = func(fn *ssa.Function, blocks map[*ssa.BasicBlock]bool, depth int) {
		for b := range blocks {
			for _, in := range b.Instrs {
				switch x := in.(type) {
				case *ssa.Store:
					if a := rootAlloc(x.Addr); a != nil && !a.Heap {
						if depth == 0 && !blocks[a.Block()] {
							ef.cells[a] = true
						}
						continue
					}
					addLeaves(x.Val.Type())
				case *ssa.MapUpdate:
					addMap(x.Map.Type().Underlying().(*types.Map))
				case *ssa.Call:
					curSite = x
					scanCall(&x.Call, depth)
				case *ssa.Defer:
					curSite = x
					scanCall(&x.Call, depth)
				case *ssa.Go:
					ef.heapAll = true
				case *ssa.Alloc:
					if x.Heap {
						addLeaves(elemOfPtr(x.Type()))
					}
				case *ssa.MakeMap:
					addMap(x.Type().Underlying().(*types.Map))
				case *ssa.MakeInterface:
					if !pointerShaped(x.X.Type()) {
						if _, isI := x.X.Type().Underlying().(*types.Interface); !isI {
							addLeaves(x.X.Type())
						}
					}
				}
			}
		}
	}
	scanFn(fr.fn, blocks, 0)
	return ef
}

func (ex *Exec) loopSpec(fr *Frame, h *ssa.BasicBlock) *LoopSpec {
	if fr.con == nil {
		return nil
	}
	return fr.con.Loops[fr.li.ord[h]]
}

// enterLoop cuts the loop at its head: invariants are checked on entry, the loop's footprint is
// havoced and the invariants are assumed for an arbitrary iteration.
func (ex *Exec) enterLoop(fr *Frame, h *ssa.BasicBlock, in *State) *State {
	ord := fr.li.ord[h]
	spec := ex.loopSpec(fr, h)
	if len(fr.li.stmts) != len(fr.li.heads) && spec != nil {
		unsupp("%s: %d loop statements but %d loop heads; loop clauses cannot be bound", fr.label, len(fr.li.stmts), len(fr.li.heads))
	}
	if spec != nil && ex.spec == 0 {
		env := ex.loopEnv(fr, h, in)
		env.head = in
		for _, cl := range spec.Invariants {
			ex.oblige(fr, in, fmt.Sprintf("loop%d.inv.init", ord), cl.Label, env.evalBool(cl.Text), h.Instrs[0].Pos(), cl.Text)
		}
		for _, cl := range spec.EntryEnsures {
			ex.oblige(fr, in, fmt.Sprintf("loop%d.entry", ord), cl.Label, env.evalBool(cl.Text), h.Instrs[0].Pos(), cl.Text)
		}
	}
	st := in.clone()
	for b := range fr.li.body[h] {
		for _, instr := range b.Instrs {
			if nx, ok := instr.(*ssa.Next); ok && nx.IsString {
				rng := nx.Iter.(*ssa.Range)
				if _, have := st.iters[rng]; have {
					p := Fresh("l.rangepos", SInt)
					st.iters[rng] = p
					if s, ok := fr.regs[rng].(*Term); ok {
						ex.fact(nil, And(Ge(p, IntT(0)), Le(p, ex.slen(s))))
					}
				}
			}
		}
	}
	ef := ex.effectsOf(fr, fr.li.body[h])
	for a := range ef.cells {
		if _, ok := st.cells[a]; ok {
			var fs []*Term
			st.cells[a] = freshVal(elemOfPtr(a.Type()), "l."+a.Comment, &fs)
			ex.addFacts(nil, fs)
			ex.assumeOlder(st.cells[a])
			ex.assumeSealed(st.cells[a], elemOfPtr(a.Type()))
			if a.Comment == "rangeindex" {
				// go/ssa lowers range-over-slice to an index cell that starts at -1 and is only incremented
				ex.fact(nil, Ge(st.cells[a].(*Term), IntT(-1)))
			}
		}
	}
	if spec != nil && len(spec.Modifies) > 0 {
		// Frame items are evaluated both on loop entry and at the (arbitrary) iteration's head, i.e.
		// with the loop-variant locals already havoced: `result[*]` covers the elements of whatever
		// array `result` points to in this iteration.
		envIn := ex.loopEnv(fr, h, in)
		preCells := st.clone()
		envHead := ex.loopEnv(fr, h, preCells)
		ex.loopHavoc = true
		for _, m := range spec.Modifies {
			ex.havocLvalue(st, envIn, m.Text)
			ex.havocLvalue(st, envHead, m.Text)
		}
		ex.loopHavoc = false
	} else if ef.heapAll {
		if ex.spec == 0 {
			ex.note("%s: loop %d havocs the whole heap (%v)", fr.label, ord, ef.why)
		}
		st.heap.havocAll()
	} else {
		for n, s := range ef.arrays {
			st.heap.set(n, Fresh(n+"@loop", s))
		}
	}
	fr.headNew[ord] = ex.nextObj
	r := Fresh("inloop", SBool)
	ex.fact(nil, Implies(r, in.reach))
	st.reach = r
	fr.headSnap[ord] = st.clone()
	if spec != nil {
		env := ex.loopEnv(fr, h, st)
		env.head = st
		ex.olderAtLoad = true
		for _, cl := range spec.Invariants {
			ex.fact(st, env.evalBool(cl.Text))
		}
		// An invariant that mentions a logical (universally quantified) contract variable is
		// established and preserved for an arbitrary value of it, hence for all: assume its
		// universal closure too, so that it can be used at other instances in the body.
		if top := fr.topFrame(); len(top.logical) > 0 {
			sc := ex.funcScope(top.fn, top.con)
			for _, cl := range spec.Invariants {
				mentions := false
				for _, lv := range sc.logical {
					if regexp.MustCompile(`\b` + regexp.QuoteMeta(lv.Name()) + `\b`).MatchString(cl.Text) {
						mentions = true
					}
				}
				if !mentions {
					continue
				}
				env2 := ex.loopEnv(fr, h, st)
				env2.head = st
				var bound []*Term
				for _, lv := range sc.logical {
					ls := typeLeaves(lv.Type(), "", nil)
					leaves := make([]*Term, len(ls))
					for k, l := range ls {
						leaves[k] = BoundVar("inv."+lv.Name()+l.path, l.sort)
					}
					pos := 0
					env2.objs[lv] = unflatten(lv.Type(), leaves, &pos)
					bound = append(bound, leaves...)
				}
				f := env2.evalBool(cl.Text)
				ex.fact(nil, Forall(bound, Implies(st.reach, f)))
			}
		}
		ex.olderAtLoad = false
	}
	return st
}

func (ex *Exec) backEdge(fr *Frame, from, h *ssa.BasicBlock, st *State) {
	spec := ex.loopSpec(fr, h)
	if spec == nil || ex.spec > 0 {
		return
	}
	ord := fr.li.ord[h]
	env := ex.loopEnv(fr, h, st)
	pos := token.NoPos
	if len(from.Instrs) > 0 {
		pos = from.Instrs[len(from.Instrs)-1].Pos()
	}
	for _, cl := range spec.Invariants {
		ex.oblige(fr, st, fmt.Sprintf("loop%d.inv.preserved", ord), cl.Label, env.evalBool(cl.Text), pos, cl.Text)
	}
	for _, cl := range spec.BodyEnsures {
		ex.oblige(fr, st, fmt.Sprintf("loop%d.body", ord), cl.Label, env.evalBool(cl.Text), pos, cl.Text)
		if a, ok := antecedent(cl.Text); ok && coverClauses && ex.part == 0 {
			ex.coverCheck(fr, fmt.Sprintf("loop%d.body", ord), cl.Label, Implies(st.reach, Not(env.evalBool(a))), a)
		}
	}
	if len(spec.Modifies) > 0 {
		henv := ex.loopEnv(fr, h, fr.headSnap[ord])
		ex.frameObligations(fr, fmt.Sprintf("loop%d.frame", ord), fr.headSnap[ord], st, spec.Modifies, henv, fr.headNew[ord])
	}
	if spec.Decreases != nil {
		now := env.evalAny(spec.Decreases.Text).(*Term)
		henv := ex.loopEnv(fr, h, fr.headSnap[ord])
		before := henv.evalAny(spec.Decreases.Text).(*Term)
		ex.oblige(fr, st, fmt.Sprintf("loop%d.decreases", ord), "", And(Ge(before, IntT(0)), Lt(now, before)), pos, spec.Decreases.Text)
	}
}

func (ex *Exec) loopExit(fr *Frame, h *ssa.BasicBlock, st *State) {
	spec := ex.loopSpec(fr, h)
	if spec == nil || ex.spec > 0 || len(spec.ExitEnsures) == 0 {
		return
	}
	ord := fr.li.ord[h]
	env := ex.loopEnv(fr, h, st)
	for _, cl := range spec.ExitEnsures {
		ex.oblige(fr, st, fmt.Sprintf("loop%d.exit", ord), cl.Label, env.evalBool(cl.Text), token.NoPos, cl.Text)
		if a, ok := antecedent(cl.Text); ok && coverClauses && ex.part == 0 {
			ex.coverCheck(fr, fmt.Sprintf("loop%d.exit", ord), cl.Label, Implies(st.reach, Not(env.evalBool(a))), a)
		}
	}
}

func typeParamMap(fn *ssa.Function) map[*types.TypeParam]types.Type {
	for f := fn; f != nil; f = f.Parent() {
		if f.TypeParams().Len() > 0 && len(f.TypeArgs()) == f.TypeParams().Len() {
			m := map[*types.TypeParam]types.Type{}
			for i := 0; i < f.TypeParams().Len(); i++ {
				m[f.TypeParams().At(i)] = f.TypeArgs()[i]
			}
			return m
		}
	}
	return nil
}

// singleStoredFunc: the function stored in a local variable that is assigned exactly once
// (`isDigit := func(...) {...}`), or nil.
func singleStoredFunc(addr ssa.Value) *ssa.Function {
	a, ok := addr.(*ssa.Alloc)
	if !ok || a.Referrers() == nil {
		return nil
	}
	var fn *ssa.Function
	n := 0
	for _, r := range *a.Referrers() {
		if st, ok := r.(*ssa.Store); ok && st.Addr == addr {
			n++
			switch v := st.Val.(type) {
			case *ssa.Function:
				fn = v
			case *ssa.MakeClosure:
				fn = v.Fn.(*ssa.Function)
			default:
				return nil
			}
		}
	}
	if n == 1 {
		return fn
	}
	return nil
}
