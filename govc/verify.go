package main

import (
	"fmt"
	"go/ast"
	goprinter "go/printer"
	"go/token"
	"go/types"
	"os"
	"regexp"
	"sort"
	"strings"

	"golang.org/x/tools/go/ast/astutil"
	"golang.org/x/tools/go/ssa"
)

// ---- source text helpers

var srcCache = map[string][]byte{}

func (pr *Program) fileAt(pos token.Pos) (*ast.File, []byte) {
	if !pos.IsValid() {
		return nil, nil
	}
	name := pr.Fset.Position(pos).Filename
	for _, p := range pr.Pkgs {
		if !strings.HasPrefix(p.PkgPath, modPath) {
			continue
		}
		for _, f := range p.Syntax {
			if f.Pos() <= pos && pos <= f.End() {
				b, ok := srcCache[name]
				if !ok {
					b, _ = os.ReadFile(name)
					srcCache[name] = b
				}
				return f, b
			}
		}
	}
	return nil, nil
}

var wsRe = regexp.MustCompile(`\s+`)

func (pr *Program) nodeText(n ast.Node, src []byte) string {
	a, b := pr.Fset.Position(n.Pos()).Offset, pr.Fset.Position(n.End()).Offset
	if a < 0 || b > len(src) || a > b {
		return ""
	}
	return wsRe.ReplaceAllString(string(src[a:b]), "")
}

// sourceExprAt returns the text of the innermost index/slice/binary/call/assert expression at pos.
func (pr *Program) sourceExprAt(pos token.Pos, dflt string) string {
	f, src := pr.fileAt(pos)
	if f == nil {
		return dflt
	}
	path, _ := astutil.PathEnclosingInterval(f, pos, pos)
	for _, n := range path {
		switch x := n.(type) {
		case *ast.IndexExpr, *ast.SliceExpr, *ast.TypeAssertExpr:
			return pr.nodeText(x, src)
		case *ast.BinaryExpr:
			if x.OpPos == pos {
				return pr.nodeText(x, src)
			}
		case *ast.CallExpr:
			if x.Lparen == pos {
				return pr.nodeText(x, src)
			}
		case ast.Stmt:
			return dflt
		}
	}
	return dflt
}

// callFunText returns the callee expression text of the call whose Lparen is at pos.
func (pr *Program) callFunText(pos token.Pos) string {
	f, src := pr.fileAt(pos)
	if f == nil {
		return ""
	}
	path, _ := astutil.PathEnclosingInterval(f, pos, pos)
	for _, n := range path {
		switch c := n.(type) {
		case *ast.CallExpr:
			if c.Lparen == pos {
				return pr.nodeText(c.Fun, src)
			}
		case *ast.DeferStmt:
			if c.Defer == pos {
				return pr.nodeText(c.Call.Fun, src)
			}
		case *ast.GoStmt:
			if c.Go == pos {
				return pr.nodeText(c.Call.Fun, src)
			}
		}
	}
	return ""
}

// ---- verifying one function against its contract

type FuncReport struct {
	Func        string   `json:"func"`
	Contract    string   `json:"contract"`
	Error       string   `json:"error,omitempty"`
	Obligations []string `json:"obligations"`
}

func paramName(p *ssa.Parameter, i int) string {
	if p.Name() != "" && p.Name() != "_" {
		return p.Name()
	}
	return fmt.Sprintf("arg%d", i)
}

func (ex *Exec) verifyFunction(fn *ssa.Function, con *Contract) (rep *FuncReport) {
	rep = &FuncReport{Func: funcLabel(fn), Contract: fmt.Sprintf("%s:%d", shortFile(con.File), con.Line)}
	start := len(ex.obls)
	defer func() {
		if r := recover(); r != nil {
			if u, ok := r.(unsupported); ok {
				rep.Error = u.msg
				ex.obls = ex.obls[:start]
				return
			}
			if os.Getenv("GOVC_PANIC") != "" {
				panic(r)
			}
			// an internal error of the verifier on this function must not take the whole run
			// down: the function is reported as not verifiable (an `#engine` failure), the others
			// are still decided
			rep.Error = fmt.Sprintf("internal error of the verifier: %v", r)
			ex.obls = ex.obls[:start]
			ex.spec = 0
			ex.part = 0
			return
		}
		for _, o := range ex.obls[start:] {
			rep.Obligations = append(rep.Obligations, o.Name)
		}
	}()
	con.Used = true
	resetClosureIDs()
	ex.facts = nil
	ex.factBlk = nil
	ex.curBlk = nil
	ex.inputs = nil
	ex.private = nil
	ex.privMaps = nil
	ex.pureSeen = map[string]bool{}
	ex.nilable = map[*Term]string{}
	ex.usedText = map[string]bool{}
	st := &State{reach: True(), cells: map[*ssa.Alloc]Val{}, heap: newHeap("")}
	var args []Val
	for i, p := range fn.Params {
		var fs []*Term
		v := freshVal(p.Type(), "in."+paramName(p, i), &fs)
		ex.addFacts(nil, fs)
		ex.assumeSealed(v, p.Type())
		args = append(args, v)
		for _, l := range flatten(v, nil) {
			ex.inputs = append(ex.inputs, namedTerm{l.Name, l})
			if l.Sort == SPtr {
				// objects passed in were allocated before this call
				ex.fact(nil, Not(underPred(l, func(q *Term) *Term { return P.mk("(_ is new)", "", SBool, []*Term{q}, nil) }, 3)))
			}
		}
	}
	var bindings []Val
	for _, fv := range fn.FreeVars {
		var fs []*Term
		bindings = append(bindings, freshVal(fv.Type(), "fv."+fv.Name(), &fs))
		ex.addFacts(nil, fs)
		// a captured variable lives in its own heap cell: its address is a whole object, never a
		// field or element address
		if p, ok := bindings[len(bindings)-1].(*Term); ok && p.Sort == SPtr {
			ex.fact(nil, P.mk("(_ is obj)", "", SBool, []*Term{p}, nil))
			// ... and no callee can reach it: it survives the havoc of calls
			ex.private = append(ex.private, privCell{p, elemOfPtr(fv.Type())})
			ex.assumed["variables captured by a closure are reachable only from the closure and its enclosing function (calls made by the closure do not modify them)"] = true
		}
	}
	// every pointer held by the heap on entry refers to an object that existed before this call
	{
		q := BoundVar("hp0", SPtr)
		h0 := st.heap.array("H_Ptr", arrSort(SPtr, SPtr))
		isNew := func(r *Term) *Term { return P.mk("(_ is new)", "", SBool, []*Term{r}, nil) }
		ex.fact(nil, Forall([]*Term{q}, Not(underPred(Select(h0, q), isNew, 2))))
	}
	fr := ex.newFrame(fn, args, bindings, nil)
	fr.top = true
	fr.entry = st.clone()
	fr.entryArgs = args
	ex.top = fr
	ex.assumeGlobals(fr, st)
	// requires
	if len(con.Requires) > 0 {
		env := ex.funcEnv(fr, st)
		env.objsFromArgs(ex, fn, args)
		for _, cl := range con.Requires {
			ex.fact(st, env.evalBool(cl.Text))
		}
	}
	if !con.Trusted {
		// vacuity guard: the precondition must be satisfiable
		ex.obls = append(ex.obls, &Obligation{Name: fr.label + "#vacuity[requires-satisfiable]", Kind: "vacuity", Func: fr.label,
			NFacts: len(ex.facts), Goal: False(), Backend: "smt", Text: "requires and type invariants are satisfiable (expected: sat)"})
	}
	res := ex.run(fr, st)
	ex.curBlk = nil
	if res.st == nil {
		ex.note("%s: no reachable return", fr.label)
		return rep
	}
	sc := ex.funcScope(fn, con)
	o := fn
	if fn.Origin() != nil {
		o = fn.Origin()
	}
	mkEnv := func(st *State, vals []Val) *SpecEnv {
		env := ex.funcEnv(fr, st)
		env.objsFromArgs(ex, fn, args)
		for i, r := range sc.rets {
			if i < len(vals) {
				env.objs[r] = vals[i]
				rv := o.Signature.Results().At(i)
				if rv.Name() != "" && rv.Name() != "_" {
					env.objs[rv] = vals[i]
				}
			}
		}
		return env
	}
	// Postconditions are evaluated at every return site on that site's own state (no merged
	// ite-heaps), and conjoined: one obligation per clause.
	for _, cl := range con.Ensures {
		var parts []*Term
		for _, r := range fr.rets {
			fr.capsOverride = r.caps
			env := mkEnv(r.st, r.vals)
			fr.capsOverride = nil
			parts = append(parts, Implies(r.st.reach, env.evalBool(cl.Text)))
		}
		top := &State{reach: True()}
		ex.oblige(fr, top, "ensures", cl.Label, And(parts...), token.NoPos, cl.Text)
		if a, ok := antecedent(cl.Text); ok && coverClauses && ex.part == 0 {
			var never []*Term
			for _, r := range fr.rets {
				fr.capsOverride = r.caps
				env := mkEnv(r.st, r.vals)
				fr.capsOverride = nil
				never = append(never, Implies(r.st.reach, Not(env.evalBool(a))))
			}
			ex.coverCheck(fr, "ensures", cl.Label, And(never...), a)
		}
	}
	ex.valueOrErrorObligation(fr, fn)
	// reachability guard: some return must be reachable under everything assumed on the way
	ex.reachCheck(fr, res.st, "return-reachable")
	env := mkEnv(res.st, res.vals)
	if con.TrustedFrame {
		ex.assumed["frame (modifies clause) of "+fr.label+" is assumed, not checked on its body"] = true
	} else if con.HasMod || con.Pure {
		ex.frameCheck(fr, con, res.st, env)
	}
	for k := range con.Loops {
		if k >= len(fr.li.heads) {
			ex.oblige(fr, res.st, "binding", fmt.Sprintf("loop%d", k), False(), token.NoPos, fmt.Sprintf("contract has clauses for loop %d but the function has %d loop(s)", k, len(fr.li.heads)))
		}
	}
	for _, cp := range con.Captures {
		if ex.findCaptureSite(fn, cp) == nil {
			ex.oblige(fr, res.st, "binding", "capture "+cp.Name, False(), token.NoPos, fmt.Sprintf("capture %s = call(%s, %d) matches no call site", cp.Name, cp.Callee, cp.Ord))
		}
	}
	// a loop clause that produced no obligation at all was silently dropped (its loop has no edge
	// of the kind the clause is checked at, or the generator lost the edge): that is a failure of
	// the binding, never a pass
	{
		var ks []int
		for k := range con.Loops {
			ks = append(ks, k)
		}
		sort.Ints(ks)
		for _, k := range ks {
			if k >= len(fr.li.heads) {
				continue
			}
			ls := con.Loops[k]
			var cls []*Clause
			cls = append(cls, ls.BodyEnsures...)
			cls = append(cls, ls.ExitEnsures...)
			cls = append(cls, ls.EntryEnsures...)
			cls = append(cls, ls.Invariants...)
			if ls.Decreases != nil {
				cls = append(cls, ls.Decreases)
			}
			for _, cl := range cls {
				if !ex.usedText[cl.Text] {
					lab := cl.Label
					if lab == "" {
						lab = cl.Kind
					}
					ex.oblige(fr, res.st, "binding", fmt.Sprintf("loop%d.%s produced no obligation", k, lab), False(), token.NoPos, cl.Text)
				}
			}
		}
	}
	for _, cl := range con.Asserts {
		if !fr.assertsDone[cl] {
			ex.oblige(fr, res.st, "binding", con.Anchors[cl], False(), token.NoPos, "assert anchor "+con.Anchors[cl]+" matches no instruction")
		}
	}
	return rep
}

// objsFromArgs binds parameter objects to entry values (function-level clauses read parameters at entry).
func (e *SpecEnv) objsFromArgs(ex *Exec, fn *ssa.Function, args []Val) {
	for i, p := range ex.paramObjs(fn) {
		if i < len(args) {
			e.objs[p] = args[i]
			e.entry[p] = args[i]
		}
	}
}

// assumeGlobals adds the package's global invariants (each is an obligation of its own, checked syntactically).
func (ex *Exec) assumeGlobals(fr *Frame, st *State) {
	pk := ex.prog.pkgOf(fr.fn)
	for _, g := range ex.cs.Globals {
		if g.PkgPath != pk.PkgPath {
			continue
		}
		env := &SpecEnv{ex: ex, pkg: pk, pos: ex.funcScope(fr.fn, fr.con).pos, st: st, old: st, frame: fr, objs: map[types.Object]Val{}, entry: map[types.Object]Val{}, label: "global " + g.Var}
		ex.fact(nil, env.evalBool(g.Clause.Text))
	}
}

// frameCheck: every heap cell outside the modifies set (and outside objects allocated by this
// call) has its entry value at return.
func (ex *Exec) frameCheck(fr *Frame, con *Contract, fin *State, env *SpecEnv) {
	ex.frameObligations(fr, "frame", fr.entry, fin, con.Modifies, env, 0)
}

// frameObligations proves that `fin` differs from `entry` only at the locations named by mods
// (evaluated in the entry state) and at objects allocated after id minNew.
func (ex *Exec) frameObligations(fr *Frame, kind string, entry, fin *State, modClauses []*Clause, env *SpecEnv, minNew int) {
	atEntry := kind == "frame"
	for _, m := range modClauses {
		if t := strings.TrimSpace(m.Text); t == "*" || t == "everything" {
			return
		}
	}
	if fin.heap.epoch != entry.heap.epoch {
		ex.oblige(fr, fin, kind, "heap", False(), token.NoPos, "the heap was havoced by a call without contract; frame cannot be established")
		return
	}
	// allowed locations from modifies clauses
	type modItem struct {
		kind string // "loc", "map", "elems", "ghost"
		addr *Term
		name string
	}
	var mods []modItem
	for _, m := range modClauses {
		text := strings.TrimSpace(m.Text)
		if text == "*" || text == "everything" {
			return
		}
		oenv := *env
		oenv.st = entry
		if atEntry {
			oenv.old = entry
			oenv.inOld = true
		}
		if strings.HasSuffix(text, "[*]") {
			base := strings.TrimSuffix(text, "[*]")
			pc := ex.parseClause(oenv.pkg, oenv.pos, base)
			if pc.err != nil {
				unsupp("modifies %s: %v", text, pc.err)
			}
			oenv.info = pc.info
			ex.spec++
			v := oenv.eval(pc.expr)
			ex.spec--
			switch oenv.resolve(pc.info.Types[pc.expr].Type).Underlying().(type) {
			case *types.Map:
				mods = append(mods, modItem{kind: "map", addr: v.(*Term)})
			case *types.Slice:
				mods = append(mods, modItem{kind: "elems", addr: v.(*Agg).F[0].(*Term)})
			}
			continue
		}
		if strings.HasSuffix(text, ".*") {
			pc := ex.parseClause(oenv.pkg, oenv.pos, strings.TrimSuffix(text, ".*"))
			if pc.err != nil {
				unsupp("modifies %s: %v", text, pc.err)
			}
			oenv.info = pc.info
			if root := ex.objectRoot(&oenv, pc); root != nil {
				mods = append(mods, modItem{kind: "loc", addr: root})
			}
			continue
		}
		if strings.HasSuffix(text, ")") && ex.ghostByName(oenv.pkg.PkgPath, text[:strings.Index(text, "(")]) != nil {
			mods = append(mods, modItem{kind: "ghost", name: "G@" + text[:strings.Index(text, "(")]})
			continue
		}
		pc := ex.parseClause(oenv.pkg, oenv.pos, text)
		if pc.err != nil {
			unsupp("modifies %s: %v", text, pc.err)
		}
		oenv.info = pc.info
		ex.spec++
		a := oenv.addrOf(pc.expr)
		ex.spec--
		mods = append(mods, modItem{kind: "loc", addr: a})
	}
	var names []string
	for n := range fin.heap.arr {
		names = append(names, n)
	}
	sort.Strings(names)
	for _, n := range names {
		a1 := fin.heap.arr[n]
		a0 := entry.heap.array(n, knownArrays[n])
		if a1 == a0 {
			continue
		}
		ghostAllowed := false
		for _, m := range mods {
			if m.kind == "ghost" && m.name == n {
				ghostAllowed = true
			}
		}
		if ghostAllowed {
			continue
		}
		ks, _ := arrKV(knownArrays[n])
		if ks != SPtr {
			ex.oblige(fr, fin, kind, n, SameVal0(a1, a0), token.NoPos, "ghost state "+n+" unchanged")
			continue
		}
		p := Fresh("frame.p", SPtr)
		var allowed []*Term
		allowed = append(allowed, underPred(p, func(q *Term) *Term { return newerThan(q, minNew) }, 4))
		isMapArr := strings.HasPrefix(n, "Mdom@") || strings.HasPrefix(n, "Mval@") || n == mlenName
		for _, m := range mods {
			switch m.kind {
			case "map":
				if isMapArr {
					allowed = append(allowed, Eq(p, m.addr))
				}
			case "elems":
				if !isMapArr {
					arr := m.addr
					allowed = append(allowed, underPred(p, func(q *Term) *Term {
						return And(P.mk("(_ is elt)", "", SBool, []*Term{q}, nil), Eq(P.mk("ebase", "", SPtr, []*Term{q}, nil), arr))
					}, 5))
				}
			case "loc":
				if !isMapArr {
					addr := m.addr
					allowed = append(allowed, underPred(p, func(q *Term) *Term { return Eq(q, addr) }, 3))
				}
			}
		}
		goal := Or(append(allowed, SameVal0(Select(a1, p), Select(a0, p)))...)
		ex.oblige(fr, fin, kind, n, goal, token.NoPos, "cells of "+n+" outside the modifies set keep their entry value")
	}
}

// newerThan: q is new(k) with k > min.
func newerThan(q *Term, min int) *Term {
	isNew := P.mk("(_ is new)", "", SBool, []*Term{q}, nil)
	if min <= 0 {
		return isNew
	}
	return And(isNew, Gt(P.mk("nid", "", SInt, []*Term{q}, nil), IntT(int64(min))))
}

// olderThanNow: the pointer does not point into an object allocated after the current moment.
func (ex *Exec) olderThanNow(q *Term) *Term {
	k := ex.nextObj
	return Not(underPred(q, func(r *Term) *Term { return newerThan(r, k) }, 3))
}

// assumeSealed adds the closed-world dynamic type fact for sealed interface values inside v.
func (ex *Exec) assumeSealed(v Val, t types.Type) {
	switch kindOf(t) {
	case kIface:
		if tag, ok := v.(*Agg).F[0].(*Term); ok && !tag.hasBound {
			if f := ex.sealedTagFact(t, tag); f != nil {
				ex.fact(nil, f)
			}
		}
	case kStruct:
		st := t.Underlying().(*types.Struct)
		for i := 0; i < st.NumFields(); i++ {
			ex.assumeSealed(v.(*Agg).F[i], st.Field(i).Type())
		}
	}
}

func (ex *Exec) assumeOlder(v Val) {
	for _, l := range flatten(v, nil) {
		if l.Sort == SPtr && !l.hasBound && l.Op == "const" {
			ex.fact(nil, ex.olderThanNow(l))
		}
	}
}

// heapOlder: every pointer held by the (just havoced) heap refers to an object that exists now,
// so it differs from every object allocated from here on.
func (ex *Exec) heapOlder(st *State) {
	if ex.spec > 0 {
		return
	}
	h := st.heap.array("H_Ptr", arrSort(SPtr, SPtr))
	q := BoundVar("hpo", SPtr)
	k := ex.nextObj
	ex.fact(nil, Forall([]*Term{q}, Not(underPred(Select(h, q), func(r *Term) *Term { return newerThan(r, k) }, 2))))
}

func SameVal0(a, b *Term) *Term {
	if a == b {
		return True()
	}
	return P.mk("=", "", SBool, ord(a, b), nil)
}

// underPred: pred holds for p or one of its (field/element) ancestors up to the given depth.
func underPred(p *Term, pred func(*Term) *Term, depth int) *Term {
	r := pred(p)
	if depth == 0 {
		return r
	}
	isFld := P.mk("(_ is fld)", "", SBool, []*Term{p}, nil)
	isElt := P.mk("(_ is elt)", "", SBool, []*Term{p}, nil)
	fb := P.mk("fbase", "", SPtr, []*Term{p}, nil)
	eb := P.mk("ebase", "", SPtr, []*Term{p}, nil)
	return Or(r, And(isFld, underPred(fb, pred, depth-1)), And(isElt, underPred(eb, pred, depth-1)))
}

// verifyLemma proves a package-level lemma (closed specification formula).
func (ex *Exec) verifyLemma(cl *Clause, pkgPath string) (rep *FuncReport) {
	resetClosureIDs()
	pk := ex.prog.Pkgs[pkgPath]
	label := pk.Types.Name() + ".lemma"
	rep = &FuncReport{Func: label + "[" + cl.Label + "]", Contract: fmt.Sprintf("%s:%d", shortFile(cl.File), cl.Line)}
	start := len(ex.obls)
	defer func() {
		if r := recover(); r != nil {
			if u, ok := r.(unsupported); ok {
				rep.Error = u.msg
				ex.obls = ex.obls[:start]
				return
			}
			panic(r)
		}
		for _, o := range ex.obls[start:] {
			rep.Obligations = append(rep.Obligations, o.Name)
		}
	}()
	ensureIntrinsics(pk.Types)
	ex.facts = nil
	ex.factBlk = nil
	ex.curBlk = nil
	ex.inputs = nil
	ex.pureSeen = map[string]bool{}
	st := &State{reach: True(), cells: map[*ssa.Alloc]Val{}, heap: newHeap("")}
	env := &SpecEnv{ex: ex, pkg: pk, pos: pkgPos(pk, ex.cs.LemmaScope[cl]), st: st, old: st, objs: map[types.Object]Val{}, entry: map[types.Object]Val{}, label: rep.Func}
	g := env.evalBool(cl.Text)
	fr := &Frame{ex: ex, label: label}
	ex.oblige(fr, st, "lemma", cl.Label, g, token.NoPos, cl.Text)
	return rep
}

// assumeGlobalInv re-assumes the invariants of a package-level variable at a load of it (the
// variable is never assigned after initialisation: checked by the `global` obligation).
func (ex *Exec) assumeGlobalInv(fr *Frame, st *State, g *ssa.Global) {
	if g.Pkg == nil {
		return
	}
	for _, gi := range ex.cs.Globals {
		if gi.PkgPath != g.Pkg.Pkg.Path() || gi.Var != g.Name() {
			continue
		}
		pk := ex.prog.Pkgs[gi.PkgPath]
		top := fr.topFrame()
		env := &SpecEnv{ex: ex, pkg: pk, pos: ex.funcScope(top.fn, top.con).pos, st: st, old: st, objs: map[types.Object]Val{}, entry: map[types.Object]Val{}, label: "global " + gi.Var}
		ex.fact(st, env.evalBool(gi.Clause.Text))
	}
}

// nodeTextOf renders a specification expression back to compact text (callee names of assume_pure).
func (pr *Program) nodeTextOf(n ast.Node) string {
	var sb strings.Builder
	_ = goprinter.Fprint(&sb, pr.Fset, n)
	return wsRe.ReplaceAllString(sb.String(), "")
}
