package main

// Specification expressions: Go expressions type-checked with types.CheckExpr in the scope of
// the function (or loop) they annotate, evaluated to terms over a symbolic state.

import (
	"fmt"
	"go/ast"
	"go/constant"
	"go/parser"
	"go/token"
	"go/types"
	"sort"
	"strings"

	"golang.org/x/tools/go/packages"
	"golang.org/x/tools/go/ssa"
)

type SpecEnv struct {
	ex           *Exec
	pkg          *packages.Package
	pos          token.Pos
	st           *State
	old          *State
	head         *State
	frame        *Frame               // for reading locals (nil at call sites)
	objs         map[types.Object]Val // explicit bindings (params at call sites, ret0.., captures, bound vars)
	entry        map[types.Object]Val // entry values of parameters (used inside old())
	inOld        bool
	info         *types.Info
	loop         *ssa.BasicBlock // loop head for rangeindex lookup
	label        string
	tparams      map[*types.TypeParam]types.Type
	logicalBound []*Term
	capPre       map[string]*State
	capSeq       map[string]int // state in front of each captured call, keyed by "<name>_called"
	cfn          *ssa.Function     // callee closure whose clause is evaluated at a call site ...
	cbind        []Val             // ... and the cells of its free variables
}

type parsedClause struct {
	expr ast.Expr
	info *types.Info
	err  error
}

var clauseCache = map[string]*parsedClause{}

func (ex *Exec) parseClause(pkg *packages.Package, pos token.Pos, text string) *parsedClause {
	key := fmt.Sprintf("%s|%d|%s", pkg.PkgPath, pos, text)
	if pc, ok := clauseCache[key]; ok {
		return pc
	}
	pc := &parsedClause{}
	clauseCache[key] = pc
	e, err := parser.ParseExprFrom(pkg.Fset, "clause", text, 0)
	if err != nil {
		pc.err = fmt.Errorf("parse %q: %v", text, err)
		return pc
	}
	info := &types.Info{Types: map[ast.Expr]types.TypeAndValue{}, Uses: map[*ast.Ident]types.Object{}, Defs: map[*ast.Ident]types.Object{},
		Selections: map[*ast.SelectorExpr]*types.Selection{}, Instances: map[*ast.Ident]types.Instance{}, Scopes: map[ast.Node]*types.Scope{}}
	if err := types.CheckExpr(pkg.Fset, pkg.Types, pos, e, info); err != nil {
		pc.err = fmt.Errorf("typecheck %q: %v", text, err)
		return pc
	}
	pc.expr, pc.info = e, info
	return pc
}

// ---- intrinsics inserted into package scopes

func ensureIntrinsics(pkg *types.Package) {
	sc := pkg.Scope()
	if sc.Lookup("forall") != nil {
		return
	}
	boolT := types.Typ[types.Bool]
	intT := types.Typ[types.Int]
	mkTP := func(name string) *types.TypeParam {
		return types.NewTypeParam(types.NewTypeName(token.NoPos, pkg, name, nil), types.NewInterfaceType(nil, nil))
	}
	v := func(name string, t types.Type) *types.Var { return types.NewVar(token.NoPos, pkg, name, t) }
	// old[T](x T) T, head[T](x T) T
	for _, n := range []string{"old", "head", "pre", "outer"} {
		tp := mkTP("T")
		sig := types.NewSignatureType(nil, nil, []*types.TypeParam{tp}, types.NewTuple(v("x", tp)), types.NewTuple(v("", tp)), false)
		sc.Insert(types.NewFunc(token.NoPos, pkg, n, sig))
	}
	// fresh[T](x T) bool: the slice / pointer / map is nil or was allocated by this function execution
	{
		tp := mkTP("T")
		sig := types.NewSignatureType(nil, nil, []*types.TypeParam{tp}, types.NewTuple(v("x", tp)), types.NewTuple(v("", boolT)), false)
		sc.Insert(types.NewFunc(token.NoPos, pkg, "fresh", sig))
	}
	// precedes(a_called, b_called bool) bool: both captured calls ran, a before b
	sc.Insert(types.NewFunc(token.NoPos, pkg, "precedes", types.NewSignatureType(nil, nil, nil, types.NewTuple(v("a", boolT), v("b", boolT)), types.NewTuple(v("", boolT)), false)))
	// before[T](called bool, x T) T: x evaluated in the state right before the captured call
	{
		tp := mkTP("T")
		sig := types.NewSignatureType(nil, nil, []*types.TypeParam{tp}, types.NewTuple(v("called", boolT), v("x", tp)), types.NewTuple(v("", tp)), false)
		sc.Insert(types.NewFunc(token.NoPos, pkg, "before", sig))
	}
	// forall/exists(lo, hi int, f func(int) bool) bool
	fsig := types.NewSignatureType(nil, nil, nil, types.NewTuple(v("i", intT)), types.NewTuple(v("", boolT)), false)
	for _, n := range []string{"forall", "exists"} {
		sig := types.NewSignatureType(nil, nil, nil, types.NewTuple(v("lo", intT), v("hi", intT), v("f", fsig)), types.NewTuple(v("", boolT)), false)
		sc.Insert(types.NewFunc(token.NoPos, pkg, n, sig))
	}
	// typeis[T](x any) bool ; as[T](x any) T
	{
		tp := mkTP("T")
		anyT := types.NewInterfaceType(nil, nil)
		sig := types.NewSignatureType(nil, nil, []*types.TypeParam{tp}, types.NewTuple(v("x", anyT)), types.NewTuple(v("", boolT)), false)
		sc.Insert(types.NewFunc(token.NoPos, pkg, "typeis", sig))
		tp2 := mkTP("T")
		sig2 := types.NewSignatureType(nil, nil, []*types.TypeParam{tp2}, types.NewTuple(v("x", anyT)), types.NewTuple(v("", tp2)), false)
		sc.Insert(types.NewFunc(token.NoPos, pkg, "as", sig2))
	}
	// ite[T](c bool, a, b T) T
	{
		tp := mkTP("T")
		sig := types.NewSignatureType(nil, nil, []*types.TypeParam{tp}, types.NewTuple(v("c", boolT), v("a", tp), v("b", tp)), types.NewTuple(v("", tp)), false)
		sc.Insert(types.NewFunc(token.NoPos, pkg, "ite", sig))
	}
	// first[A,B](a A, b B) A, second[A,B](a A, b B) B: projections of two-result calls f(g())
	for idx, n := range []string{"first", "second"} {
		a, b := mkTP("A"), mkTP("B")
		res := a
		if idx == 1 {
			res = b
		}
		sig := types.NewSignatureType(nil, nil, []*types.TypeParam{a, b}, types.NewTuple(v("a", a), v("b", b)), types.NewTuple(v("", res)), false)
		sc.Insert(types.NewFunc(token.NoPos, pkg, n, sig))
	}
	// same[T](a, b T) bool: identical values (floats compared bitwise-structurally, so NaN is same as NaN)
	{
		tp := mkTP("T")
		sig := types.NewSignatureType(nil, nil, []*types.TypeParam{tp}, types.NewTuple(v("a", tp), v("b", tp)), types.NewTuple(v("", boolT)), false)
		sc.Insert(types.NewFunc(token.NoPos, pkg, "same", sig))
	}
	// has[K comparable, V any](m map[K]V, k K) bool
	{
		k := types.NewTypeParam(types.NewTypeName(token.NoPos, pkg, "K", nil), types.Universe.Lookup("comparable").Type())
		vv := mkTP("V")
		sig := types.NewSignatureType(nil, nil, []*types.TypeParam{k, vv}, types.NewTuple(v("m", types.NewMap(k, vv)), v("k", k)), types.NewTuple(v("", boolT)), false)
		sc.Insert(types.NewFunc(token.NoPos, pkg, "has", sig))
	}
	// isnan(float64) bool, tns(time.Time)-like helpers are provided as models of real functions.
	f64 := types.Typ[types.Float64]
	sc.Insert(types.NewFunc(token.NoPos, pkg, "isnan", types.NewSignatureType(nil, nil, nil, types.NewTuple(v("x", f64)), types.NewTuple(v("", boolT)), false)))
	sc.Insert(types.NewFunc(token.NoPos, pkg, "isinf", types.NewSignatureType(nil, nil, nil, types.NewTuple(v("x", f64)), types.NewTuple(v("", boolT)), false)))
	// hash64(s string) uint64: the 64-bit xxhash of the bytes of s (the uninterpreted function the
	// xxhash model uses for Digest.Sum64)
	sc.Insert(types.NewFunc(token.NoPos, pkg, "hash64", types.NewSignatureType(nil, nil, nil, types.NewTuple(v("s", types.Typ[types.String])), types.NewTuple(v("", types.Typ[types.Uint64])), false)))
	// rangepos(): byte position of the string iterator of the loop the clause belongs to
	sc.Insert(types.NewFunc(token.NoPos, pkg, "rangepos", types.NewSignatureType(nil, nil, nil, nil, types.NewTuple(v("", intT)), false)))
	// rangedone(): the map-range loop the clause belongs to has just been told by the runtime
	// that no key is left (the `ok` of its last `next` was false); false inside the body
	sc.Insert(types.NewFunc(token.NoPos, pkg, "rangedone", types.NewSignatureType(nil, nil, nil, nil, types.NewTuple(v("", boolT)), false)))
	// backedge(), returned()
	for _, n := range []string{"backedge", "returned"} {
		sc.Insert(types.NewFunc(token.NoPos, pkg, n, types.NewSignatureType(nil, nil, nil, nil, types.NewTuple(v("", boolT)), false)))
	}
}

// ---- evaluation

func (e *SpecEnv) fail(f string, a ...any) {
	unsupp("spec %s: %s", e.label, fmt.Sprintf(f, a...))
}

func (e *SpecEnv) evalBool(text string) *Term {
	pc := e.ex.parseClause(e.pkg, e.pos, text)
	if pc.err != nil {
		e.fail("%v", pc.err)
	}
	e.info = pc.info
	e.ex.spec++
	defer func() { e.ex.spec-- }()
	v := e.eval(pc.expr)
	t, ok := v.(*Term)
	if !ok || t.Sort != SBool {
		e.fail("clause is not boolean: %s", text)
	}
	return t
}

func (e *SpecEnv) evalAny(text string) Val {
	pc := e.ex.parseClause(e.pkg, e.pos, text)
	if pc.err != nil {
		e.fail("%v", pc.err)
	}
	e.info = pc.info
	e.ex.spec++
	defer func() { e.ex.spec-- }()
	return e.eval(pc.expr)
}

func (e *SpecEnv) typeOf(x ast.Expr) types.Type {
	if tv, ok := e.info.Types[x]; ok {
		return e.resolve(tv.Type)
	}
	if id, ok := x.(*ast.Ident); ok {
		if o := e.info.Uses[id]; o != nil {
			return e.resolve(o.Type())
		}
	}
	e.fail("no type for expression")
	return nil
}

// resolve substitutes the type parameters of a generic function by the type arguments of the
// instance under verification.
func (e *SpecEnv) resolve(t types.Type) types.Type {
	if len(e.tparams) == 0 {
		return t
	}
	return substType(t, e.tparams)
}

func substType(t types.Type, m map[*types.TypeParam]types.Type) types.Type {
	switch x := t.(type) {
	case *types.TypeParam:
		if r, ok := m[x]; ok {
			return r
		}
		// match by name+index (method receivers re-declare their type parameters)
		for k, r := range m {
			if k.Obj().Name() == x.Obj().Name() && k.Index() == x.Index() {
				return r
			}
		}
		return t
	case *types.Pointer:
		return types.NewPointer(substType(x.Elem(), m))
	case *types.Slice:
		return types.NewSlice(substType(x.Elem(), m))
	case *types.Named:
		if x.TypeArgs().Len() == 0 {
			return t
		}
		var targs []types.Type
		changed := false
		for i := 0; i < x.TypeArgs().Len(); i++ {
			a := substType(x.TypeArgs().At(i), m)
			if a != x.TypeArgs().At(i) {
				changed = true
			}
			targs = append(targs, a)
		}
		if !changed {
			return t
		}
		if inst, err := types.Instantiate(nil, x.Origin(), targs, false); err == nil {
			return inst
		}
	}
	return t
}

func (e *SpecEnv) state() *State {
	if e.inOld {
		return e.old
	}
	return e.st
}

func (e *SpecEnv) eval(x ast.Expr) Val {
	if tv, ok := e.info.Types[x]; ok && tv.Value != nil {
		t := tv.Type
		if b, ok := t.(*types.Basic); ok && b.Info()&types.IsUntyped != 0 {
			t = types.Default(t)
		}
		if kindOf(t) == kLeaf {
			return constVal(tv.Value, t)
		}
	}
	switch n := x.(type) {
	case *ast.ParenExpr:
		return e.eval(n.X)
	case *ast.Ident:
		return e.ident(n)
	case *ast.BasicLit:
		tv := e.info.Types[n]
		return constVal(tv.Value, types.Default(tv.Type))
	case *ast.UnaryExpr:
		v := e.eval(n.X)
		switch n.Op {
		case token.NOT:
			return Not(v.(*Term))
		case token.SUB:
			t := v.(*Term)
			if t.Sort == SF64 {
				return FOp("fp.neg", t)
			}
			return Neg(t)
		case token.ADD:
			return v
		case token.AND:
			return e.addrOf(n.X)
		}
	case *ast.BinaryExpr:
		switch n.Op {
		case token.LAND:
			return And(e.eval(n.X).(*Term), e.eval(n.Y).(*Term))
		case token.LOR:
			return Or(e.eval(n.X).(*Term), e.eval(n.Y).(*Term))
		}
		a, b := e.eval(n.X), e.eval(n.Y)
		t := e.typeOf(n.X)
		if bt, ok := t.(*types.Basic); ok && bt.Info()&types.IsUntyped != 0 {
			t = e.typeOf(n.Y)
		}
		if bt, ok := t.(*types.Basic); ok && bt.Kind() == types.UntypedNil {
			t = e.typeOf(n.Y)
		}
		a, b = e.coerce(a, b)
		return e.ex.binop(nil, e.state(), n.Op, a, b, t, token.NoPos)
	case *ast.StarExpr:
		p := e.eval(n.X)
		return e.ex.load(e.frame, e.state(), p, e.typeOf(n))
	case *ast.SelectorExpr:
		return e.selector(n)
	case *ast.IndexExpr:
		return e.index(n)
	case *ast.SliceExpr:
		return e.sliceExpr(n)
	case *ast.CallExpr:
		return e.call(n)
	case *ast.TypeAssertExpr:
		iv := e.eval(n.X).(*Agg)
		t := e.typeOf(n)
		if pointerShaped(t) {
			return iv.F[1]
		}
		if _, isI := t.Underlying().(*types.Interface); isI {
			return iv
		}
		return e.state().heap.load(iv.F[1].(*Term), t, nil)
	case *ast.CompositeLit:
		t := e.typeOf(n)
		if st, ok := t.Underlying().(*types.Struct); ok {
			a := zeroVal(t).(*Agg)
			for i, el := range n.Elts {
				if kv, ok := el.(*ast.KeyValueExpr); ok {
					name := kv.Key.(*ast.Ident).Name
					for j := 0; j < st.NumFields(); j++ {
						if st.Field(j).Name() == name {
							a.F[j] = e.eval(kv.Value)
						}
					}
				} else {
					a.F[i] = e.eval(el)
				}
			}
			return a
		}
	}
	e.fail("unsupported expression %T", x)
	return nil
}

// coerce aligns nil literals with the other operand's shape.
func (e *SpecEnv) coerce(a, b Val) (Val, Val) {
	isNil := func(v Val) bool { t, ok := v.(*Term); return ok && t.Op == "null" }
	if isNil(a) {
		switch y := b.(type) {
		case *Agg:
			if len(y.F) == 2 {
				return &Agg{F: []Val{IntT(0), Null()}}, b
			}
			if len(y.F) == 4 {
				return &Agg{F: []Val{Null(), IntT(0), IntT(0), IntT(0)}}, b
			}
		}
	}
	if isNil(b) {
		switch x := a.(type) {
		case *Agg:
			if len(x.F) == 2 {
				return a, &Agg{F: []Val{IntT(0), Null()}}
			}
			if len(x.F) == 4 {
				return a, &Agg{F: []Val{Null(), IntT(0), IntT(0), IntT(0)}}
			}
		}
	}
	return a, b
}

func (e *SpecEnv) ident(n *ast.Ident) Val {
	obj := e.info.Uses[n]
	if obj == nil {
		e.fail("unresolved identifier %s", n.Name)
	}
	switch o := obj.(type) {
	case *types.Nil:
		return Null()
	case *types.Const:
		return constVal(o.Val(), o.Type())
	case *types.Var:
		if e.inOld {
			if v, ok := e.entry[o]; ok {
				return v
			}
		}
		if v, ok := e.objs[o]; ok {
			return v
		}
		if o.Name() == "rangeindex" && e.frame != nil && e.loop != nil {
			// the hidden index cell of a range-over-slice loop
			for _, in := range e.loopPreheaderAllocs() {
				if in.Comment == "rangeindex" {
					return e.readCell(in)
				}
			}
			e.fail("loop has no rangeindex")
		}
		if o.Parent() == o.Pkg().Scope() {
			// package-level variable
			g := e.ex.findGlobal(o)
			if g == nil {
				e.fail("global %s not found", o.Name())
			}
			return e.ex.load(e.frame, e.state(), e.ex.globalPtr(g), o.Type())
		}
		if e.frame != nil {
			if a, ok := e.frame.allocByPos[o.Pos()]; ok {
				return e.readCell(a)
			}
			// variable captured from the enclosing function (free variable of a closure)
			for k, fv := range e.frame.fn.FreeVars {
				if fv.Name() == o.Name() && fv.Pos() == o.Pos() && k < len(e.frame.bindings) {
					return e.ex.load(e.frame, e.state(), e.frame.bindings[k], elemOfPtr(fv.Type()))
				}
			}
			// parameter without spill cell?
			if v, ok := e.entry[o]; ok {
				return v
			}
		}
		if e.cfn != nil {
			// free variable of a closure whose contract is evaluated at its call site
			for k, fv := range e.cfn.FreeVars {
				if fv.Name() == o.Name() && fv.Pos() == o.Pos() && k < len(e.cbind) {
					return e.ex.load(nil, e.state(), e.cbind[k], elemOfPtr(fv.Type()))
				}
			}
		}
		e.fail("variable %s is not accessible here", o.Name())
	}
	e.fail("identifier %s (%T) not supported", n.Name, obj)
	return nil
}

func (e *SpecEnv) loopPreheaderAllocs() []*ssa.Alloc {
	// rangeindex cell is allocated in the (unique) forward predecessor of the loop head
	var out []*ssa.Alloc
	for _, p := range e.loop.Preds {
		if e.frame.li.isBack[[2]int{p.Index, e.loop.Index}] {
			continue
		}
		for _, in := range p.Instrs {
			if a, ok := in.(*ssa.Alloc); ok {
				out = append(out, a)
			}
		}
	}
	// latest first
	for i, j := 0, len(out)-1; i < j; i, j = i+1, j-1 {
		out[i], out[j] = out[j], out[i]
	}
	return out
}

func (e *SpecEnv) readCell(a *ssa.Alloc) Val {
	st := e.state()
	et := elemOfPtr(a.Type())
	if !a.Heap {
		v, ok := st.cells[a]
		if !ok {
			return freshVal(et, "undef."+a.Comment, nil)
		}
		return v
	}
	p, ok := e.frame.regs[a]
	if !ok {
		return freshVal(et, "undef."+a.Comment, nil)
	}
	return e.ex.load(e.frame, st, p, et)
}

func (ex *Exec) findGlobal(o *types.Var) *ssa.Global {
	sp := ex.prog.SSA.Package(o.Pkg())
	if sp == nil {
		return nil
	}
	g, _ := sp.Members[o.Name()].(*ssa.Global)
	return g
}

func (e *SpecEnv) selector(n *ast.SelectorExpr) Val {
	if sel, ok := e.info.Selections[n]; ok {
		switch sel.Kind() {
		case types.FieldVal:
			v := e.eval(n.X)
			t := e.typeOf(n.X)
			for _, idx := range sel.Index() {
				// implicit dereference
				if pt, ok := t.Underlying().(*types.Pointer); ok {
					v = e.ex.load(e.frame, e.state(), v, pt.Elem())
					t = pt.Elem()
				}
				st := t.Underlying().(*types.Struct)
				v = v.(*Agg).F[idx]
				t = st.Field(idx).Type()
			}
			return v
		case types.MethodExpr:
			// T.Method: the thunk the compiler builds for the method expression
			m := sel.Obj().(*types.Func)
			for fn := range e.ex.prog.All {
				if fn.Synthetic != "" && fn.Name() == m.Name()+"$thunk" && len(fn.Params) > 0 && types.Identical(fn.Params[0].Type(), sel.Recv()) {
					return &FuncVal{Fn: fn}
				}
			}
			e.fail("no thunk found for method expression %s.%s", sel.Recv(), m.Name())
		}
		e.fail("method value in specification")
	}
	// qualified identifier pkg.X
	obj := e.info.Uses[n.Sel]
	switch o := obj.(type) {
	case *types.Const:
		return constVal(o.Val(), o.Type())
	case *types.Var:
		g := e.ex.findGlobal(o)
		if g == nil {
			e.fail("global %s not found", o.Name())
		}
		return e.ex.load(e.frame, e.state(), e.ex.globalPtr(g), o.Type())
	}
	e.fail("unsupported selector %s", n.Sel.Name)
	return nil
}

func (e *SpecEnv) index(n *ast.IndexExpr) Val {
	t := e.typeOf(n.X)
	switch u := t.Underlying().(type) {
	case *types.Map:
		m := e.eval(n.X).(*Term)
		k := e.eval(n.Index).(*Term)
		v, _ := e.state().heap.mapGet(m, u, k)
		return v
	case *types.Slice:
		s := e.eval(n.X).(*Agg)
		i := e.eval(n.Index).(*Term)
		return e.state().heap.load(Elt(s.F[0].(*Term), Add(s.F[1].(*Term), i)), u.Elem(), nil)
	case *types.Basic:
		s := e.eval(n.X).(*Term)
		return SAt(s, e.eval(n.Index).(*Term))
	case *types.Array:
		a := e.eval(n.X).(*Agg)
		return getPath(a, []pathElem{{Index: e.eval(n.Index).(*Term)}})
	case *types.Pointer:
		if at, ok := u.Elem().Underlying().(*types.Array); ok {
			p := e.eval(n.X)
			i := e.eval(n.Index).(*Term)
			if pt, ok := p.(*Term); ok {
				return e.state().heap.load(Elt(pt, i), at.Elem(), nil)
			}
		}
	}
	e.fail("unsupported index expression on %s", t)
	return nil
}

func (e *SpecEnv) sliceExpr(n *ast.SliceExpr) Val {
	t := e.typeOf(n.X)
	base := e.eval(n.X)
	lo := IntT(0)
	if n.Low != nil {
		lo = e.eval(n.Low).(*Term)
	}
	switch t.Underlying().(type) {
	case *types.Basic:
		s := base.(*Term)
		hi := SLen(s)
		if n.High != nil {
			hi = e.eval(n.High).(*Term)
		}
		return SSub(s, lo, hi)
	case *types.Slice:
		s := base.(*Agg)
		hi := s.F[2].(*Term)
		if n.High != nil {
			hi = e.eval(n.High).(*Term)
		}
		return &Agg{F: []Val{s.F[0], Add(s.F[1].(*Term), lo), Sub(hi, lo), Sub(s.F[3].(*Term), lo)}}
	}
	e.fail("unsupported slice expression")
	return nil
}

func (e *SpecEnv) call(n *ast.CallExpr) Val {
	// conversion?
	if tv, ok := e.info.Types[n.Fun]; ok && tv.IsType() {
		v := e.eval(n.Args[0])
		from := e.typeOf(n.Args[0])
		if b, ok := from.(*types.Basic); ok && b.Info()&types.IsUntyped != 0 {
			from = types.Default(from)
		}
		if _, isI := tv.Type.Underlying().(*types.Interface); isI {
			return e.ex.makeInterface(e.state(), v, from)
		}
		return e.ex.convert(nil, e.state(), v, from, tv.Type)
	}
	// strip instantiation f[T]
	fun := n.Fun
	var targs []types.Type
	if ix, ok := fun.(*ast.IndexExpr); ok {
		if tv, ok := e.info.Types[ix.Index]; ok && tv.IsType() {
			fun = ix.X
			targs = []types.Type{tv.Type}
		}
	}
	// call of a function value (variable / field / result of function type)
	if tv, ok := e.info.Types[fun]; ok && !tv.IsType() {
		if _, isSig := tv.Type.Underlying().(*types.Signature); isSig {
			isFuncObj := false
			switch f := fun.(type) {
			case *ast.Ident:
				_, isFuncObj = e.info.Uses[f].(*types.Func)
				if _, b := e.info.Uses[f].(*types.Builtin); b {
					isFuncObj = true
				}
			case *ast.SelectorExpr:
				_, isFuncObj = e.info.Uses[f.Sel].(*types.Func)
			}
			if !isFuncObj {
				return e.callFuncValue(n, fun, tv.Type.Underlying().(*types.Signature))
			}
		}
	}
	switch f := fun.(type) {
	case *ast.Ident:
		obj := e.info.Uses[f]
		switch o := obj.(type) {
		case *types.Builtin:
			return e.builtin(o.Name(), n)
		case *types.Func:
			if o.Pkg() == e.pkg.Types && o.Pos() == token.NoPos {
				return e.intrinsic(o.Name(), n, targs)
			}
			return e.callFunc(o, nil, n.Args)
		}
	case *ast.SelectorExpr:
		if sel, ok := e.info.Selections[f]; ok {
			if sel.Kind() == types.MethodVal {
				m := sel.Obj().(*types.Func)
				return e.callFunc(m, f.X, n.Args)
			}
		} else if o, ok := e.info.Uses[f.Sel].(*types.Func); ok {
			return e.callFunc(o, nil, n.Args)
		}
	}
	e.fail("unsupported call in specification")
	return nil
}

func (e *SpecEnv) builtin(name string, n *ast.CallExpr) Val {
	switch name {
	case "len", "cap":
		t := e.typeOf(n.Args[0])
		v := e.eval(n.Args[0])
		switch t.Underlying().(type) {
		case *types.Slice:
			if name == "len" {
				return v.(*Agg).F[2]
			}
			return v.(*Agg).F[3]
		case *types.Basic:
			return SLen(v.(*Term))
		case *types.Map:
			// a nil map is empty
			return Ite(Eq(v.(*Term), Null()), IntT(0), e.state().heap.mapLen(v.(*Term)))
		case *types.Array:
			return IntT(t.Underlying().(*types.Array).Len())
		}
	case "min", "max":
		a, b := e.eval(n.Args[0]).(*Term), e.eval(n.Args[1]).(*Term)
		if name == "min" {
			return Ite(Le(a, b), a, b)
		}
		return Ite(Ge(a, b), a, b)
	}
	e.fail("builtin %s not supported in specification", name)
	return nil
}

func (e *SpecEnv) intrinsic(name string, n *ast.CallExpr, targs []types.Type) Val {
	switch name {
	case "old", "pre":
		if e.old == nil {
			e.fail("old() not available here")
		}
		sv := e.inOld
		e.inOld = true
		v := e.eval(n.Args[0])
		e.inOld = sv
		return v
	case "fresh":
		var ptr *Term
		switch x := e.eval(n.Args[0]).(type) {
		case *Term:
			ptr = x
		case *Agg:
			if _, isSlice := e.resolve(e.info.Types[n.Args[0]].Type).Underlying().(*types.Slice); isSlice {
				ptr = x.F[0].(*Term)
			}
		}
		if ptr == nil || ptr.Sort != SPtr {
			e.fail("fresh() expects a pointer, slice or map")
		}
		return Or(Eq(ptr, Null()), P.mk("(_ is new)", "", SBool, []*Term{ptr}, nil))
	case "precedes":
		a, ok1 := n.Args[0].(*ast.Ident)
		b, ok2 := n.Args[1].(*ast.Ident)
		if !ok1 || !ok2 || !strings.HasSuffix(a.Name, "_called") || !strings.HasSuffix(b.Name, "_called") {
			e.fail("precedes() expects two <capture>_called arguments")
		}
		sa, okA := e.capSeq[a.Name]
		sb, okB := e.capSeq[b.Name]
		both := And(e.eval(n.Args[0]).(*Term), e.eval(n.Args[1]).(*Term))
		if !okA || !okB {
			return False()
		}
		// symbolic execution records calls in program order inside an acyclic region (blocks are
		// executed in topological order), so the static order decides
		return And(both, BoolT(sa < sb))
	case "before":
		id, ok := n.Args[0].(*ast.Ident)
		if !ok || !strings.HasSuffix(id.Name, "_called") {
			e.fail("before() expects <capture>_called as its first argument")
		}
		pre := e.capPre[id.Name]
		if pre == nil {
			// the call did not run on this path (or its pre-state is ambiguous): unconstrained value
			t := e.resolve(e.info.Types[n.Args[1]].Type)
			return freshVal(t, "before."+id.Name, nil)
		}
		sub := *e
		sub.st = pre
		sub.inOld = false
		return sub.eval(n.Args[1])
	case "outer":
		// the state at the head of the enclosing loop's current iteration
		if e.frame == nil || e.loop == nil {
			e.fail("outer() is only available in clauses of a nested loop")
		}
		var parent *ssa.BasicBlock
		for h, body := range e.frame.li.body {
			if h != e.loop && body[e.loop] && (parent == nil || len(body) < len(e.frame.li.body[parent])) {
				parent = h
			}
		}
		if parent == nil {
			e.fail("outer(): the loop is not nested in another loop")
		}
		snap := e.frame.headSnap[e.frame.li.ord[parent]]
		if snap == nil {
			e.fail("outer(): no snapshot of the enclosing loop head")
		}
		sub := *e
		sub.st = snap
		sub.inOld = false
		return sub.eval(n.Args[0])
	case "head":
		if e.head == nil {
			e.fail("head() not available here")
		}
		sub := *e
		sub.st = e.head
		sub.inOld = false
		return sub.eval(n.Args[0])
	case "forall", "exists":
		lo, hi := e.eval(n.Args[0]).(*Term), e.eval(n.Args[1]).(*Term)
		fl, ok := n.Args[2].(*ast.FuncLit)
		if !ok || len(fl.Body.List) != 1 {
			e.fail("%s expects a func literal with a single return", name)
		}
		ret, ok := fl.Body.List[0].(*ast.ReturnStmt)
		if !ok || len(ret.Results) != 1 {
			e.fail("%s expects a func literal with a single return", name)
		}
		pname := fl.Type.Params.List[0].Names[0]
		pobj := e.info.Defs[pname]
		bv := BoundVar(pname.Name, SInt)
		if e.objs == nil {
			e.objs = map[types.Object]Val{}
		}
		e.objs[pobj] = bv
		body := e.eval(ret.Results[0]).(*Term)
		delete(e.objs, pobj)
		rng := And(Le(lo, bv), Lt(bv, hi))
		var q *Term
		if name == "forall" {
			q = Implies(rng, body)
		} else {
			q = And(rng, body)
		}
		// Re-base the bound variable on the slice offset it is added to, so that element
		// addresses elt(arr, j) contain no arithmetic and E-matching finds the instances.
		if off := findEltOffset(q, bv); off != nil {
			j := BoundVar(pname.Name+"@", SInt)
			q = Subst(q, bv, Sub(j, off))
			bv = j
		}
		if name == "forall" {
			return Forall([]*Term{bv}, q)
		}
		return Exists([]*Term{bv}, q)
	case "typeis":
		if len(targs) != 1 {
			e.fail("typeis needs a type argument")
		}
		iv := e.eval(n.Args[0]).(*Agg)
		return Eq(iv.F[0].(*Term), IntT(int64(e.ex.typeID(targs[0]))))
	case "as":
		iv := e.eval(n.Args[0]).(*Agg)
		if pointerShaped(targs[0]) {
			return iv.F[1]
		}
		return e.state().heap.load(iv.F[1].(*Term), targs[0], nil)
	case "ite":
		c := e.eval(n.Args[0]).(*Term)
		return iteVal(c, e.eval(n.Args[1]), e.eval(n.Args[2]))
	case "first", "second":
		var parts []Val
		if len(n.Args) == 1 {
			if t, ok := e.eval(n.Args[0]).(*Agg); ok {
				parts = t.F
			}
		} else if len(n.Args) == 2 {
			parts = []Val{e.eval(n.Args[0]), e.eval(n.Args[1])}
		}
		if len(parts) != 2 {
			e.fail("%s expects a two-result call", name)
		}
		if name == "first" {
			return parts[0]
		}
		return parts[1]
	case "same":
		a, b := e.eval(n.Args[0]), e.eval(n.Args[1])
		a, b = e.coerce(a, b)
		la, lb := flatten(a, nil), flatten(b, nil)
		if len(la) != len(lb) {
			e.fail("same() on values of different shape")
		}
		var cs []*Term
		for i := range la {
			cs = append(cs, SameVal(la[i], lb[i]))
		}
		return And(cs...)
	case "has":
		m := e.eval(n.Args[0]).(*Term)
		mt := e.typeOf(n.Args[0]).Underlying().(*types.Map)
		return e.state().heap.mapHas(m, mt, e.eval(n.Args[1]).(*Term))
	case "isnan":
		return FOp("fp.isNaN", e.eval(n.Args[0]).(*Term))
	case "isinf":
		return FOp("fp.isInfinite", e.eval(n.Args[0]).(*Term))
	case "hash64":
		return UF("xxhash.sum64", SInt, e.eval(n.Args[0]).(*Term))
	case "rangepos":
		if e.frame == nil || e.loop == nil {
			e.fail("rangepos() outside a loop clause")
		}
		for b := range e.frame.li.body[e.loop] {
			for _, instr := range b.Instrs {
				if nx, ok := instr.(*ssa.Next); ok && nx.IsString {
					if p, ok := e.state().iters[nx.Iter.(*ssa.Range)]; ok {
						return p
					}
				}
			}
		}
		e.fail("loop has no string range iterator")
	case "rangedone":
		if e.frame == nil || e.loop == nil {
			e.fail("rangedone() outside a loop clause")
		}
		for _, instr := range e.loop.Instrs {
			if nx, ok := instr.(*ssa.Next); ok && !nx.IsString {
				if p, ok := e.state().iters[nx.Iter.(*ssa.Range)]; ok {
					return Not(p)
				}
			}
		}
		e.fail("loop has no map range iterator")
	case "backedge", "returned":
		if v, ok := e.objs[nil]; ok {
			_ = v
		}
		e.fail("%s() not available here", name)
	}
	if sf := e.ex.specByName(e.pkg.PkgPath, name); sf != nil {
		var args []Val
		for _, a := range n.Args {
			args = append(args, e.eval(a))
		}
		return e.callSpecFunc(sf, args)
	}
	// ghost functions declared in contract files
	if g := e.ex.ghostByName(e.pkg.PkgPath, name); g != nil {
		var args []*Term
		for _, a := range n.Args {
			args = flatten(e.eval(a), args)
		}
		rt := e.typeOf(n)
		return e.ex.ghostApply(e.state(), g, args, rt)
	}
	e.fail("unknown intrinsic %s", name)
	return nil
}

// callFunc evaluates a call to a real function inside a specification: modelled library functions,
// pure functions (uninterpreted + their own postcondition), inline functions.
func (e *SpecEnv) callFunc(o *types.Func, recv ast.Expr, args []ast.Expr) Val {
	var vals []Val
	var argTypes []types.Type
	if recv != nil {
		rv := e.eval(recv)
		rt := e.typeOf(recv)
		sig := o.Type().(*types.Signature)
		// implicit & or * on receiver
		if sig.Recv() != nil {
			_, wantPtr := sig.Recv().Type().(*types.Pointer)
			_, havePtr := rt.Underlying().(*types.Pointer)
			if !wantPtr && havePtr {
				rv = e.ex.load(e.frame, e.state(), rv, rt.Underlying().(*types.Pointer).Elem())
				rt = rt.Underlying().(*types.Pointer).Elem()
			} else if wantPtr && !havePtr {
				if _, isI := rt.Underlying().(*types.Interface); !isI {
					e.fail("cannot take address of receiver in specification")
				}
			}
		}
		vals = append(vals, rv)
		argTypes = append(argTypes, rt)
	}
	for _, a := range args {
		vals = append(vals, e.eval(a))
		argTypes = append(argTypes, e.typeOf(a))
	}
	full := funcFullName(o)
	if r, ok := e.ex.modelCall(full, vals, e.state(), o.Type().(*types.Signature)); ok {
		if len(r) == 1 {
			return r[0]
		}
		return &Agg{F: r}
	}
	// method of a type-parameter constraint resolved to the instance's concrete method
	if recv != nil {
		sig := o.Type().(*types.Signature)
		if sig.Recv() != nil {
			_, declOnIface := sig.Recv().Type().Underlying().(*types.Interface)
			_, recvIsIface := argTypes[0].Underlying().(*types.Interface)
			if declOnIface && !recvIsIface {
				if sel := e.ex.prog.SSA.MethodSets.MethodSet(argTypes[0]).Lookup(o.Pkg(), o.Name()); sel != nil {
					if cfn := e.ex.prog.SSA.MethodValue(sel); cfn != nil {
						if c, ok := cfn.Object().(*types.Func); ok {
							o = c
						}
						if con := e.ex.contractFor(cfn); con != nil && (con.Pure || con.PureHeap) {
							return wrapVals(e.ex.pureApply(cfn, con, vals, e.state(), true))
						} else if (con != nil && con.Inline) || cfn.Synthetic != "" {
							return wrapVals(e.ex.inlineCall(e.frame, e.state().clone(), cfn, vals, nil))
						}
					}
				}
			}
		}
	}
	// interface method?
	if recv != nil {
		if _, isI := argTypes[0].Underlying().(*types.Interface); isI {
			r := e.ex.abstractInvoke(e.state(), argTypes[0], o, vals)
			if len(r) == 1 {
				return r[0]
			}
			return &Agg{F: r}
		}
	}
	fn := e.ex.prog.SSA.FuncValue(o)
	if fn == nil && recv != nil {
		if sel := e.ex.prog.SSA.MethodSets.MethodSet(argTypes[0]).Lookup(o.Pkg(), o.Name()); sel != nil {
			fn = e.ex.prog.SSA.MethodValue(sel)
		}
	}
	if fn != nil {
		if con := e.ex.contractFor(fn); con != nil && (con.Pure || con.PureHeap) {
			r := e.ex.pureApply(fn, con, vals, e.state(), true)
			if len(r) == 1 {
				return r[0]
			}
			return &Agg{F: r}
		}
		if con := e.ex.contractFor(fn); (con != nil && con.Inline) || fn.Synthetic != "" {
			res := e.ex.inlineCall(e.frame, e.state().clone(), fn, vals, nil)
			if len(res) == 1 {
				return res[0]
			}
			return &Agg{F: res}
		}
	}
	e.fail("call to %s in specification: function is neither modelled, pure nor inline", full)
	return nil
}

func funcFullName(o *types.Func) string {
	sig := o.Type().(*types.Signature)
	if r := sig.Recv(); r != nil {
		t := r.Type()
		star := ""
		if pt, ok := t.(*types.Pointer); ok {
			star = "*"
			t = pt.Elem()
		}
		if nt, ok := t.(*types.Named); ok && nt.Obj().Pkg() != nil {
			return "(" + star + nt.Obj().Pkg().Path() + "." + nt.Obj().Name() + ")." + o.Name()
		}
		return "(?)." + o.Name()
	}
	if o.Pkg() != nil {
		return o.Pkg().Path() + "." + o.Name()
	}
	return o.Name()
}

var _ = constant.MakeBool
var _ = strings.TrimSpace

// findEltOffset looks for an address elt(A, off + k) with k the bound variable (coefficient 1) and
// off free of bound variables; returns off.
func findEltOffset(t, k *Term) *Term {
	seen := map[int]bool{}
	var found *Term
	var rec func(t *Term)
	rec = func(t *Term) {
		if found != nil || seen[t.id] || !t.hasBound {
			return
		}
		seen[t.id] = true
		if t.Op == "elt" {
			idx := t.Args[1]
			if idx != k && idx.hasBound {
				off := Sub(idx, k)
				if !off.hasBound {
					// drop the constant part: j+off+1 and j+off share the base off
					if off.Op == "+" {
						if c, ok := off.Args[len(off.Args)-1].IsInt(); ok {
							off = Sub(off, IntT(c))
						}
					}
					if n, ok := off.IsInt(); !ok {
						_ = n
						found = off
						return
					}
				}
			}
		}
		for _, a := range t.Args {
			rec(a)
		}
	}
	rec(t)
	return found
}

func wrapVals(r []Val) Val {
	if len(r) == 1 {
		return r[0]
	}
	return &Agg{F: r}
}

// callFuncValue evaluates a call through a function value inside a specification: known closures
// are unfolded (also through an ite-tree of closure ids); otherwise the call is an uninterpreted
// function of the function value and its arguments (the same symbol the code's assume_pure uses).
func (e *SpecEnv) callFuncValue(n *ast.CallExpr, fun ast.Expr, sig *types.Signature) Val {
	fv := e.eval(fun)
	var args []Val
	for _, a := range n.Args {
		args = append(args, e.eval(a))
	}
	run := func(f *FuncVal) []Val {
		return e.ex.inlineCall(nil, e.state().clone(), f.Fn, args, f.Bindings)
	}
	txt := e.ex.prog.nodeTextOf(fun)
	uf := func(f *Term) []Val {
		flat := append([]*Term{f}, flatAll(args)...)
		var rets []Val
		for i := 0; i < sig.Results().Len(); i++ {
			rets = append(rets, ufVal(fmt.Sprintf("fv@%s.%d", txt, i), e.resolve(sig.Results().At(i).Type()), flat...))
		}
		return rets
	}
	var rec func(f *Term, depth int) []Val
	rec = func(f *Term, depth int) []Val {
		switch {
		case f.Op == "fnp":
			if id, ok := f.Args[0].IsInt(); ok && closureByID[int(id)] != nil {
				return run(closureByID[int(id)])
			}
		case f.Op == "ite" && depth < 32:
			x, y := rec(f.Args[1], depth+1), rec(f.Args[2], depth+1)
			out := make([]Val, len(x))
			for k := range x {
				out[k] = iteVal(f.Args[0], x[k], y[k])
			}
			return out
		}
		// Not syntactically resolved: case split over the closures of this signature seen so far
		// (the solver may still prove which one it is, e.g. through a frame axiom).
		out := uf(f)
		ids := make([]int, 0, len(closureByID))
		for id := range closureByID {
			ids = append(ids, id)
		}
		sort.Ints(ids)
		n := 0
		for _, id := range ids {
			c := closureByID[id]
			if n >= 8 || !sameSig(c.Fn.Signature, sig) {
				continue
			}
			n++
			r := run(c)
			for k := range out {
				out[k] = iteVal(Eq(f, FnPtr(id)), r[k], out[k])
			}
		}
		return out
	}
	switch f := fv.(type) {
	case *FuncVal:
		return wrapVals(run(f))
	case *Term:
		return wrapVals(rec(f, 0))
	}
	e.fail("call through unsupported function value")
	return nil
}

// fnLeaves collects fnp ids at the leaves of an ite-tree (null leaves are skipped).
func fnLeaves(t *Term, out map[int64]bool) bool {
	switch t.Op {
	case "fnp":
		n, _ := t.Args[0].IsInt()
		out[n] = true
		return true
	case "null":
		return true
	case "ite":
		return fnLeaves(t.Args[1], out) && fnLeaves(t.Args[2], out)
	}
	return false
}

// tryEvalBool evaluates a clause; ok=false when it refers to something not visible here
// (for instance a callee-local variable at a call site): such a clause is simply not assumed.
func (e *SpecEnv) tryEvalBool(text string) (t *Term, ok bool) {
	defer func() {
		if r := recover(); r != nil {
			if u, isU := r.(unsupported); isU && strings.Contains(u.msg, "not accessible here") {
				t, ok = nil, false
				return
			}
			panic(r)
		}
	}()
	return e.evalBool(text), true
}

func sameSig(a, b *types.Signature) bool {
	if a.Params().Len() != b.Params().Len() || a.Results().Len() != b.Results().Len() {
		return false
	}
	for i := 0; i < a.Params().Len(); i++ {
		if !types.Identical(a.Params().At(i).Type(), b.Params().At(i).Type()) {
			return false
		}
	}
	for i := 0; i < a.Results().Len(); i++ {
		if !types.Identical(a.Results().At(i).Type(), b.Results().At(i).Type()) {
			return false
		}
	}
	return true
}
