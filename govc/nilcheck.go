package main

import (
	"fmt"
	"go/ast"
	"go/token"
	"go/types"

	"golang.org/x/tools/go/ast/astutil"

	"golang.org/x/tools/go/ssa"
)

// Nil-dereference sweep (zero annotations, sweep targets only).
//
// A pointer, interface or function value is checked at the place it is dereferenced (field
// address, load / store through it, method invocation, call) when it has a *local nil
// provenance*: one leaf of its symbolic value is the nil literal (a zero-valued field or
// variable, a failed comma-ok assertion, a missing map entry) or the result of a call that also
// returns an error (the value before its error was looked at). Values of unknown provenance -
// parameters, receivers, fields of objects that existed before the call, results of calls
// without an error result - are assumed non-nil (standing assumption).
//
// To carry "the error was checked" across calls the sweep uses the value-or-error convention: a
// function returning (T, error) with T a pointer, interface or function type returns a non-nil T
// whenever the error is nil. The convention is assumed at every call and checked as an implicit
// obligation (kind valueorerror) on every function of the swept packages; a function that
// deliberately returns (nil, nil) fails that obligation and has to be named.

func (ex *Exec) nilSweep() bool { return ex.forceNoPanic && ex.spec == 0 }

func isErrorType(t types.Type) bool {
	n, ok := t.(*types.Named)
	return ok && n.Obj().Pkg() == nil && n.Obj().Name() == "error"
}

// nilLeaf returns the term whose being null / zero means "nil" for a value of type t.
func nilLeaf(v Val, t types.Type) (*Term, bool) {
	switch t.Underlying().(type) {
	case *types.Interface:
		if a, ok := v.(*Agg); ok && len(a.F) == 2 {
			if tg, ok := a.F[0].(*Term); ok {
				return tg, true
			}
		}
	case *types.Pointer, *types.Signature:
		if p, ok := v.(*Term); ok {
			return p, true
		}
	}
	return nil, false
}

func isNilTerm(t *Term) *Term {
	if t.Sort == SInt {
		return Eq(t, IntT(0))
	}
	return Eq(t, Null())
}

// afterCall marks results that come with an error as possibly nil and assumes the convention.
func (ex *Exec) afterCall(sig *types.Signature, rets []Val, what string, optOut bool) {
	if !ex.nilSweep() || sig == nil || sig.Results().Len() < 2 || len(rets) != sig.Results().Len() {
		return
	}
	last := sig.Results().Len() - 1
	if !isErrorType(sig.Results().At(last).Type()) {
		return
	}
	e, ok := rets[last].(*Agg)
	if !ok || len(e.F) != 2 {
		return
	}
	et, ok := e.F[0].(*Term)
	if !ok {
		return
	}
	for i := 0; i < last; i++ {
		leaf, ok := nilLeaf(rets[i], sig.Results().At(i).Type())
		if !ok || leaf.Op != "const" {
			continue
		}
		if ex.nilable == nil {
			ex.nilable = map[*Term]string{}
		}
		ex.nilable[leaf] = what
		if optOut {
			// the callee is declared to return (nil, nil) on purpose: nothing is assumed
			continue
		}
		ex.assumed["value-or-error convention: a call that returns a nil error returns a non-nil pointer / interface / function value (assumed at every call in the sweep; checked on every function of the swept packages as obligation `valueorerror`; assumed for dependencies and interface methods)"] = true
		ex.fact(nil, Implies(Eq(et, IntT(0)), Not(isNilTerm(leaf))))
	}
}

// nilProvenance reports why the value may be nil by local provenance ("" if it is not suspected).
func (ex *Exec) nilProvenance(t *Term, depth int) string {
	if t == nil || depth > 12 {
		return ""
	}
	switch t.Op {
	case "null":
		return "nil literal / zero value"
	case "int":
		if n, ok := t.IsInt(); ok && n == 0 && t.Sort == SInt {
			return "nil literal / zero value"
		}
	case "ite":
		if w := ex.nilProvenance(t.Args[1], depth+1); w != "" {
			return w
		}
		return ex.nilProvenance(t.Args[2], depth+1)
	case "const":
		if w, ok := ex.nilable[t]; ok {
			return w
		}
	}
	return ""
}

// derefCheck emits a nilderef obligation for a suspected value.
func (ex *Exec) derefCheck(fr *Frame, st *State, leaf *Term, pos token.Pos, what string) {
	if !ex.nilSweep() || leaf == nil {
		return
	}
	why := ex.nilProvenance(leaf, 0)
	if why == "" {
		return
	}
	ex.oblige(fr, st, "nilderef", ex.prog.derefText(pos), ex.nilGoal(leaf, 0), pos, fmt.Sprintf("%s is not nil here (may be nil: %s)", what, why))
}

// nilGoal: the value is none of its suspected leaves. Leaves of unknown provenance are non-nil by
// the standing assumption, so only the nil literal (never allowed) and marked results (must be
// proved non-nil) contribute.
func (ex *Exec) nilGoal(t *Term, depth int) *Term {
	switch t.Op {
	case "null":
		return False()
	case "int":
		if n, ok := t.IsInt(); ok && n == 0 && t.Sort == SInt {
			return False()
		}
	case "ite":
		if depth <= 12 {
			return And(Implies(t.Args[0], ex.nilGoal(t.Args[1], depth+1)), Implies(Not(t.Args[0]), ex.nilGoal(t.Args[2], depth+1)))
		}
	case "const":
		if _, ok := ex.nilable[t]; ok {
			return Not(isNilTerm(t))
		}
	}
	if depth > 12 {
		return Not(isNilTerm(t))
	}
	return True()
}

// valueOrErrorObligation: the implicit postcondition of the convention on a swept function.
func (ex *Exec) valueOrErrorObligation(fr *Frame, fn *ssa.Function) {
	if !ex.nilSweep() || (fr.con != nil && fr.con.MayReturnNil) {
		return
	}
	sig := fn.Signature
	if sig.Results().Len() < 2 {
		return
	}
	last := sig.Results().Len() - 1
	if !isErrorType(sig.Results().At(last).Type()) {
		return
	}
	for i := 0; i < last; i++ {
		rt := sig.Results().At(i).Type()
		var parts []*Term
		applicable := false
		for _, r := range fr.rets {
			if len(r.vals) != sig.Results().Len() {
				continue
			}
			leaf, ok := nilLeaf(r.vals[i], rt)
			e, ok2 := r.vals[last].(*Agg)
			if !ok || !ok2 {
				continue
			}
			applicable = true
			parts = append(parts, Implies(r.st.reach, Implies(Eq(e.F[0].(*Term), IntT(0)), ex.nilGoal(leaf, 0))))
		}
		if applicable {
			top := &State{reach: True()}
			ex.oblige(fr, top, "valueorerror", fmt.Sprintf("ret%d", i), And(parts...), token.NoPos, fmt.Sprintf("a nil error comes with a non-nil result %d", i))
		}
	}
}

// derefText names a dereference by its source text: the selector x.f, the star expression *p or
// the call whose receiver / function value is used.
func (pr *Program) derefText(pos token.Pos) string {
	f, src := pr.fileAt(pos)
	if f == nil {
		return "deref"
	}
	path, _ := astutil.PathEnclosingInterval(f, pos, pos)
	for _, n := range path {
		switch x := n.(type) {
		case *ast.SelectorExpr:
			if x.Sel.Pos() == pos || x.Pos() == pos {
				return pr.nodeText(x, src)
			}
		case *ast.StarExpr:
			if x.Star == pos {
				return pr.nodeText(x, src)
			}
		case *ast.CallExpr:
			if x.Lparen == pos {
				return pr.nodeText(x.Fun, src)
			}
		case *ast.DeferStmt:
			if x.Defer == pos {
				return pr.nodeText(x.Call.Fun, src)
			}
		case ast.Stmt:
			return "deref"
		}
	}
	return "deref"
}
