package main

// Models (assumed contracts) of dependency functions. Every model used is listed in the evidence.

import (
	"fmt"
	"go/types"
	"strings"

	"golang.org/x/tools/go/ssa"
)

type modelFn func(ex *Exec, args []Val, st *State, sig *types.Signature) []Val

type model struct {
	f    modelFn
	desc string
	pure bool
}

var models = map[string]*model{}

func reg(name, desc string, f modelFn) { models[name] = &model{f: f, desc: desc, pure: true} }

// regEff registers a model with heap effects (not usable inside loops without a loop frame).
func regEff(name, desc string, f modelFn) { models[name] = &model{f: f, desc: desc, pure: false} }

const digestStreamField = 9001
const bufferContentField = 9002
const builderContentField = 9003

func pureModel(full string) bool {
	if opaqueModels[full] {
		return true
	}
	m, ok := models[full]
	return ok && m.pure
}

// effectModel accounts for the heap effects of impure models during loop footprint computation.
func effectModel(full string, ef *loopEffects, c *ssa.CallCommon) bool {
	return false
}

// callbackModels: library functions that invoke a function-valued argument any number of times and
// have no other effect on the program heap (their own state is private); results are unconstrained.
var callbackModels = map[string]int{
	"(*github.com/go-faster/jx.Decoder).Obj":                       1,
	"(*github.com/go-faster/jx.Decoder).ObjBytes":                  1,
	"(*github.com/go-faster/jx.Decoder).Capture":                   1,
	"(*github.com/go-faster/jx.Decoder).Arr":                       1,
	"(go.opentelemetry.io/collector/pdata/pcommon.Map).Range":      1,
	"(go.opentelemetry.io/collector/pdata/pcommon.Slice).RemoveIf": 1,
}

// opaqueModels: library functions that do not touch the program heap; results are unconstrained
// (fresh values, older than anything allocated later).
var opaqueModels = map[string]bool{
	"github.com/go-faster/jx.DecodeStr":                                true,
	"github.com/go-faster/jx.DecodeBytes":                              true,
	"(*github.com/go-faster/jx.Decoder).Next":                          true,
	"(*github.com/go-faster/jx.Decoder).Str":                           true,
	"(*github.com/go-faster/jx.Decoder).StrBytes":                      true,
	"(*github.com/go-faster/jx.Decoder).Skip":                          true,
	"(*github.com/go-faster/jx.Decoder).Num":                           true,
	"(*github.com/go-faster/jx.Decoder).Null":                          true,
	"(*github.com/go-faster/jx.Decoder).Bool":                          true,
	"(*github.com/go-faster/jx.Decoder).Raw":                           true,
	"(github.com/go-faster/jx.Num).IsInt":                              true,
	"(github.com/go-faster/jx.Num).Int64":                              true,
	"(github.com/go-faster/jx.Num).Float64":                            true,
	"(github.com/go-faster/jx.Num).String":                             true,
	"github.com/go-logfmt/logfmt.NewDecoder":                           true,
	"(*github.com/go-logfmt/logfmt.Decoder).ScanRecord":                true,
	"(*github.com/go-logfmt/logfmt.Decoder).ScanKeyval":                true,
	"(*github.com/go-logfmt/logfmt.Decoder).Key":                       true,
	"(*github.com/go-logfmt/logfmt.Decoder).Value":                     true,
	"(*github.com/go-logfmt/logfmt.Decoder).Err":                       true,
	"strings.NewReader":                                                true,
	"slices.Equal":                                                     true,
	"os.Getenv":                                                        true,
	"(*os.File).Fd":                                                    true,
	"github.com/mattn/go-isatty.IsTerminal":                            true,
	"github.com/mattn/go-isatty.IsCygwinTerminal":                      true,
	"text/template.New":                                                true,
	"(*text/template.Template).Option":                                 true,
	"(*text/template.Template).Funcs":                                  true,
	"(*text/template.Template).Parse":                                  true,
	"go.opentelemetry.io/collector/pdata/pcommon.NewMap":               true,
	"(go.opentelemetry.io/collector/pdata/pcommon.Map).PutStr":         true,
	"(go.opentelemetry.io/collector/pdata/pcommon.TraceID).IsEmpty":    true,
	"(go.opentelemetry.io/collector/pdata/pcommon.SpanID).IsEmpty":     true,
	"(go.opentelemetry.io/collector/pdata/plog.SeverityNumber).String": true,
	"(*strings.Builder).Grow":                                          true,
	"(*text/scanner.Scanner).Init":                                     true,
	"(*github.com/spf13/cobra.Command).Context":                        true,
	"(*github.com/spf13/cobra.Command).OutOrStdout":                    true,
	"go.opentelemetry.io/collector/pdata/pcommon.NewValueSlice":        true,
	"go.opentelemetry.io/collector/pdata/pcommon.NewValueMap":          true,
	"go.opentelemetry.io/collector/pdata/pcommon.NewValueInt":          true,
	"go.opentelemetry.io/collector/pdata/pcommon.NewValueDouble":       true,
	"go.opentelemetry.io/collector/pdata/pcommon.NewValueBool":         true,
	"(go.opentelemetry.io/collector/pdata/pcommon.Value).Slice":        true,
	"(go.opentelemetry.io/collector/pdata/pcommon.Value).Map":          true,
	"(go.opentelemetry.io/collector/pdata/pcommon.Value).CopyTo":       true,
	"(go.opentelemetry.io/collector/pdata/pcommon.Slice).AppendEmpty":  true,
	"(go.opentelemetry.io/collector/pdata/pcommon.Map).PutEmpty":       true,
	"(*text/scanner.Scanner).TokenText":                                true,
	"(*text/scanner.Scanner).Pos":                                      true,
	"(*regexp.Regexp).FindStringSubmatch":                              true,
	"(*regexp.Regexp).SubexpNames":                                     true,
}

func (ex *Exec) modelCall(full string, args []Val, st *State, sig *types.Signature) ([]Val, bool) {
	if opaqueModels[full] {
		ex.assumed["model "+full+": does not touch the program heap; its results are unconstrained"] = true
		return ex.freshResults(st, sig, "lib"), true
	}
	m, ok := models[full]
	if !ok {
		return nil, false
	}
	ex.assumed["model "+full+": "+m.desc] = true
	return m.f(ex, args, st, sig), true
}

func tm(v Val) *Term {
	switch x := v.(type) {
	case *Term:
		return x
	case *FuncVal:
		return funcValPtr(x)
	}
	panic(unsupported{fmt.Sprintf("model expects leaf, got %T", v)})
}

func nilIface() Val { return &Agg{F: []Val{IntT(0), Null()}} }

func (ex *Exec) nonNilErr(kind string, deps ...*Term) Val {
	tag := UF("errtag@"+kind, SInt, deps...)
	pl := UF("errpl@"+kind, SPtr, deps...)
	f := Not(Eq(tag, IntT(0)))
	if !f.hasBound {
		ex.fact(nil, f)
	}
	return &Agg{F: []Val{tag, pl}}
}

func ufVal(name string, t types.Type, args ...*Term) Val {
	ls := typeLeaves(t, "", nil)
	leaves := make([]*Term, len(ls))
	for k, l := range ls {
		leaves[k] = UF(name+l.path, l.sort, args...)
	}
	p := 0
	return unflatten(t, leaves, &p)
}

func flatAll(args []Val) []*Term {
	var out []*Term
	for _, a := range args {
		out = flatten(a, out)
	}
	return out
}

func init() {
	// ---- strings
	reg("strings.Contains", "uninterpreted predicate; Contains(s, \"\") and Contains(s, s) hold", func(ex *Exec, a []Val, st *State, _ *types.Signature) []Val {
		s, sub := tm(a[0]), tm(a[1])
		r := UF("str.contains", SBool, s, sub)
		if sub.Op == "strlit" && sub.Name == "" {
			return []Val{True()}
		}
		if !r.hasBound {
			ex.fact(nil, Implies(Eq(s, sub), r))
			ex.fact(nil, Implies(Eq(ex.slen(sub), IntT(0)), r))
			ex.fact(nil, Implies(r, Le(ex.slen(sub), ex.slen(s))))
		}
		return []Val{r}
	})
	reg("strings.ContainsAny", "uninterpreted predicate", func(ex *Exec, a []Val, st *State, _ *types.Signature) []Val {
		return []Val{UF("str.containsAny", SBool, tm(a[0]), tm(a[1]))}
	})
	reg("strings.HasPrefix", "uninterpreted predicate", func(ex *Exec, a []Val, st *State, _ *types.Signature) []Val {
		return []Val{UF("str.hasPrefix", SBool, tm(a[0]), tm(a[1]))}
	})
	reg("strings.HasSuffix", "uninterpreted predicate", func(ex *Exec, a []Val, st *State, _ *types.Signature) []Val {
		return []Val{UF("str.hasSuffix", SBool, tm(a[0]), tm(a[1]))}
	})
	reg("strings.TrimPrefix", "uninterpreted function", func(ex *Exec, a []Val, st *State, _ *types.Signature) []Val {
		return []Val{UF("str.trimPrefix", SStr, tm(a[0]), tm(a[1]))}
	})
	reg("strings.TrimRight", "uninterpreted function", func(ex *Exec, a []Val, st *State, _ *types.Signature) []Val {
		return []Val{UF("str.trimRight", SStr, tm(a[0]), tm(a[1]))}
	})
	reg("strings.TrimSpace", "uninterpreted function", func(ex *Exec, a []Val, st *State, _ *types.Signature) []Val {
		return []Val{UF("str.trimSpace", SStr, tm(a[0]))}
	})
	reg("strings.ToLower", "uninterpreted function", func(ex *Exec, a []Val, st *State, _ *types.Signature) []Val {
		return []Val{UF("str.toLower", SStr, tm(a[0]))}
	})
	reg("strings.Cut", "before/after/found are uninterpreted functions of (s, sep) with: found => s == before+sep+after; !found => before == s && after == \"\"; 0 <= len(before) <= len(s) (that the cut is at the FIRST occurrence is not modelled)", func(ex *Exec, a []Val, st *State, _ *types.Signature) []Val {
		s, sep := tm(a[0]), tm(a[1])
		before, after, found := UF("str.cut.before", SStr, s, sep), UF("str.cut.after", SStr, s, sep), UF("str.cut.found", SBool, s, sep)
		if !s.hasBound && !sep.hasBound {
			ex.fact(nil, And(Le(IntT(0), ex.slen(before)), Le(ex.slen(before), ex.slen(s)), Le(IntT(0), ex.slen(after))))
			ex.fact(nil, Implies(found, And(Eq(s, SConcat(before, SConcat(sep, after))), Eq(ex.slen(s), Add(ex.slen(before), Add(ex.slen(sep), ex.slen(after)))))))
			ex.fact(nil, Implies(Not(found), And(Eq(before, s), Eq(ex.slen(after), IntT(0)))))
		}
		return []Val{before, after, found}
	})
	reg("strings.CutPrefix", "found == HasPrefix(s, prefix); found => s == prefix+after; !found => after == s", func(ex *Exec, a []Val, st *State, _ *types.Signature) []Val {
		s, pre := tm(a[0]), tm(a[1])
		after, found := UF("str.cutPrefix.after", SStr, s, pre), UF("str.hasPrefix", SBool, s, pre)
		if !s.hasBound && !pre.hasBound {
			ex.fact(nil, Le(IntT(0), ex.slen(after)))
			ex.fact(nil, Implies(found, And(Eq(s, SConcat(pre, after)), Eq(ex.slen(s), Add(ex.slen(pre), ex.slen(after))))))
			ex.fact(nil, Implies(Not(found), Eq(after, s)))
		}
		return []Val{after, found}
	})
	decode := func(name string) modelFn {
		return func(ex *Exec, a []Val, st *State, _ *types.Signature) []Val {
			s := tm(a[0])
			r, size := UF(name+".rune", SInt, s), UF(name+".size", SInt, s)
			if !s.hasBound {
				ex.fact(nil, And(Le(IntT(0), size), Le(size, IntT(4)), Le(size, ex.slen(s)), Eq(Eq(size, IntT(0)), Eq(ex.slen(s), IntT(0))), Le(IntT(0), r), Implies(Eq(size, IntT(0)), Eq(r, IntT(65533)))))
			}
			return []Val{r, size}
		}
	}
	reg("unicode/utf8.DecodeRuneInString", "(rune, size) are uninterpreted functions of the string with 0 <= size <= min(4, len(s)), size == 0 iff s is empty (then rune == RuneError), rune >= 0", decode("utf8.decode"))
	reg("unicode/utf8.DecodeLastRuneInString", "(rune, size) are uninterpreted functions of the string with 0 <= size <= min(4, len(s)), size == 0 iff s is empty (then rune == RuneError), rune >= 0", decode("utf8.decodeLast"))
	reg("unicode/utf8.RuneCountInString", "uninterpreted function with 0 <= n <= len(s)", func(ex *Exec, a []Val, st *State, _ *types.Signature) []Val {
		s := tm(a[0])
		n := UF("utf8.runeCount", SInt, s)
		if !s.hasBound {
			ex.fact(nil, And(Le(IntT(0), n), Le(n, ex.slen(s))))
		}
		return []Val{n}
	})
	reg("strings.Repeat", "uninterpreted function of (s, count) with len == len(s)*count for count >= 0 (a negative count panics: not checked)", func(ex *Exec, a []Val, st *State, _ *types.Signature) []Val {
		return []Val{UF("str.repeat", SStr, tm(a[0]), tm(a[1]))}
	})
	for _, n := range []string{"IsSpace", "IsLetter", "IsDigit", "IsUpper", "IsLower", "IsPunct", "IsPrint"} {
		name := n
		reg("unicode."+name, "uninterpreted predicate of the rune, false for negative values (such as scanner.EOF)", func(ex *Exec, a []Val, st *State, _ *types.Signature) []Val {
			r := tm(a[0])
			p := UF("unicode."+name, SBool, r)
			if !r.hasBound {
				ex.fact(nil, Implies(Lt(r, IntT(0)), Not(p)))
			}
			return []Val{p}
		})
	}
	// ---- text/scanner: the unread input is a ghost counter scanRemaining(s) >= 0. Next returns EOF
	// exactly when nothing is left and otherwise consumes one rune; Peek returns EOF exactly when
	// nothing is left. (Which runes come out is unconstrained.)
	scanRem := func(ex *Exec, st *State, s *Term) (*Term, *Term) {
		arr := st.heap.array("G@scanRemaining", arrSort(SPtr, SInt))
		rem := Select(arr, s)
		if !rem.hasBound {
			ex.fact(nil, Ge(rem, IntT(0)))
		}
		return arr, rem
	}
	regEff("(*text/scanner.Scanner).Next", "returns EOF iff the ghost counter scanRemaining(s) is 0, otherwise decrements it; the rune is unconstrained; the program heap is untouched", func(ex *Exec, a []Val, st *State, _ *types.Signature) []Val {
		s := tm(a[0])
		arr, rem := scanRem(ex, st, s)
		r := Fresh("scan.next", SInt)
		ex.fact(nil, Eq(Eq(r, IntT(-1)), Eq(rem, IntT(0))))
		st.heap.set("G@scanRemaining", Store(arr, s, Ite(Gt(rem, IntT(0)), Sub(rem, IntT(1)), IntT(0))))
		return []Val{r}
	})
	reg("(*text/scanner.Scanner).Peek", "returns EOF iff the ghost counter scanRemaining(s) is 0; the rune is unconstrained", func(ex *Exec, a []Val, st *State, _ *types.Signature) []Val {
		_, rem := scanRem(ex, st, tm(a[0]))
		r := Fresh("scan.peek", SInt)
		ex.fact(nil, Eq(Eq(r, IntT(-1)), Eq(rem, IntT(0))))
		return []Val{r}
	})
	reg("strings.Compare", "uninterpreted function", func(ex *Exec, a []Val, st *State, _ *types.Signature) []Val {
		return []Val{UF("str.compare", SInt, tm(a[0]), tm(a[1]))}
	})
	// ---- regexp
	reg("(*regexp.Regexp).MatchString", "pure uninterpreted predicate of (regexp pointer, string)", func(ex *Exec, a []Val, st *State, _ *types.Signature) []Val {
		return []Val{UF("re.match", SBool, tm(a[0]), tm(a[1]))}
	})
	reg("(*regexp.Regexp).ReplaceAllString", "pure uninterpreted function", func(ex *Exec, a []Val, st *State, _ *types.Signature) []Val {
		return []Val{UF("re.replaceAll", SStr, tm(a[0]), tm(a[1]), tm(a[2]))}
	})
	reg("regexp.Compile", "pure function of the pattern: (re, err) uninterpreted; err == nil => re != nil", func(ex *Exec, a []Val, st *State, sig *types.Signature) []Val {
		p := tm(a[0])
		re := UF("re.compile", SPtr, p)
		ok := UF("re.compiles", SBool, p)
		err := iteVal(ok, nilIface(), ex.nonNilErr("regexp", p))
		if !p.hasBound {
			ex.fact(nil, Implies(ok, Not(Eq(re, Null()))))
		}
		return []Val{Ite(ok, re, Null()), err}
	})
	// ---- time (time.Time abstracted to integer nanoseconds; no monotonic clock, no overflow)
	reg("(time.Time).Add", "t + d on integer nanoseconds", func(ex *Exec, a []Val, st *State, _ *types.Signature) []Val {
		return []Val{Add(tm(a[0]), tm(a[1]))}
	})
	reg("(time.Time).Sub", "t - u on integer nanoseconds", func(ex *Exec, a []Val, st *State, _ *types.Signature) []Val {
		return []Val{Sub(tm(a[0]), tm(a[1]))}
	})
	reg("(time.Time).Before", "<", func(ex *Exec, a []Val, st *State, _ *types.Signature) []Val { return []Val{Lt(tm(a[0]), tm(a[1]))} })
	reg("(time.Time).After", ">", func(ex *Exec, a []Val, st *State, _ *types.Signature) []Val { return []Val{Gt(tm(a[0]), tm(a[1]))} })
	reg("(time.Time).Equal", "==", func(ex *Exec, a []Val, st *State, _ *types.Signature) []Val { return []Val{Eq(tm(a[0]), tm(a[1]))} })
	reg("(time.Time).Compare", "three-way compare", func(ex *Exec, a []Val, st *State, _ *types.Signature) []Val {
		x, y := tm(a[0]), tm(a[1])
		return []Val{Ite(Lt(x, y), IntT(-1), Ite(Gt(x, y), IntT(1), IntT(0)))}
	})
	reg("(time.Time).IsZero", "t == the year-1 instant", func(ex *Exec, a []Val, st *State, _ *types.Signature) []Val {
		return []Val{Eq(tm(a[0]), zeroTimeTerm())}
	})
	reg("(time.Time).UnixNano", "identity on integer nanoseconds", func(ex *Exec, a []Val, st *State, _ *types.Signature) []Val { return []Val{tm(a[0])} })
	reg("(time.Time).Unix", "floor(t / 1e9)", func(ex *Exec, a []Val, st *State, _ *types.Signature) []Val {
		return []Val{P.mk("div", "", SInt, []*Term{tm(a[0]), IntT(1000000000)}, nil)}
	})
	reg("(time.Time).Nanosecond", "t mod 1e9 (the nanosecond offset within the second)", func(ex *Exec, a []Val, st *State, _ *types.Signature) []Val {
		return []Val{P.mk("mod", "", SInt, []*Term{tm(a[0]), IntT(1000000000)}, nil)}
	})
	reg("(time.Time).UnixMilli", "floor(t / 1e6)", func(ex *Exec, a []Val, st *State, _ *types.Signature) []Val {
		return []Val{P.mk("div", "", SInt, []*Term{tm(a[0]), IntT(1000000)}, nil)}
	})
	reg("(time.Time).UnixMicro", "floor(t / 1e3)", func(ex *Exec, a []Val, st *State, _ *types.Signature) []Val {
		return []Val{P.mk("div", "", SInt, []*Term{tm(a[0]), IntT(1000)}, nil)}
	})
	regEff("(time.Time).AppendFormat", "append(b, text...) for an uninterpreted text (a function of the time and the layout): the bytes already in b are kept; touches nothing else", func(ex *Exec, a []Val, st *State, sig *types.Signature) []Val {
		text := UF("time.format", SStr, tm(a[0]), tm(a[2]))
		return []Val{ex.appendTo(st, types.NewSlice(types.Typ[types.Byte]), []Val{a[1], text})}
	})
	reg("time.Unix", "sec*1e9 + nsec", func(ex *Exec, a []Val, st *State, _ *types.Signature) []Val {
		return []Val{Add(Mul(tm(a[0]), IntT(1000000000)), tm(a[1]))}
	})
	reg("(time.Duration).Seconds", "float64(d)/1e9 (one rounding; the library splits into sec + nsec/1e9)", func(ex *Exec, a []Val, st *State, _ *types.Signature) []Val {
		return []Val{FOp("fp.div", IntToF64(tm(a[0])), F64T(1e9))}
	})
	reg("time.Now", "fresh instant", func(ex *Exec, a []Val, st *State, _ *types.Signature) []Val { return []Val{Fresh("now", SInt)} })
	reg("(go.opentelemetry.io/collector/pdata/pcommon.Timestamp).AsTime", "identity on integer nanoseconds", func(ex *Exec, a []Val, st *State, _ *types.Signature) []Val {
		return []Val{tm(a[0])}
	})
	reg("go.opentelemetry.io/collector/pdata/pcommon.NewTimestampFromTime", "identity on integer nanoseconds (no wrap-around for pre-1970 instants)", func(ex *Exec, a []Val, st *State, _ *types.Signature) []Val {
		return []Val{tm(a[0])}
	})
	// ---- math
	reg("math.IsNaN", "fp.isNaN", func(ex *Exec, a []Val, st *State, _ *types.Signature) []Val { return []Val{FOp("fp.isNaN", tm(a[0]))} })
	reg("math.IsInf", "fp.isInfinite with sign", func(ex *Exec, a []Val, st *State, _ *types.Signature) []Val {
		f, s := tm(a[0]), tm(a[1])
		inf := FOp("fp.isInfinite", f)
		return []Val{And(inf, Or(And(Ge(s, IntT(0)), FOp("fp.isPositive", f)), And(Le(s, IntT(0)), FOp("fp.isNegative", f))))}
	})
	reg("math.NaN", "NaN", func(ex *Exec, a []Val, st *State, _ *types.Signature) []Val {
		return []Val{P.mk("nan", "", SF64, nil, nil)}
	})
	reg("math.Inf", "+-Inf", func(ex *Exec, a []Val, st *State, _ *types.Signature) []Val {
		s := tm(a[0])
		return []Val{Ite(Ge(s, IntT(0)), P.mk("pinf", "", SF64, nil, nil), P.mk("ninf", "", SF64, nil, nil))}
	})
	reg("math.Sqrt", "fp.sqrt", func(ex *Exec, a []Val, st *State, _ *types.Signature) []Val { return []Val{FOp("fp.sqrt", tm(a[0]))} })
	reg("math.Copysign", "IEEE copySign: |f| with the sign bit of sign", func(ex *Exec, a []Val, st *State, _ *types.Signature) []Val {
		abs := FOp("fp.abs", tm(a[0]))
		return []Val{Ite(FOp("fp.isNegative", tm(a[1])), FOp("fp.neg", abs), abs)}
	})
	reg("math.Abs", "fp.abs", func(ex *Exec, a []Val, st *State, _ *types.Signature) []Val { return []Val{FOp("fp.abs", tm(a[0]))} })
	reg("math.Floor", "roundToIntegral RTN", func(ex *Exec, a []Val, st *State, _ *types.Signature) []Val {
		return []Val{P.mk("fp.roundToIntegral", "RTN", SF64, []*Term{tm(a[0])}, nil)}
	})
	reg("math.Ceil", "roundToIntegral RTP", func(ex *Exec, a []Val, st *State, _ *types.Signature) []Val {
		return []Val{P.mk("fp.roundToIntegral", "RTP", SF64, []*Term{tm(a[0])}, nil)}
	})
	reg("math.Round", "roundToIntegral RNA", func(ex *Exec, a []Val, st *State, _ *types.Signature) []Val {
		return []Val{P.mk("fp.roundToIntegral", "RNA", SF64, []*Term{tm(a[0])}, nil)}
	})
	reg("math.Max", "IEEE max with Go's NaN/Inf rules", func(ex *Exec, a []Val, st *State, _ *types.Signature) []Val {
		x, y := tm(a[0]), tm(a[1])
		nan := P.mk("nan", "", SF64, nil, nil)
		pinf := P.mk("pinf", "", SF64, nil, nil)
		isPInf := func(t *Term) *Term { return And(FOp("fp.isInfinite", t), FOp("fp.isPositive", t)) }
		return []Val{Ite(Or(isPInf(x), isPInf(y)), pinf, Ite(Or(FOp("fp.isNaN", x), FOp("fp.isNaN", y)), nan, Ite(Gt(x, y), x, Ite(Gt(y, x), y, Ite(FOp("fp.isNegative", x), y, x)))))}
	})
	reg("math.Mod", "uninterpreted function", func(ex *Exec, a []Val, st *State, _ *types.Signature) []Val {
		return []Val{UF("math.mod", SF64, tm(a[0]), tm(a[1]))}
	})
	reg("math.Pow", "uninterpreted function", func(ex *Exec, a []Val, st *State, _ *types.Signature) []Val {
		return []Val{UF("math.pow", SF64, tm(a[0]), tm(a[1]))}
	})
	reg("math.Modf", "uninterpreted functions", func(ex *Exec, a []Val, st *State, _ *types.Signature) []Val {
		return []Val{UF("math.modf.int", SF64, tm(a[0])), UF("math.modf.frac", SF64, tm(a[0]))}
	})
	// ---- errors / fmt
	errNew := func(kind string) modelFn {
		return func(ex *Exec, a []Val, st *State, _ *types.Signature) []Val {
			return []Val{ex.nonNilErr(kind, Fresh("errsite", SInt))}
		}
	}
	reg("github.com/go-faster/errors.New", "returns a non-nil error", errNew("new"))
	reg("github.com/go-faster/errors.Errorf", "returns a non-nil error", errNew("errorf"))
	reg("errors.New", "returns a non-nil error", errNew("new"))
	reg("fmt.Errorf", "returns a non-nil error", errNew("errorf"))
	wrap := func(ex *Exec, a []Val, st *State, _ *types.Signature) []Val {
		// go-faster/errors (unlike pkg/errors) wraps unconditionally: the result is never nil
		e := a[0].(*Agg)
		return []Val{ex.nonNilErr("wrap", tm(e.F[0]), tm(e.F[1]))}
	}
	reg("github.com/go-faster/errors.Wrap", "returns a non-nil error (also when the wrapped error is nil)", wrap)
	reg("github.com/go-faster/errors.Wrapf", "returns a non-nil error (also when the wrapped error is nil)", wrap)
	reg("fmt.Sprintf", "returns an unspecified string", func(ex *Exec, a []Val, st *State, _ *types.Signature) []Val {
		return []Val{Fresh("sprintf", SStr)}
	})
	reg("fmt.Sprint", "returns an unspecified string", func(ex *Exec, a []Val, st *State, _ *types.Signature) []Val {
		return []Val{Fresh("sprint", SStr)}
	})
	// ---- strconv
	reg("strconv.FormatInt", "uninterpreted function of (i, base)", func(ex *Exec, a []Val, st *State, _ *types.Signature) []Val {
		return []Val{UF("strconv.formatInt", SStr, tm(a[0]), tm(a[1]))}
	})
	reg("strconv.FormatBool", "\"true\" / \"false\"", func(ex *Exec, a []Val, st *State, _ *types.Signature) []Val {
		return []Val{Ite(tm(a[0]), StrLit("true"), StrLit("false"))}
	})
	reg("strconv.FormatFloat", "uninterpreted function of (f, fmt, prec, bitSize)", func(ex *Exec, a []Val, st *State, _ *types.Signature) []Val {
		return []Val{UF("strconv.formatFloat", SStr, tm(a[0]), tm(a[1]), tm(a[2]), tm(a[3]))}
	})
	reg("strconv.Itoa", "FormatInt(i, 10)", func(ex *Exec, a []Val, st *State, _ *types.Signature) []Val {
		return []Val{UF("strconv.formatInt", SStr, tm(a[0]), IntT(10))}
	})
	reg("strconv.ParseFloat", "(value, err) are uninterpreted functions of the text", func(ex *Exec, a []Val, st *State, _ *types.Signature) []Val {
		s := tm(a[0])
		ok := UF("strconv.parseFloat.ok", SBool, s)
		return []Val{UF("strconv.parseFloat.v", SF64, s), iteVal(ok, nilIface(), ex.nonNilErr("parsefloat", s))}
	})
	reg("strconv.Atoi", "(value, err) are uninterpreted functions of the text", func(ex *Exec, a []Val, st *State, _ *types.Signature) []Val {
		s := tm(a[0])
		ok := UF("strconv.atoi.ok", SBool, s)
		return []Val{UF("strconv.atoi.v", SInt, s), iteVal(ok, nilIface(), ex.nonNilErr("atoi", s))}
	})
	reg("strconv.ParseInt", "(value, err) are uninterpreted functions of the text", func(ex *Exec, a []Val, st *State, _ *types.Signature) []Val {
		s := tm(a[0])
		ok := UF("strconv.parseInt.ok", SBool, s, tm(a[1]))
		return []Val{UF("strconv.parseInt.v", SInt, s, tm(a[1])), iteVal(ok, nilIface(), ex.nonNilErr("parseint", s))}
	})
	// ---- cmp
	reg("cmp.Compare", "three-way comparison (-1, 0, +1); NaN ordering for floats as documented", func(ex *Exec, a []Val, st *State, _ *types.Signature) []Val {
		x, y := tm(a[0]), tm(a[1])
		if x.Sort == SF64 {
			xn, yn := FOp("fp.isNaN", x), FOp("fp.isNaN", y)
			return []Val{Ite(Or(And(xn, Not(yn)), Lt(x, y)), IntT(-1), Ite(Or(And(Not(xn), yn), Gt(x, y)), IntT(1), IntT(0)))}
		}
		if x.Sort == SStr {
			return []Val{Ite(UF("strlt", SBool, x, y), IntT(-1), Ite(UF("strlt", SBool, y, x), IntT(1), IntT(0)))}
		}
		return []Val{Ite(Lt(x, y), IntT(-1), Ite(Gt(x, y), IntT(1), IntT(0)))}
	})
	// ---- pcommon.Value (immutable value: its accessors are functions of the value)
	pv := "(go.opentelemetry.io/collector/pdata/pcommon.Value)."
	reg(pv+"AsString", "pure function of the value", func(ex *Exec, a []Val, st *State, _ *types.Signature) []Val {
		return []Val{UF("pvalue.asString", SStr, flatAll(a[:1])...)}
	})
	reg(pv+"Str", "pure function of the value", func(ex *Exec, a []Val, st *State, _ *types.Signature) []Val {
		return []Val{UF("pvalue.str", SStr, flatAll(a[:1])...)}
	})
	reg(pv+"Int", "pure function of the value", func(ex *Exec, a []Val, st *State, _ *types.Signature) []Val {
		return []Val{UF("pvalue.int", SInt, flatAll(a[:1])...)}
	})
	reg(pv+"Double", "pure function of the value", func(ex *Exec, a []Val, st *State, _ *types.Signature) []Val {
		return []Val{UF("pvalue.double", SF64, flatAll(a[:1])...)}
	})
	reg(pv+"Type", "pure function of the value", func(ex *Exec, a []Val, st *State, _ *types.Signature) []Val {
		return []Val{UF("pvalue.type", SInt, flatAll(a[:1])...)}
	})
	reg("go.opentelemetry.io/collector/pdata/pcommon.NewValueStr", "returns a value v with v.AsString() == s and v.Str() == s", func(ex *Exec, a []Val, st *State, sig *types.Signature) []Val {
		s := tm(a[0])
		v := ufVal("pvalue.newStr", sig.Results().At(0).Type(), s)
		fl := flatten(v, nil)
		if !s.hasBound {
			ex.fact(nil, Eq(UF("pvalue.asString", SStr, fl...), s))
			ex.fact(nil, Eq(UF("pvalue.str", SStr, fl...), s))
		}
		return []Val{v}
	})
	reg("go4.org/netipx.ParseIPRange", "(value, err) are uninterpreted functions of the text", func(ex *Exec, a []Val, st *State, sig *types.Signature) []Val {
		s := tm(a[0])
		ok := UF("netipx.parseRange.ok", SBool, s)
		return []Val{ufVal("netipx.parseRange.v", sig.Results().At(0).Type(), s), iteVal(ok, nilIface(), ex.nonNilErr("iprange", s))}
	})
	reg("net/netip.ParsePrefix", "(value, err) are uninterpreted functions of the text", func(ex *Exec, a []Val, st *State, sig *types.Signature) []Val {
		s := tm(a[0])
		ok := UF("netip.parsePrefix.ok", SBool, s)
		return []Val{ufVal("netip.parsePrefix.v", sig.Results().At(0).Type(), s), iteVal(ok, nilIface(), ex.nonNilErr("ipprefix", s))}
	})
	regEff("maps.Clear", "the map becomes empty", func(ex *Exec, a []Val, st *State, sig *types.Signature) []Val {
		mt, ok := sig.Params().At(0).Type().Underlying().(*types.Map)
		if !ok {
			unsupp("maps.Clear of non-map")
		}
		st.heap.mapInitEmpty(tm(a[0]), mt)
		return nil
	})
	regEff("golang.org/x/exp/maps.Clear", "the map becomes empty", func(ex *Exec, a []Val, st *State, sig *types.Signature) []Val {
		mt, ok := sig.Params().At(0).Type().Underlying().(*types.Map)
		if !ok {
			unsupp("maps.Clear of non-map")
		}
		st.heap.mapInitEmpty(tm(a[0]), mt)
		return nil
	})
	// ---- maps.Clone: nil stays nil, otherwise a fresh map with the same entries
	regEff("maps.Clone", "nil for nil; otherwise a new map with exactly the same entries", func(ex *Exec, a []Val, st *State, sig *types.Signature) []Val {
		m := tm(a[0])
		mt, ok := sig.Results().At(0).Type().Underlying().(*types.Map)
		if !ok {
			unsupp("maps.Clone of non-map")
		}
		n := ex.newObj()
		ks := mapKeySort(mt)
		dn, ds := mdomName(ks)
		dom := st.heap.array(dn, ds)
		st.heap.set(dn, Store(dom, n, Select(dom, m)))
		for _, l := range typeLeaves(mt.Elem(), "", nil) {
			vn, vs := mvalName(ks, l.path, l.sort)
			arr := st.heap.array(vn, vs)
			st.heap.set(vn, Store(arr, n, Select(arr, m)))
		}
		la := st.heap.array(mlenName, mlenSort)
		st.heap.set(mlenName, Store(la, n, Select(la, m)))
		return []Val{Ite(Eq(m, Null()), Null(), n)}
	})
	// ---- xxhash: the digest is a byte stream; Sum64 is an uninterpreted function of it (collisions ignored)
	xx := "github.com/cespare/xxhash/v2."
	regEff(xx+"New", "fresh digest with empty stream", func(ex *Exec, a []Val, st *State, sig *types.Signature) []Val {
		d := ex.newObj()
		st.heap.storeLeaf(Fld(d, digestStreamField), StrLit(""))
		return []Val{d}
	})
	regEff("(*"+xx[:len(xx)-1]+".Digest).WriteString", "appends the string to the digest's stream; returns (len, nil)", func(ex *Exec, a []Val, st *State, sig *types.Signature) []Val {
		d, s := tm(a[0]), tm(a[1])
		cur := st.heap.loadLeaf(Fld(d, digestStreamField), SStr)
		st.heap.storeLeaf(Fld(d, digestStreamField), SConcat(cur, s))
		return []Val{ex.slen(s), nilIface()}
	})
	regEff("(*"+xx[:len(xx)-1]+".Digest).Write", "appends the bytes to the digest's stream; returns (len, nil)", func(ex *Exec, a []Val, st *State, sig *types.Signature) []Val {
		d, b := tm(a[0]), a[1].(*Agg)
		cur := st.heap.loadLeaf(Fld(d, digestStreamField), SStr)
		bs := UF("bytes.asString", SStr, st.heap.ver, tm(b.F[0]), tm(b.F[1]), tm(b.F[2]))
		st.heap.storeLeaf(Fld(d, digestStreamField), SConcat(cur, bs))
		return []Val{tm(b.F[2]), nilIface()}
	})
	reg("(*"+xx[:len(xx)-1]+".Digest).Sum64", "uninterpreted function of the stream written so far (hash collisions are ignored)", func(ex *Exec, a []Val, st *State, sig *types.Signature) []Val {
		d := tm(a[0])
		r := UF("xxhash.sum64", SInt, st.heap.loadLeaf(Fld(d, digestStreamField), SStr))
		if !r.hasBound {
			ex.fact(nil, Ge(r, IntT(0)))
		}
		return []Val{r}
	})
	for _, n := range []string{"Sum64String"} {
		reg(xx+n, "the same uninterpreted function of the bytes as Digest.Sum64", func(ex *Exec, a []Val, st *State, sig *types.Signature) []Val {
			r := UF("xxhash.sum64", SInt, tm(a[0]))
			if !r.hasBound {
				ex.fact(nil, Ge(r, IntT(0)))
			}
			return []Val{r}
		})
	}
	reg(xx+"Sum64", "the same uninterpreted function of the bytes as Digest.Sum64", func(ex *Exec, a []Val, st *State, sig *types.Signature) []Val {
		b := a[0].(*Agg)
		// the bytes as a string (a nil or empty slice is the empty string)
		hn, hs := heapName(SInt)
		s := Ite(Eq(tm(b.F[2]), IntT(0)), StrLit(""), UF("bytestr", SStr, tm(b.F[0]), tm(b.F[1]), tm(b.F[2]), st.heap.array(hn, hs)))
		r := UF("xxhash.sum64", SInt, s)
		ex.fact(nil, Ge(r, IntT(0)))
		return []Val{r}
	})
	// ---- spf13/pflag: registering a variable stores its default through the pointer; the flag
	// set remembers the pointer (parsing the command line later writes through it: not modelled)
	for _, n := range []string{"BoolVarP", "BoolVar", "IntVar", "IntVarP", "StringVar", "StringVarP"} {
		n := n
		regEff("(*github.com/spf13/pflag.FlagSet)."+n, "stores the default value through the given pointer; nothing else of the program heap is touched", func(ex *Exec, a []Val, st *State, sig *types.Signature) []Val {
			vi := 3
			if strings.HasSuffix(n, "P") {
				vi = 4
			}
			st.heap.storeLeaf(tm(a[1]), tm(a[vi]))
			return nil
		})
	}
	// ---- bytes.Buffer as a string content; text/template.Execute appends an uninterpreted expansion
	regEff("bytes.NewBuffer", "a new buffer whose content is the given bytes; nothing else of the program heap is touched", func(ex *Exec, a []Val, st *State, sig *types.Signature) []Val {
		b := ex.newObj()
		sl := a[0].(*Agg)
		hn, hs := heapName(SInt)
		st.heap.storeLeaf(Fld(b, bufferContentField), UF("bytestr", SStr, tm(sl.F[0]), tm(sl.F[1]), tm(sl.F[2]), st.heap.array(hn, hs)))
		return []Val{b}
	})
	regEff("(*bytes.Buffer).Reset", "content becomes empty", func(ex *Exec, a []Val, st *State, sig *types.Signature) []Val {
		st.heap.storeLeaf(Fld(tm(a[0]), bufferContentField), StrLit(""))
		return nil
	})
	reg("(*bytes.Buffer).String", "the content written so far", func(ex *Exec, a []Val, st *State, sig *types.Signature) []Val {
		return []Val{st.heap.loadLeaf(Fld(tm(a[0]), bufferContentField), SStr)}
	})
	regEff("(*text/template.Template).Execute", "writes an uninterpreted expansion (a function of the template, the data and the heap at the call) to the writer if it is a *bytes.Buffer; returns an uninterpreted error; modifies nothing else", func(ex *Exec, a []Val, st *State, sig *types.Signature) []Val {
		t := tm(a[0])
		w := a[1].(*Agg)
		data := flatAll(a[2:3])
		args := append([]*Term{t, st.heap.ver}, data...)
		out := UF("template.output", SStr, args...)
		ok := UF("template.ok", SBool, args...)
		buf := tm(w.F[1])
		cur := st.heap.loadLeaf(Fld(buf, bufferContentField), SStr)
		st.heap.storeLeaf(Fld(buf, bufferContentField), SConcat(cur, out))
		return []Val{iteVal(ok, nilIface(), ex.nonNilErr("template", args...))}
	})
	// ---- golang.org/x/exp/maps / maps: Keys and Values return fresh slices, modify nothing
	for _, name := range []string{"golang.org/x/exp/maps.Values", "golang.org/x/exp/maps.Keys", "maps.Keys", "maps.Values"} {
		reg(name, "returns a freshly allocated slice (contents unspecified, length = number of entries); modifies nothing", func(ex *Exec, a []Val, st *State, sig *types.Signature) []Val {
			n := st.heap.mapLen(tm(a[0]))
			if !n.hasBound {
				ex.fact(nil, Ge(n, IntT(0)))
			}
			return []Val{&Agg{F: []Val{ex.newObj(), IntT(0), n, n}}}
		})
	}
	// ---- multierr
	reg("go.uber.org/multierr.Append", "nil iff both errors are nil", func(ex *Exec, a []Val, st *State, sig *types.Signature) []Val {
		l, r := a[0].(*Agg), a[1].(*Agg)
		both := And(Eq(tm(l.F[0]), IntT(0)), Eq(tm(r.F[0]), IntT(0)))
		return []Val{iteVal(both, nilIface(), ex.nonNilErr("multierr", tm(l.F[0]), tm(l.F[1]), tm(r.F[0]), tm(r.F[1])))}
	})
	regEff("go.uber.org/multierr.AppendInto", "*into becomes non-nil iff it was non-nil or err is non-nil; returns err != nil", func(ex *Exec, a []Val, st *State, sig *types.Signature) []Val {
		into := tm(a[0])
		e := a[1].(*Agg)
		errT := sig.Params().At(1).Type()
		cur := st.heap.load(into, errT, nil).(*Agg)
		both := And(Eq(tm(cur.F[0]), IntT(0)), Eq(tm(e.F[0]), IntT(0)))
		nv := iteVal(both, nilIface(), ex.nonNilErr("multierr", tm(cur.F[0]), tm(cur.F[1]), tm(e.F[0]), tm(e.F[1])))
		st.heap.store(into, errT, nv)
		return []Val{Not(Eq(tm(e.F[0]), IntT(0)))}
	})
	// ---- io readers: a reader is an immutable byte stream readerData(p) with a cursor (ghost
	// state G@rpos) that, once exhausted, reports io.EOF or - if readerFails(p) - some other error.
	ghostSorts["readerPos"] = arrSort(SPtr, SInt)
	rdata := func(p *Term) *Term { return UF("reader.data", SStr, p) }
	rfail := func(p *Term) *Term { return UF("reader.fails", SBool, p) }
	rposGet := func(st *State, p *Term) *Term {
		return Select(st.heap.array("G@readerPos", ghostSorts["readerPos"]), p)
	}
	rposSet := func(st *State, p *Term, v *Term) {
		st.heap.set("G@readerPos", Store(st.heap.array("G@readerPos", ghostSorts["readerPos"]), p, v))
	}
	readErr := func(ex *Exec, p *Term) *Agg {
		e := ex.nonNilErr("readfail", p).(*Agg)
		// a read failure is neither io.EOF nor io.ErrUnexpectedEOF
		for _, n := range []string{"EOF", "ErrUnexpectedEOF"} {
			g := ex.errGlobal("io", n)
			ex.fact(nil, Not(Eq(tm(e.F[1]), tm(g.F[1]))))
			ex.fact(nil, Not(UF("boxedtag", SBool, tm(e.F[0]))))
		}
		return e
	}
	regEff("io.ReadFull", "reads exactly len(buf) bytes of the reader's stream or reports io.EOF (nothing left), io.ErrUnexpectedEOF (some left) or the reader's own error", func(ex *Exec, a []Val, st *State, sig *types.Signature) []Val {
		p := tm(a[0].(*Agg).F[1])
		buf := a[1].(*Agg)
		n := tm(buf.F[2])
		pos := rposGet(st, p)
		L := ex.slen(rdata(p))
		ex.fact(nil, And(Ge(pos, IntT(0)), Le(pos, L)))
		rem := Sub(L, pos)
		enough := Ge(rem, n)
		if k, ok := n.IsInt(); ok && k <= 16 {
			for j := int64(0); j < k; j++ {
				addr := Elt(tm(buf.F[0]), Add(tm(buf.F[1]), IntT(j)))
				b := Ite(enough, SAt(rdata(p), Add(pos, IntT(j))), Fresh("rd.byte", SInt))
				st.heap.storeLeaf(addr, b)
			}
		} else {
			ex.havocElems(st, tm(buf.F[0]), types.Typ[types.Byte])
		}
		rposSet(st, p, Ite(enough, Add(pos, n), L))
		eof, ueof := ex.errGlobal("io", "EOF"), ex.errGlobal("io", "ErrUnexpectedEOF")
		err := iteVal(enough, nilIface(), iteVal(rfail(p), readErr(ex, p), iteVal(Eq(rem, IntT(0)), eof, ueof)))
		return []Val{Ite(enough, n, rem), err}
	})
	regEff("io.CopyN", "copies exactly n bytes of the reader's stream to a *bytes.Buffer writer, or fewer and reports io.EOF / the reader's own error", func(ex *Exec, a []Val, st *State, sig *types.Signature) []Val {
		w := tm(a[0].(*Agg).F[1])
		p := tm(a[1].(*Agg).F[1])
		n := tm(a[2])
		pos := rposGet(st, p)
		L := ex.slen(rdata(p))
		ex.fact(nil, And(Ge(pos, IntT(0)), Le(pos, L)))
		rem := Sub(L, pos)
		enough := Ge(rem, n)
		cur := st.heap.loadLeaf(Fld(w, bufferContentField), SStr)
		upto := Ite(enough, Add(pos, n), L)
		st.heap.storeLeaf(Fld(w, bufferContentField), SConcat(cur, ex.ssub(rdata(p), pos, upto)))
		rposSet(st, p, upto)
		err := iteVal(enough, nilIface(), iteVal(rfail(p), readErr(ex, p), ex.errGlobal("io", "EOF")))
		return []Val{Ite(enough, n, rem), err}
	})
	reg("(encoding/binary.bigEndian).Uint32", "b[0]<<24 | b[1]<<16 | b[2]<<8 | b[3]", func(ex *Exec, a []Val, st *State, sig *types.Signature) []Val {
		b := a[1].(*Agg)
		by := func(j int64) *Term {
			v := st.heap.loadLeaf(Elt(tm(b.F[0]), Add(tm(b.F[1]), IntT(j))), SInt)
			if !v.hasBound {
				ex.fact(nil, And(Ge(v, IntT(0)), Lt(v, IntT(256))))
			}
			return v
		}
		return []Val{Add(Add(Mul(by(0), IntT(16777216)), Mul(by(1), IntT(65536))), Add(Mul(by(2), IntT(256)), by(3)))}
	})
	// ---- strings.Builder by its content
	sb := "(*strings.Builder)."
	appendTo := func(ex *Exec, st *State, b *Term, s *Term) {
		cur := st.heap.loadLeaf(Fld(b, builderContentField), SStr)
		r := SConcat(cur, s)
		if r.Op == "uf" && !r.hasBound {
			ex.fact(nil, And(Eq(SLen(r), Add(SLen(cur), SLen(s))), Ge(SLen(cur), IntT(0)), Ge(SLen(s), IntT(0))))
		}
		st.heap.storeLeaf(Fld(b, builderContentField), r)
	}
	regEff(sb+"WriteString", "appends the string", func(ex *Exec, a []Val, st *State, sig *types.Signature) []Val {
		appendTo(ex, st, tm(a[0]), tm(a[1]))
		return []Val{ex.slen(tm(a[1])), nilIface()}
	})
	regEff(sb+"WriteByte", "appends one byte", func(ex *Exec, a []Val, st *State, sig *types.Signature) []Val {
		c := tm(a[1])
		s := UF("bytestr1", SStr, c)
		if !c.hasBound {
			ex.fact(nil, And(Eq(SLen(s), IntT(1)), Eq(SAt(s, IntT(0)), c)))
		}
		appendTo(ex, st, tm(a[0]), s)
		return []Val{nilIface()}
	})
	regEff(sb+"WriteRune", "appends the UTF-8 encoding of the rune: one byte equal to the rune below 0x80, otherwise 1..4 bytes all >= 0x80", func(ex *Exec, a []Val, st *State, sig *types.Signature) []Val {
		r := tm(a[1])
		s := UF("runestr", SStr, r)
		if !r.hasBound {
			ex.fact(nil, Implies(And(Ge(r, IntT(0)), Lt(r, IntT(128))), And(Eq(SLen(s), IntT(1)), Eq(SAt(s, IntT(0)), r))))
			ex.fact(nil, And(Ge(SLen(s), IntT(1)), Le(SLen(s), IntT(4))))
		}
		appendTo(ex, st, tm(a[0]), s)
		return []Val{ex.slen(s), nilIface()}
	})
	reg(sb+"Len", "length of the content written so far", func(ex *Exec, a []Val, st *State, sig *types.Signature) []Val {
		return []Val{ex.slen(st.heap.loadLeaf(Fld(tm(a[0]), builderContentField), SStr))}
	})
	reg(sb+"String", "the content written so far", func(ex *Exec, a []Val, st *State, sig *types.Signature) []Val {
		return []Val{st.heap.loadLeaf(Fld(tm(a[0]), builderContentField), SStr)}
	})
	// ---- container/heap over a slice-backed heap.Interface (x *[]T): Push/Pop rearrange the slice;
	// which element comes out (the minimum w.r.t. Less) is assumed, not modelled.
	heapObj := func(ex *Exec, st *State, h *Agg) (p *Term, et types.Type) {
		tag := tm(h.F[0])
		id, ok := tag.IsInt()
		if !ok {
			unsupp("container/heap on an interface value of unknown dynamic type")
		}
		pt, ok := ex.typeOf[int(id)].Underlying().(*types.Pointer)
		if !ok {
			unsupp("container/heap: heap.Interface implementation is not a pointer to a slice")
		}
		sl, ok := pt.Elem().Underlying().(*types.Slice)
		if !ok {
			unsupp("container/heap: heap.Interface implementation is not a pointer to a slice")
		}
		return tm(h.F[1]), sl.Elem()
	}
	// heapShuffle rearranges the slice behind p. Every element of the new slice is an element of the
	// old one (or the pushed value): new[j] == old[perm(j)] with perm an uninterpreted index
	// function (multiplicities and the heap order are not modelled). Returns the old and new headers
	// and the pre-state for the caller's own facts.
	heapShuffle := func(ex *Exec, st *State, p *Term, et types.Type, delta int64, pushed Val) (*State, *Agg) {
		slT := types.NewSlice(et)
		cur := st.heap.load(p, slT, nil).(*Agg)
		pre := st.clone()
		ex.havocElems(st, tm(cur.F[0]), et)
		var fs []*Term
		nv := freshVal(slT, "heap.slice", &fs).(*Agg)
		ex.addFacts(nil, fs)
		ex.fact(nil, Eq(tm(nv.F[2]), Add(tm(cur.F[2]), IntT(delta))))
		ex.assumeOlder(nv)
		st.heap.store(p, slT, nv)
		// new[j] (j over backing-array indices) is old[perm(j)] or the pushed value
		ex.names["heapperm"]++
		permName := fmt.Sprintf("heapperm!%d", ex.names["heapperm"])
		j := BoundVar("hj", SInt)
		pj := UF(permName, SInt, j)
		// (leaves inside array fields of the element, e.g. the bytes of an ID, are left out of the
		// fact: fewer equalities, still sound)
		nw := scalarLeaves(st.heap.load(Elt(tm(nv.F[0]), j), et, nil), et)
		od := scalarLeaves(pre.heap.load(Elt(tm(cur.F[0]), pj), et, nil), et)
		inNew := And(Le(tm(nv.F[1]), j), Lt(j, Add(tm(nv.F[1]), tm(nv.F[2]))))
		eqAll := func(a, b []*Term) *Term {
			var cs []*Term
			for k := range a {
				cs = append(cs, SameVal(a[k], b[k]))
			}
			return And(cs...)
		}
		fromOld := And(Le(tm(cur.F[1]), pj), Lt(pj, Add(tm(cur.F[1]), tm(cur.F[2]))), eqAll(nw, od))
		alt := fromOld
		if pushed != nil {
			alt = Or(fromOld, eqAll(nw, scalarLeaves(pushed, et)))
		}
		ex.fact(st, Forall([]*Term{j}, Implies(inNew, alt)))
		return pre, cur
	}
	unboxAs := func(ex *Exec, st *State, x Val, et types.Type) Val {
		xa, ok := x.(*Agg)
		if !ok || len(xa.F) != 2 {
			return nil
		}
		id, lit := tm(xa.F[0]).IsInt()
		if !lit || id == 0 || !types.Identical(ex.typeOf[int(id)], et) {
			return nil
		}
		if pointerShaped(et) {
			return xa.F[1]
		}
		return st.heap.load(tm(xa.F[1]), et, nil)
	}
	regEff("container/heap.Push", "the element is added to the slice-backed heap (length + 1); afterwards every element is an old element or the pushed one; element order is not modelled", func(ex *Exec, a []Val, st *State, sig *types.Signature) []Val {
		p, et := heapObj(ex, st, a[0].(*Agg))
		pushed := unboxAs(ex, st, a[1], et)
		if pushed == nil {
			var fs []*Term
			pushed = freshVal(et, "heap.pushed", &fs)
			ex.addFacts(nil, fs)
		}
		heapShuffle(ex, st, p, et, 1, pushed)
		return nil
	})
	regEff("container/heap.Pop", "removes and returns an element of the slice-backed heap (length - 1): the result and every remaining element are old elements; that the result is the minimum w.r.t. Less is assumed, not modelled", func(ex *Exec, a []Val, st *State, sig *types.Signature) []Val {
		p, et := heapObj(ex, st, a[0].(*Agg))
		pre, cur := heapShuffle(ex, st, p, et, -1, nil)
		var fs []*Term
		v := freshVal(et, "heap.popped", &fs)
		ex.addFacts(nil, fs)
		k := Fresh("heap.poppedIdx", SInt)
		pv, ov := scalarLeaves(v, et), scalarLeaves(pre.heap.load(Elt(tm(cur.F[0]), k), et, nil), et)
		var eqs []*Term
		for q := range pv {
			eqs = append(eqs, SameVal(pv[q], ov[q]))
		}
		ex.fact(st, Implies(Gt(tm(cur.F[2]), IntT(0)), And(Le(tm(cur.F[1]), k), Lt(k, Add(tm(cur.F[1]), tm(cur.F[2]))), And(eqs...))))
		return []Val{ex.makeInterface(st, v, et)}
	})
	// ---- slices.Sort: afterwards adjacent elements are in non-decreasing order (permutation not modelled)
	regEff("slices.Sort", "elements are permuted into non-decreasing order: the adjacent-order fact and that every element of the result is an element of the input are assumed (not that each occurs as often)", func(ex *Exec, a []Val, st *State, sig *types.Signature) []Val {
		sl := a[0].(*Agg)
		st0 := sig.Params().At(0).Type().Underlying().(*types.Slice)
		pre := st.clone()
		ex.havocElems(st, tm(sl.F[0]), st0.Elem())
		if kindOf(st0.Elem()) == kLeaf {
			j := BoundVar("sj", SInt)
			off := tm(sl.F[1])
			// every element of the result is an element of the input (Skolemised: position pi(j))
			pi := Fresh("sortperm", SInt)
			_ = pi
			pj := BoundVar("sp", SInt)
			src := UF("sortperm."+pi.Name, SInt, pj)
			nw := st.heap.load(Elt(tm(sl.F[0]), pj), st0.Elem(), nil).(*Term)
			od := pre.heap.load(Elt(tm(sl.F[0]), src), st0.Elem(), nil).(*Term)
			ex.fact(st, Forall([]*Term{pj}, Implies(And(Le(off, pj), Lt(pj, Add(off, tm(sl.F[2])))),
				And(Le(off, src), Lt(src, Add(off, tm(sl.F[2]))), Eq(nw, od)))))
			x := st.heap.load(Elt(tm(sl.F[0]), j), st0.Elem(), nil).(*Term)
			y := st.heap.load(Elt(tm(sl.F[0]), Add(j, IntT(1))), st0.Elem(), nil).(*Term)
			var le *Term
			if x.Sort == SStr {
				le = Not(UF("strlt", SBool, y, x))
			} else {
				le = Le(x, y)
			}
			ex.fact(st, Forall([]*Term{j}, Implies(And(Le(off, j), Lt(Add(j, IntT(1)), Add(off, tm(sl.F[2])))), le)))
		}
		return nil
	})
	reg("strconv.Quote", "uninterpreted function of the string", func(ex *Exec, a []Val, st *State, sig *types.Signature) []Val {
		return []Val{UF("strconv.quote", SStr, tm(a[0]))}
	})
	// ---- slices.SortFunc: afterwards adjacent elements are ordered by the comparator (permutation not modelled)
	regEff("slices.SortFunc", "elements are permuted so that cmp(s[j], s[j+1]) <= 0 for adjacent elements; only this ordering fact is assumed, contents are otherwise arbitrary", func(ex *Exec, a []Val, st *State, sig *types.Signature) []Val {
		sl := a[0].(*Agg)
		st0 := sig.Params().At(0).Type().Underlying().(*types.Slice)
		ex.havocElems(st, tm(sl.F[0]), st0.Elem())
		if fv, ok := a[1].(*FuncVal); ok {
			// j ranges over backing-array indices (no arithmetic inside the element addresses)
			j := BoundVar("sj", SInt)
			off := tm(sl.F[1])
			x := st.heap.load(Elt(tm(sl.F[0]), j), st0.Elem(), nil)
			y := st.heap.load(Elt(tm(sl.F[0]), Add(j, IntT(1))), st0.Elem(), nil)
			ex.spec++
			r := ex.inlineCall(nil, st.clone(), fv.Fn, []Val{x, y}, fv.Bindings)
			ex.spec--
			ex.fact(st, Forall([]*Term{j}, Implies(And(Le(off, j), Lt(Add(j, IntT(1)), Add(off, tm(sl.F[2])))), Le(tm(r[0]), IntT(0)))))
		}
		return nil
	})
	// ---- prometheus / humanize / time parsing: uninterpreted (value, err) pairs
	parse2 := func(name string, vs string) modelFn {
		return func(ex *Exec, a []Val, st *State, sig *types.Signature) []Val {
			s := tm(a[0])
			ok := UF(name+".ok", SBool, s)
			v := UF(name+".v", vs, s)
			if isUnsigned(sig.Results().At(0).Type()) && !s.hasBound {
				ex.fact(nil, Ge(v, IntT(0)))
			}
			return []Val{v, iteVal(ok, nilIface(), ex.nonNilErr(name, s))}
		}
	}
	reg("github.com/prometheus/common/model.ParseDuration", "(value, err) are uninterpreted functions of the text", parse2("model.parseDuration", SInt))
	reg("time.ParseDuration", "(value, err) are uninterpreted functions of the text", parse2("time.parseDuration", SInt))
	reg("strconv.Unquote", "(value, err) are uninterpreted functions of the text", parse2("strconv.unquote", SStr))
	reg("github.com/prometheus/prometheus/util/strutil.Unquote", "(value, err) are uninterpreted functions of the text", parse2("strutil.unquote", SStr))
	reg("github.com/dustin/go-humanize.ParseBytes", "(value, err) are uninterpreted functions of the text", parse2("humanize.parseBytes", SInt))
	reg("net/netip.ParseAddr", "(value, err) are uninterpreted functions of the text", parse2("netip.parseAddr", SInt))
	reg("time.Parse", "(value, err) are uninterpreted functions of (layout, text)", func(ex *Exec, a []Val, st *State, _ *types.Signature) []Val {
		l, s := tm(a[0]), tm(a[1])
		ok := UF("time.parse.ok", SBool, l, s)
		return []Val{UF("time.parse.v", SInt, l, s), iteVal(ok, nilIface(), ex.nonNilErr("timeparse", l, s))}
	})
}

// ---- ghost functions

func (ex *Exec) ghostByName(pkgPath, name string) *GhostDecl {
	for _, g := range ex.cs.Ghosts {
		if g.Name == name && (g.PkgPath == pkgPath || true) {
			return g
		}
	}
	return nil
}

// ghostApply: ghost functions are uninterpreted; ghost *state* functions read a ghost heap array
// (keyed by the flattened argument when unary, a single cell when nullary).
func (ex *Exec) ghostApply(st *State, g *GhostDecl, args []*Term, rt types.Type) Val {
	rs := leafSort(rt)
	switch g.Name {
	case "readerData":
		return UF("reader.data", SStr, args[len(args)-1])
	case "readerFails":
		return UF("reader.fails", SBool, args[len(args)-1])
	case "readerPos":
		return Select(st.heap.array("G@readerPos", ghostSorts["readerPos"]), args[len(args)-1])
	}
	if g.Name == "builderContent" && len(args) == 1 {
		return st.heap.loadLeaf(Fld(args[0], builderContentField), SStr)
	}
	if g.Name == "bufferContent" && len(args) == 1 {
		return st.heap.loadLeaf(Fld(args[0], bufferContentField), SStr)
	}
	if g.Name == "digestStream" && len(args) == 1 {
		// the byte stream written so far to an xxhash digest (state of the xxhash model)
		return st.heap.loadLeaf(Fld(args[0], digestStreamField), SStr)
	}
	if !g.Heap {
		return UF("ghost@"+g.Name, rs, args...)
	}
	switch len(args) {
	case 0:
		name := "G@" + g.Name
		return Select(st.heap.array(name, arrSort(SInt, rs)), IntT(0))
	case 1:
		name := "G@" + g.Name
		return Select(st.heap.array(name, arrSort(args[0].Sort, rs)), args[0])
	case 2:
		// interface argument (tag, payload): key by payload
		name := "G@" + g.Name
		return Select(st.heap.array(name, arrSort(args[1].Sort, rs)), args[1])
	}
	unsupp("ghost state function %s with %d leaf arguments", g.Name, len(args))
	return nil
}

func (ex *Exec) ghostHavoc(st *State, g *GhostDecl, key *Term) {
	name := "G@" + g.Name
	sort, ok := knownArrays[name]
	if !ok {
		sort = ghostSorts[g.Name]
	}
	if sort == "" {
		unsupp("ghost state %s has not been given a sort yet", g.Name)
	}
	arr := st.heap.array(name, sort)
	_, vs := arrKV(sort)
	if key == nil {
		ks, _ := arrKV(sort)
		if ks == SInt {
			st.heap.set(name, Store(arr, IntT(0), Fresh(name+"@h", vs)))
			return
		}
		st.heap.set(name, Fresh(name+"@h", sort))
		return
	}
	st.heap.set(name, Store(arr, key, Fresh(name+"@h", vs)))
}

// ghostSorts: array sort of each ghost state function (from its declared signature).
var ghostSorts = map[string]string{}

var _ = strings.TrimSpace

// scalarLeaves flattens a value of type t, skipping everything inside array-typed parts.
func scalarLeaves(v Val, t types.Type) []*Term {
	switch kindOf(t) {
	case kArray:
		return nil
	case kStruct:
		st := t.Underlying().(*types.Struct)
		a := v.(*Agg)
		var out []*Term
		for i := 0; i < st.NumFields(); i++ {
			out = append(out, scalarLeaves(a.F[i], st.Field(i).Type())...)
		}
		return out
	}
	return flatten(v, nil)
}
