package main

import (
	"encoding/json"
	"flag"
	"fmt"
	"os"
	"path/filepath"
	"runtime"
	"runtime/debug"
	"sort"
	"strings"
	"sync"
	"time"

	"golang.org/x/tools/go/ssa"
)

type OblOut struct {
	Name     string            `json:"name"`
	Kind     string            `json:"kind"`
	Func     string            `json:"func"`
	Pos      string            `json:"pos,omitempty"`
	Text     string            `json:"text,omitempty"`
	Status   string            `json:"status"` // discharged | failed | undecided
	Answer   string            `json:"answer"` // unsat | sat | unknown | timeout
	Solver   string            `json:"solver"`
	Seconds  float64           `json:"seconds"`
	Backend  string            `json:"backend"`
	Model    map[string]string `json:"model,omitempty"`
	Output   string            `json:"solver_output,omitempty"`
	SMTFile  string            `json:"smt_file,omitempty"`
	BySolver map[string]string `json:"by_solver,omitempty"`
	Bounded  string            `json:"bounded,omitempty"`
	Parts    int               `json:"parts,omitempty"` // number of per-edge queries merged into this obligation
}

type Output struct {
	Functions   []*FuncReport `json:"functions"`
	Obligations []*OblOut     `json:"obligations"`
	Notes       []string      `json:"abstracted"`
	Assumptions []string      `json:"assumptions"`
	Errors      []string      `json:"errors"`
	LoadS       float64       `json:"load_s"`
	SsaS        float64       `json:"ssa_s"`
	GenS        float64       `json:"vcgen_s"`
	SolveS      float64       `json:"solve_s"`
	Missing     []string      `json:"missing_targets"`
	Contracts   []string      `json:"contract_files"`
}

func main() {
	debug.SetGCPercent(400)
	if runtime.GOMAXPROCS(0) > 6 {
		runtime.GOMAXPROCS(6)
	}
	if len(os.Args) < 2 {
		fmt.Fprintln(os.Stderr, "usage: govc verify|list ...")
		os.Exit(2)
	}
	switch os.Args[1] {
	case "verify":
		cmdVerify(os.Args[2:])
	default:
		fmt.Fprintln(os.Stderr, "unknown command")
		os.Exit(2)
	}
}

func cmdVerify(argv []string) {
	fs := flag.NewFlagSet("verify", flag.ExitOnError)
	repo := fs.String("repo", "/repo", "repository root")
	targets := fs.String("targets", "", "comma separated pkg:designator list (pkg relative to module); empty = every contract")
	out := fs.String("out", "", "output JSON file")
	smtdir := fs.String("smtdir", "", "directory for SMT files")
	tier := fs.String("tier", "quick", "quick|thorough")
	timeout := fs.Int("timeout", 0, "solver timeout in ms (default 8000 quick / 60000 thorough)")
	verbose := fs.Bool("v", false, "verbose")
	kinds := fs.String("kinds", "", "comma-separated obligation kinds to keep (default: all)")
	cover := fs.Bool("cover", false, "also check that the antecedent of every implication clause is satisfiable where the clause is checked (default: on in the thorough tier)")
	skip := fs.String("skip", "", "obligation names (separated by ;;) that are not claimed and need not be solved")
	_ = fs.Parse(argv)
	if *timeout == 0 {
		*timeout = 8000
		if *tier == "thorough" {
			*timeout = 60000
		}
	}
	if *tier == "thorough" {
		*cover = true
	}
	coverClauses = *cover
	if *smtdir == "" {
		d, _ := os.MkdirTemp("", "govc-smt")
		*smtdir = d
	}
	res := &Output{}
	P = NewPool()
	cs, err := parseContracts(*repo)
	if err != nil {
		fatal(res, *out, "contracts: %v", err)
	}
	res.Contracts = cs.Files
	prog, err := loadProgram(*repo)
	if err != nil {
		fatal(res, *out, "load: %v", err)
	}
	res.LoadS, res.SsaS = prog.LoadS, prog.SsaS
	ex := newExec(prog, cs)
	if err := ex.setupGhostsAndSpecs(); err != nil {
		fatal(res, *out, "ghost/spec declarations: %v", err)
	}
	for _, e := range ex.declErrors {
		res.Errors = append(res.Errors, "declaration: "+e)
	}
	// select targets
	type target struct {
		key   string
		con   *Contract
		sweep bool // reached through a "pkg:*" target: only the obligation kinds of -kinds are kept
	}
	var tgts []target
	var lemmas []*Clause
	if *targets == "" {
		for k, c := range cs.ByKey {
			if !c.IsIface {
				tgts = append(tgts, target{k, c, false})
			}
		}
	} else {
		for _, t := range strings.Split(*targets, ",") {
			t = strings.TrimSpace(t)
			if t == "" {
				continue
			}
			i := strings.Index(t, ":")
			pkg, des := t[:i], t[i+1:]
			if strings.HasPrefix(des, "lemma:") {
				pp := modPath + "/" + pkg
				found := false
				for _, cl := range cs.Lemmas {
					if cs.LemmaPk[cl] == pp && cl.Label == strings.TrimPrefix(des, "lemma:") {
						lemmas = append(lemmas, cl)
						found = true
					}
				}
				if !found {
					res.Missing = append(res.Missing, t+" (no such lemma)")
				}
				continue
			}
			if des == "*" {
				ex.forceNoPanic = true
				// sweep: every function of the package; functions without a contract get an empty one
				// (no precondition, no frame) whose only obligations are the implicit safety checks
				pp := modPath + "/" + pkg
				var keys []string
				for k := range prog.Funcs {
					if strings.HasPrefix(k, pp+":") {
						keys = append(keys, k)
					}
				}
				sort.Strings(keys)
				for _, k := range keys {
					if strings.Contains(k, "$") && cs.ByKey[k] == nil {
						continue // function literals without a contract are checked inside their parents
					}
					c := cs.ByKey[k]
					if c == nil {
						c = &Contract{PkgPath: pp, Target: k[len(pp)+1:], NoPanic: true, Sweep: true, Loops: map[int]*LoopSpec{}, Anchors: map[*Clause]string{}, File: "(no contract)"}
						cs.ByKey[k] = c // calls to it keep their meaning: nothing known, everything havoced
					}
					if c.IsIface || c.Trusted || c.Inline || c.Pure || c.PureHeap {
						continue
					}
					tgts = append(tgts, target{k, c, true})
				}
				continue
			}
			key := modPath + "/" + pkg + ":" + des
			if pkg == "." {
				key = modPath + ":" + des
			}
			c := cs.ByKey[key]
			if c == nil {
				res.Missing = append(res.Missing, t+" (no contract)")
				continue
			}
			tgts = append(tgts, target{key, c, false})
		}
	}
	{
		// a function named explicitly and through a sweep is verified once, in full
		explicit := map[string]bool{}
		for _, t := range tgts {
			if !t.sweep {
				explicit[t.key] = true
			}
		}
		var uniq []target
		seen := map[string]bool{}
		for _, t := range tgts {
			if (t.sweep && explicit[t.key]) || seen[t.key] {
				continue
			}
			seen[t.key] = true
			uniq = append(uniq, t)
		}
		tgts = uniq
	}
	sort.Slice(tgts, func(i, j int) bool { return tgts[i].key < tgts[j].key })
	kindSet := map[string]bool{}
	for _, k := range strings.Split(*kinds, ",") {
		if k != "" {
			kindSet[k] = true
		}
	}
	t0 := time.Now()
	type job struct {
		o      *Obligation
		script string
		lite   string // same query without quantified facts (may only discharge)
		cone   string // same query restricted to the facts in the goal's cone of influence (may only discharge)
	}
	var jobs []job
	for _, t := range tgts {
		ex.targetPkgs[t.con.PkgPath] = true
		if t.con.Trusted {
			ex.assumed["trusted contract (not verified): "+t.key] = true
			continue
		}
		fns := prog.Funcs[t.key]
		if len(fns) == 0 {
			res.Missing = append(res.Missing, t.key+" (function not found: contract no longer binds)")
			continue
		}
		for _, fn := range fns {
			if len(fn.Blocks) == 0 {
				continue
			}
			if hasTypeParams(fn) {
				continue // uninstantiated generic origin
			}
			before := len(ex.obls)
			if t.con.RealFloat {
				ex.assumed["float64 arithmetic in "+funcLabel(fn)+" is treated as exact real arithmetic (no rounding, NaN or Inf)"] = true
			}
			rep := ex.verifyFunction(fn, t.con)
			res.Functions = append(res.Functions, rep)
			ex.structuralObligations(res, fn, t.con)
			if rep.Error != "" {
				res.Errors = append(res.Errors, rep.Func+": "+rep.Error)
			}
			for _, o := range ex.obls[before:] {
				// functions without a contract have only implicit (safety) obligations; functions under
				// contract are verified in full, so that everything their safety proofs lean on
				// (invariants, callee postconditions) is itself checked in the same run
				if t.sweep && len(kindSet) > 0 && !kindMatch(kindSet, o.Kind) {
					continue
				}
				asserts := append([]*Term{}, ex.relevantFacts(o)...)
				// the boxed/pointer-shaped classification of dynamic types only matters to queries
				// that compare interface values; leaving it out elsewhere keeps a query independent
				// of which other functions happen to be verified in the same run
				usesTags := mentionsUF(o.Goal, "boxedtag")
				for _, a := range asserts {
					if usesTags {
						break
					}
					usesTags = mentionsUF(a, "boxedtag")
				}
				if usesTags {
					asserts = append(asserts, ex.tagFacts...)
				}
				for _, gf := range ex.globFacts {
					used := mentionsConst(o.Goal, gf.name)
					for _, a := range asserts {
						if used {
							break
						}
						used = mentionsConst(a, gf.name)
					}
					if used {
						asserts = append(asserts, gf.fact)
					}
				}
				asserts = append(asserts, Not(o.Goal))
				var gv []*Term
				if o.Kind != "vacuity" {
					gv = modelQueries(o.Inputs)
				}
				j := job{o: o, script: Script(asserts, gv, t.con.RealFloat)}
				if o.Kind != "vacuity" {
					var lite []*Term
					dropped := false
					for _, a := range asserts[:len(asserts)-1] {
						if hasQuantifier(a) {
							dropped = true
							continue
						}
						lite = append(lite, a)
					}
					if dropped {
						lite = append(lite, asserts[len(asserts)-1])
						j.lite = Script(lite, nil, t.con.RealFloat)
						if c := coneOf(asserts); len(c) < len(asserts) {
							j.cone = Script(c, nil, t.con.RealFloat)
						}
					}
				}
				jobs = append(jobs, j)
			}
		}
	}
	for _, cl := range lemmas {
		before := len(ex.obls)
		rep := ex.verifyLemma(cl, cs.LemmaPk[cl])
		res.Functions = append(res.Functions, rep)
		if rep.Error != "" {
			res.Errors = append(res.Errors, rep.Func+": "+rep.Error)
		}
		for _, o := range ex.obls[before:] {
			asserts := append([]*Term{}, ex.relevantFacts(o)...)
			asserts = append(asserts, Not(o.Goal))
			jobs = append(jobs, job{o: o, script: Script(asserts, nil, false)})
		}
	}
	ex.globalObligations(res)
	res.GenS = time.Since(t0).Seconds()
	// solve
	skipSet := map[string]bool{}
	for _, n := range strings.Split(*skip, ";;") {
		if n != "" {
			skipSet[n] = true
		}
	}
	t1 := time.Now()
	outs := make([]*OblOut, len(jobs))
	var wg sync.WaitGroup
	sem := make(chan struct{}, 10)
	// decide solves one obligation with the given timeout (all fallbacks included).
	decide := func(i int, j job, tmo int, suffix string) *OblOut {
		fname := fmt.Sprintf("%04d_%s", i, sanitize(j.o.Name)) + suffix
		if skipSet[j.o.Name] {
			return &OblOut{Name: j.o.Name, Kind: j.o.Kind, Func: j.o.Func, Pos: j.o.Pos, Text: j.o.Text, Status: "undecided", Answer: "skipped", Backend: "smt"}
		}
		if j.o.Kind == "vacuity" && tmo > 5000 {
			// a contradiction among the assumptions is found quickly or not at all
			tmo = 5000
		}
		r := Solve(j.script, *smtdir, fname, tmo, *tier == "thorough" && j.o.Kind != "vacuity")
		if r.Status != "unsat" && r.Status != "sat" && j.lite != "" {
			// retry without quantified facts: fewer assumptions, so only "unsat" is meaningful
			r2 := Solve(j.lite, *smtdir, fname+"_lite", tmo, false)
			if r2.Status == "unsat" {
				r2.Solver += "(qf-facts)"
				r2.Seconds += r.Seconds
				r = r2
			} else if j.cone != "" {
				r3 := Solve(j.cone, *smtdir, fname+"_cone", tmo, false)
				if r3.Status == "unsat" {
					r3.Solver += "(cone)"
					r3.Seconds += r.Seconds
					r = r3
				}
			}
		}
		if r.Status != "unsat" && r.Status != "sat" && j.o.Kind != "vacuity" {
			// last resort: other random seeds (accepted only when they refute the negated goal)
			t := tmo
			if t > 5000 {
				t = 5000
			}
			if r4 := SolveSeeded(j.script, *smtdir, fname, t); r4.Status == "unsat" {
				r4.Seconds += r.Seconds
				r = r4
			}
		}
		oo := &OblOut{Name: j.o.Name, Kind: j.o.Kind, Func: j.o.Func, Pos: j.o.Pos, Text: j.o.Text, Answer: r.Status, Solver: r.Solver,
			Seconds: r.Seconds, Backend: "smt", SMTFile: filepath.Join(*smtdir, fname+".smt2"), BySolver: r.ByName}
		switch {
		case j.o.Kind == "vacuity":
			// expected sat (or undecided); unsat means the assumptions are contradictory
			if r.Status == "unsat" {
				oo.Status = "failed"
				oo.Output = "assumptions are contradictory: every obligation of this function would hold vacuously"
			} else {
				oo.Status = "discharged"
			}
		case r.Status == "unsat" && disagree(r.ByName):
			// thorough tier: every solver ran to completion and they contradict each other
			oo.Status = "undecided"
			oo.Output = fmt.Sprintf("solvers disagree: %v", r.ByName)
		case r.Status == "unsat":
			oo.Status = "discharged"
		case r.Status == "sat":
			oo.Status = "failed"
			oo.Model = r.Values
			oo.Output = trunc(r.Output, 4000)
		default:
			oo.Status = "undecided"
			oo.Output = trunc(r.Output, 2000)
		}
		return oo
	}
	for i, j := range jobs {
		wg.Add(1)
		go func(i int, j job) {
			defer wg.Done()
			sem <- struct{}{}
			defer func() { <-sem }()
			outs[i] = decide(i, j, *timeout, "")
		}(i, j)
	}
	wg.Wait()
	// Second pass: an obligation that no solver decided within the timeout is tried again, a few
	// at a time and with four times the timeout, once the other queries of this run are out of the
	// way. A timeout under load is thereby not reported as an undischarged obligation; "sat"
	// (a refutation) and "unsat" of the first pass stand.
	{
		sem2 := make(chan struct{}, 3)
		for i, j := range jobs {
			oo := outs[i]
			if oo == nil || oo.Status != "undecided" || oo.Answer == "skipped" || j.o.Kind == "vacuity" || strings.HasPrefix(oo.Output, "solvers disagree") {
				continue
			}
			wg.Add(1)
			go func(i int, j job, first *OblOut) {
				defer wg.Done()
				sem2 <- struct{}{}
				defer func() { <-sem2 }()
				t := *timeout * 4
				if t > 120000 {
					t = 120000
				}
				again := decide(i, j, t, "_retry")
				again.Seconds += first.Seconds
				if again.Status != "undecided" {
					again.Solver += " (second pass)"
				}
				outs[i] = again
			}(i, j, oo)
		}
		wg.Wait()
	}
	res.SolveS = time.Since(t1).Seconds()
	// parts of a split check are reported as one obligation: discharged iff every part is
	{
		var merged []*OblOut
		first := map[string]*OblOut{}
		for i, oo := range outs {
			if jobs[i].o.Part == 0 {
				merged = append(merged, oo)
				continue
			}
			f := first[oo.Name]
			if f == nil {
				first[oo.Name] = oo
				oo.Parts = 1
				merged = append(merged, oo)
				continue
			}
			f.Parts++
			f.Seconds += oo.Seconds
			if !strings.Contains(f.Solver, oo.Solver) {
				f.Solver += "+" + oo.Solver
			}
			rank := map[string]int{"discharged": 0, "undecided": 1, "failed": 2}
			if rank[oo.Status] > rank[f.Status] {
				f.Status, f.Answer, f.Model, f.Output, f.SMTFile = oo.Status, oo.Answer, oo.Model, oo.Output, oo.SMTFile
			}
		}
		outs = merged
	}
	res.Obligations = append(res.Obligations, outs...)
	for n := range ex.notes {
		res.Notes = append(res.Notes, n)
	}
	sort.Strings(res.Notes)
	for n := range ex.assumed {
		res.Assumptions = append(res.Assumptions, n)
	}
	sort.Strings(res.Assumptions)
	writeOut(res, *out)
	if *verbose {
		for _, o := range res.Obligations {
			fmt.Printf("%-10s %-8s %6.2fs %s\n", o.Status, o.Solver, o.Seconds, o.Name)
		}
		for _, e := range res.Errors {
			fmt.Println("ERROR", e)
		}
		for _, m := range res.Missing {
			fmt.Println("MISSING", m)
		}
		fmt.Printf("load %.1fs ssa %.1fs vcgen %.1fs solve %.1fs\n", res.LoadS, res.SsaS, res.GenS, res.SolveS)
	}
}

// disagree: some solver refuted the negated goal while another found a model for it.
func disagree(by map[string]string) bool {
	sat, unsat := false, false
	for _, v := range by {
		if v == "sat" {
			sat = true
		}
		if v == "unsat" {
			unsat = true
		}
	}
	return sat && unsat
}

// kindMatch: exact kind, or the kind after a "loopN." prefix (loop0.decreases matches "decreases").
func kindMatch(set map[string]bool, kind string) bool {
	if set[kind] {
		return true
	}
	if i := strings.Index(kind, "."); i >= 0 && strings.HasPrefix(kind, "loop") {
		return set[kind[i+1:]]
	}
	return false
}

func hasTypeParams(fn *ssa.Function) bool {
	for f := fn; f != nil; f = f.Parent() {
		if f.TypeParams().Len() > 0 && len(f.TypeArgs()) == 0 {
			return true
		}
	}
	return false
}

func sanitize(s string) string {
	var sb strings.Builder
	for _, c := range s {
		if c >= 'a' && c <= 'z' || c >= 'A' && c <= 'Z' || c >= '0' && c <= '9' || c == '.' || c == '-' || c == '_' {
			sb.WriteRune(c)
		} else {
			sb.WriteByte('_')
		}
	}
	r := sb.String()
	if len(r) > 120 {
		r = r[:120]
	}
	return r
}

func modelQueries(ins []namedTerm) []*Term {
	var out []*Term
	for _, in := range ins {
		switch in.T.Sort {
		case SStr:
			out = append(out, SLen(in.T))
			for i := 0; i < 6; i++ {
				out = append(out, SAt(in.T, IntT(int64(i))))
			}
		default:
			out = append(out, in.T)
		}
	}
	if len(out) > 60 {
		out = out[:60]
	}
	return out
}

func writeOut(res *Output, out string) {
	b, _ := json.MarshalIndent(res, "", " ")
	if out == "" {
		os.Stdout.Write(b)
		return
	}
	_ = os.WriteFile(out, b, 0o644)
}

func fatal(res *Output, out string, f string, a ...any) {
	res.Errors = append(res.Errors, fmt.Sprintf(f, a...))
	writeOut(res, out)
	fmt.Fprintf(os.Stderr, f+"\n", a...)
	os.Exit(3)
}

var quantMemo = map[int]bool{}

var ufMemo = map[string]map[int]bool{}

func mentionsUF(t *Term, name string) bool {
	m := ufMemo[name]
	if m == nil {
		m = map[int]bool{}
		ufMemo[name] = m
	}
	if v, ok := m[t.id]; ok {
		return v
	}
	r := t.Name == name && (t.Op == "uf" || t.Op == "app")
	if !r {
		for _, a := range t.Args {
			if mentionsUF(a, name) {
				r = true
				break
			}
		}
	}
	m[t.id] = r
	return r
}

var constMemo = map[string]map[int]bool{}

func mentionsConst(t *Term, name string) bool {
	m := constMemo[name]
	if m == nil {
		m = map[int]bool{}
		constMemo[name] = m
	}
	if v, ok := m[t.id]; ok {
		return v
	}
	r := t.Op == "const" && t.Name == name
	if !r {
		for _, a := range t.Args {
			if mentionsConst(a, name) {
				r = true
				break
			}
		}
	}
	m[t.id] = r
	return r
}

func hasQuantifier(t *Term) bool {
	if v, ok := quantMemo[t.id]; ok {
		return v
	}
	r := t.Op == "forall" || t.Op == "exists"
	if !r {
		for _, a := range t.Args {
			if hasQuantifier(a) {
				r = true
				break
			}
		}
	}
	quantMemo[t.id] = r
	return r
}

// coneOf keeps the goal (last assert) and the facts reachable from it through shared symbols;
// quantifier-free facts are always kept, quantified ones only when connected. Fewer assumptions,
// so only "unsat" from such a query is meaningful.
func coneOf(asserts []*Term) []*Term {
	syms := func(t *Term) map[string]bool {
		out := map[string]bool{}
		seen := map[int]bool{}
		var rec func(t *Term)
		rec = func(t *Term) {
			if seen[t.id] {
				return
			}
			seen[t.id] = true
			if t.Op == "const" || t.Op == "uf" {
				switch t.Name {
				case "slen", "sat", "sconcat", "ssub", "boxedtag", "strlt":
				default:
					out[t.Name] = true
				}
			}
			for _, a := range t.Args {
				rec(a)
			}
		}
		rec(t)
		return out
	}
	n := len(asserts)
	goal := asserts[n-1]
	cur := syms(goal)
	fs := make([]map[string]bool, n-1)
	for i := 0; i < n-1; i++ {
		fs[i] = syms(asserts[i])
	}
	in := make([]bool, n-1)
	for i := 0; i < n-1; i++ {
		if !hasQuantifier(asserts[i]) {
			in[i] = true
			for s := range fs[i] {
				cur[s] = true
			}
		}
	}
	// quantified facts: connected only through the goal's own symbols (one step), not transitively
	goalSyms := syms(goal)
	for round := 0; round < 3; round++ {
		for i := 0; i < n-1; i++ {
			if in[i] {
				continue
			}
			for s := range fs[i] {
				if goalSyms[s] {
					in[i] = true
					for s2 := range fs[i] {
						if strings.HasPrefix(s2, "H_") || strings.HasPrefix(s2, "M") || strings.HasPrefix(s2, "G@") {
							goalSyms[s2] = true
						}
					}
					break
				}
			}
		}
	}
	var out []*Term
	for i := 0; i < n-1; i++ {
		if in[i] {
			out = append(out, asserts[i])
		}
	}
	return append(out, goal)
}
