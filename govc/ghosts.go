package main

import (
	"fmt"
	"go/ast"
	"go/parser"
	"go/token"
	"go/types"
	"sort"
	"strings"

	"golang.org/x/tools/go/packages"
	"golang.org/x/tools/go/ssa"
)

type specFuncInfo struct {
	decl *SpecFunc
	pkg  *packages.Package
	pos  token.Pos
	lit  *ast.FuncLit
	info *types.Info
	err  error
}

var specFuncs = map[string]*specFuncInfo{}

// pkgPos returns a position inside a regular file of the package (file scope with its imports).
func pkgPos(pk *packages.Package, hint string) token.Pos {
	var files []*ast.File
	for _, f := range pk.Syntax {
		name := pk.Fset.Position(f.Pos()).Filename
		if strings.HasSuffix(name, "verif_contracts.go") || strings.HasSuffix(name, "_test.go") {
			continue
		}
		if hint != "" && strings.HasSuffix(name, "/"+hint) {
			return f.End() - 1
		}
		files = append(files, f)
	}
	sort.Slice(files, func(i, j int) bool {
		return pk.Fset.Position(files[i].Pos()).Filename < pk.Fset.Position(files[j].Pos()).Filename
	})
	if len(files) == 0 {
		return token.NoPos
	}
	return files[0].End() - 1
}

func (ex *Exec) setupGhostsAndSpecs() error {
	sigOf := func(pk *packages.Package, pos token.Pos, sigText string) (*types.Signature, error) {
		e, err := parser.ParseExprFrom(pk.Fset, "ghost", "(func"+sigText+")(nil)", 0)
		if err != nil {
			return nil, err
		}
		info := &types.Info{Types: map[ast.Expr]types.TypeAndValue{}}
		if err := types.CheckExpr(pk.Fset, pk.Types, pos, e, info); err != nil {
			return nil, err
		}
		t := info.Types[e].Type
		sig, ok := t.(*types.Signature)
		if !ok {
			return nil, fmt.Errorf("not a signature: %s", sigText)
		}
		return sig, nil
	}
	for _, g := range ex.cs.Ghosts {
		pk := ex.prog.Pkgs[g.PkgPath]
		if pk == nil {
			return fmt.Errorf("%s:%d: package %s not loaded", g.File, g.Line, g.PkgPath)
		}
		ensureIntrinsics(pk.Types)
		sig, err := sigOf(pk, pkgPos(pk, g.Scope), g.Sig)
		if err != nil {
			// not fatal for the run: the clauses that use the declaration stop type-checking and
			// their functions are reported individually
			ex.declErrors = append(ex.declErrors, fmt.Sprintf("%s:%d: ghost %s: %v", g.File, g.Line, g.Name, err))
			continue
		}
		if pk.Types.Scope().Lookup(g.Name) == nil {
			pk.Types.Scope().Insert(types.NewFunc(token.NoPos, pk.Types, g.Name, sig))
		}
		if g.Heap && sig.Results().Len() == 1 {
			rs := leafSort(sig.Results().At(0).Type())
			if sig.Params().Len() == 0 {
				ghostSorts[g.Name] = arrSort(SInt, rs)
			} else {
				ghostSorts[g.Name] = arrSort(SPtr, rs)
			}
		}
	}
	for _, s := range ex.cs.Specs {
		pk := ex.prog.Pkgs[s.PkgPath]
		if pk == nil {
			return fmt.Errorf("%s:%d: package %s not loaded", s.File, s.Line, s.PkgPath)
		}
		ensureIntrinsics(pk.Types)
		// signature = text up to the opening brace of the body
		i := strings.Index(s.Text, "{")
		if i < 0 {
			return fmt.Errorf("%s:%d: spec func %s has no body", s.File, s.Line, s.Name)
		}
		head := strings.TrimSpace(s.Text[:i]) // "func name(params) T"
		sigText := strings.TrimPrefix(head, "func "+s.Name)
		pos := pkgPos(pk, s.Scope)
		sig, err := sigOf(pk, pos, sigText)
		if err != nil {
			ex.declErrors = append(ex.declErrors, fmt.Sprintf("%s:%d: spec func %s: %v", s.File, s.Line, s.Name, err))
			continue
		}
		if pk.Types.Scope().Lookup(s.Name) == nil {
			pk.Types.Scope().Insert(types.NewFunc(token.NoPos, pk.Types, s.Name, sig))
		}
		specFuncs[s.PkgPath+"."+s.Name] = &specFuncInfo{decl: s, pkg: pk, pos: pos}
	}
	return nil
}

func (ex *Exec) specByName(pkgPath, name string) *specFuncInfo {
	sf := specFuncs[pkgPath+"."+name]
	if sf == nil {
		return nil
	}
	if sf.lit == nil && sf.err == nil {
		i := strings.Index(sf.decl.Text, "{")
		head := strings.TrimSpace(sf.decl.Text[:i])
		sigText := strings.TrimPrefix(head, "func "+sf.decl.Name)
		text := "func" + sigText + " " + sf.decl.Text[i:]
		e, err := parser.ParseExprFrom(sf.pkg.Fset, "spec", text, 0)
		if err != nil {
			sf.err = err
			return sf
		}
		info := &types.Info{Types: map[ast.Expr]types.TypeAndValue{}, Uses: map[*ast.Ident]types.Object{}, Defs: map[*ast.Ident]types.Object{},
			Selections: map[*ast.SelectorExpr]*types.Selection{}, Instances: map[*ast.Ident]types.Instance{}, Scopes: map[ast.Node]*types.Scope{}}
		if err := types.CheckExpr(sf.pkg.Fset, sf.pkg.Types, sf.pos, e, info); err != nil {
			sf.err = err
			return sf
		}
		sf.lit = e.(*ast.FuncLit)
		sf.info = info
	}
	return sf
}

// callSpecFunc evaluates a specification function by unfolding its body.
func (e *SpecEnv) callSpecFunc(sf *specFuncInfo, args []Val) Val {
	if sf.err != nil {
		e.fail("spec func %s: %v", sf.decl.Name, sf.err)
	}
	if e.ex.specDepth > 8 {
		e.fail("spec func %s: unfolding depth exceeded (recursive specification functions are unfolded, not axiomatised)", sf.decl.Name)
	}
	e.ex.specDepth++
	defer func() { e.ex.specDepth-- }()
	sub := &SpecEnv{ex: e.ex, pkg: sf.pkg, pos: sf.pos, st: e.st, old: e.old, head: e.head, frame: nil, objs: map[types.Object]Val{}, entry: map[types.Object]Val{},
		inOld: e.inOld, info: sf.info, label: "spec " + sf.decl.Name}
	k := 0
	for _, f := range sf.lit.Type.Params.List {
		for _, n := range f.Names {
			if k < len(args) {
				sub.objs[sf.info.Defs[n]] = args[k]
			}
			k++
		}
	}
	return sub.evalBody(sf.lit.Body.List)
}

func (e *SpecEnv) evalBody(stmts []ast.Stmt) Val {
	if len(stmts) == 0 {
		e.fail("specification function body falls off the end")
	}
	switch s := stmts[0].(type) {
	case *ast.ReturnStmt:
		if len(s.Results) != 1 {
			e.fail("specification functions return exactly one value")
		}
		return e.eval(s.Results[0])
	case *ast.IfStmt:
		if s.Init != nil {
			e.fail("if with init statement in specification function")
		}
		c := e.eval(s.Cond).(*Term)
		rest := stmts[1:]
		thenV := e.evalBody(append(append([]ast.Stmt{}, s.Body.List...), rest...))
		var elseV Val
		if s.Else != nil {
			switch el := s.Else.(type) {
			case *ast.BlockStmt:
				elseV = e.evalBody(append(append([]ast.Stmt{}, el.List...), rest...))
			case *ast.IfStmt:
				elseV = e.evalBody(append([]ast.Stmt{el}, rest...))
			}
		} else {
			elseV = e.evalBody(rest)
		}
		return iteVal(c, thenV, elseV)
	}
	e.fail("unsupported statement %T in specification function", stmts[0])
	return nil
}

// globalObligations checks `global v invariant len(v) == N`-style clauses syntactically:
// the variable is initialised by a composite literal and never assigned outside package init.
func (ex *Exec) globalObligations(res *Output) {
	for _, g := range ex.cs.Globals {
		if !ex.targetPkgs[g.PkgPath] {
			continue
		}
		pk := ex.prog.Pkgs[g.PkgPath]
		name := fmt.Sprintf("%s.global[%s]#invariant", pk.Types.Name(), g.Var)
		if g.MapKey != "" {
			name = fmt.Sprintf("%s.global[%s]#maps[%s]", pk.Types.Name(), g.Var, strings.Trim(g.MapKey, "\""))
		}
		oo := &OblOut{Name: name, Kind: "global", Func: pk.Types.Name() + ".<globals>", Text: g.Clause.Text, Backend: "syntactic", Solver: "syntactic", Answer: "n/a"}
		ok, why := ex.checkGlobalInv(pk, g)
		if ok {
			oo.Status = "discharged"
		} else {
			oo.Status = "failed"
			oo.Output = why
		}
		res.Obligations = append(res.Obligations, oo)
	}
}

func (ex *Exec) checkGlobalInv(pk *packages.Package, g *GlobalInv) (bool, string) {
	// supported forms: len(<var>) == <int literal>, and entries of a map literal
	text := strings.ReplaceAll(g.Clause.Text, " ", "")
	want := -1
	if g.MapKey == "" {
		if _, err := fmt.Sscanf(text, "len("+g.Var+")==%d", &want); err != nil {
			return false, "only invariants of the form len(v) == N are supported"
		}
	}
	obj, _ := pk.Types.Scope().Lookup(g.Var).(*types.Var)
	if obj == nil {
		return false, "no such package-level variable"
	}
	// find initialiser
	n := -1
	mapOK, mapBad := false, false
	for _, f := range pk.Syntax {
		ast.Inspect(f, func(nd ast.Node) bool {
			vs, ok := nd.(*ast.ValueSpec)
			if !ok {
				return true
			}
			for i, id := range vs.Names {
				if pk.TypesInfo.Defs[id] == obj && i < len(vs.Values) {
					if cl, ok := vs.Values[i].(*ast.CompositeLit); ok {
						n = len(cl.Elts)
						for _, e := range cl.Elts {
							if kv, isKV := e.(*ast.KeyValueExpr); isKV {
								if g.MapKey == "" {
									n = -1
								} else if bl, ok := kv.Key.(*ast.BasicLit); ok && bl.Value == g.MapKey {
									if id, ok := kv.Value.(*ast.Ident); ok && id.Name == g.MapVal {
										mapOK = true
									} else {
										mapBad = true
									}
								}
							}
						}
					}
				}
			}
			return true
		})
	}
	if g.MapKey != "" {
		if !mapOK || mapBad {
			return false, fmt.Sprintf("the literal does not map %s to %s", g.MapKey, g.MapVal)
		}
	} else if n != want {
		return false, fmt.Sprintf("initialiser has %d elements, invariant says %d", n, want)
	}
	// no assignment outside init
	sp := ex.prog.SSA.Package(pk.Types)
	glob, _ := sp.Members[g.Var].(*ssa.Global)
	if glob == nil {
		return false, "global not found in SSA"
	}
	for fn := range ex.prog.All {
		if fn.Pkg != sp && (fn.Origin() == nil || fn.Origin().Pkg != sp) {
			if fn.Parent() == nil || ex.prog.pkgOf(fn) != pk {
				continue
			}
		}
		if fn.Name() == "init" && fn.Parent() == nil {
			continue
		}
		for _, b := range fn.Blocks {
			for _, in := range b.Instrs {
				if st, ok := in.(*ssa.Store); ok {
					if st.Addr == ssa.Value(glob) {
						return false, "assigned in " + fn.String()
					}
				}
				// address escaping: &v passed anywhere
				for _, op := range in.Operands(nil) {
					if *op == ssa.Value(glob) {
						switch ld := in.(type) {
						case *ssa.UnOp:
							if g.MapKey != "" {
								// the map value itself must only be looked up (never updated, ranged or passed on)
								for _, r := range *ld.Referrers() {
									switch u := r.(type) {
									case *ssa.Lookup:
										if u.X != ssa.Value(ld) {
											return false, "the map is used as a key in " + fn.String()
										}
									case *ssa.DebugRef:
									default:
										return false, fmt.Sprintf("the map value is used by %T in %s (only lookups keep the table fixed)", r, fn.String())
									}
								}
							}
						case *ssa.Store:
						default:
							return false, "address of the variable is used in " + fn.String()
						}
					}
				}
			}
		}
	}
	return true, ""
}

// structuralObligations checks `per_iteration v` clauses of a closure contract on the SSA of the
// enclosing function: the closure is created inside a loop and the cell of v that it captures is
// allocated inside that same loop, i.e. every closure instance (every goroutine started from the
// loop) owns a different v.
func (ex *Exec) structuralObligations(res *Output, fn *ssa.Function, con *Contract) {
	for _, name := range con.PerIter {
		oo := &OblOut{Name: fmt.Sprintf("%s#per-iteration[%s]", funcLabel(fn), name), Kind: "structural", Func: funcLabel(fn),
			Text: "per_iteration " + name, Backend: "syntactic", Solver: "syntactic", Answer: "n/a", Status: "failed"}
		res.Obligations = append(res.Obligations, oo)
		parent := fn.Parent()
		if parent == nil {
			oo.Output = "not a function literal"
			continue
		}
		k := -1
		for i, fv := range fn.FreeVars {
			if fv.Name() == name {
				k = i
			}
		}
		if k < 0 {
			oo.Output = "the closure does not capture " + name
			continue
		}
		li := computeLoops(parent)
		found, ok := false, true
		why := ""
		for _, b := range parent.Blocks {
			for _, in := range b.Instrs {
				mc, isMC := in.(*ssa.MakeClosure)
				if !isMC || mc.Fn != ssa.Value(fn) || k >= len(mc.Bindings) {
					continue
				}
				found = true
				al, isAlloc := mc.Bindings[k].(*ssa.Alloc)
				if !isAlloc {
					ok, why = false, "the captured cell is not a local allocation"
					continue
				}
				inSameLoop := false
				for _, body := range li.body {
					if body[b] && body[al.Block()] {
						inSameLoop = true
					}
				}
				if !inSameLoop {
					ok, why = false, fmt.Sprintf("the cell of %s is allocated outside the loop that creates the closure: all instances share it", name)
				}
			}
		}
		switch {
		case !found:
			oo.Output = "closure creation not found in " + funcLabel(parent)
		case !ok:
			oo.Output = why
		default:
			oo.Status = "discharged"
		}
	}
}
