package main

// Parser for //@ contract blocks in /repo/<pkg>/verif_contracts.go (build tag verif, comment-only).

import (
	"fmt"
	"os"
	"path/filepath"
	"regexp"
	"strconv"
	"strings"
)

type Clause struct {
	Kind  string // requires, ensures, invariant, body_ensures, decreases, assert
	Label string
	Text  string
	File  string
	Line  int
}

type LoopSpec struct {
	Invariants  []*Clause
	BodyEnsures []*Clause // checked at every back edge
	ExitEnsures []*Clause // checked at every loop exit edge
	EntryEnsures []*Clause // checked when the loop is first reached (state before the first iteration)
	Decreases   *Clause
	Modifies    []*Clause // heap frame of the loop (lvalue expressions)
	Unroll      int
}

type Capture struct {
	Name   string
	Callee string // selector text, e.g. "m.Left.Process"
	Ord    int
	Line   int
}

type Contract struct {
	PkgPath  string
	Target   string // designator
	IsIface  bool   // abstract contract of an interface method "Iface.Method"
	Pure     bool   // result is a function of the arguments (flattened); heap not read
	PureHeap bool   // result is a function of arguments and heap version
	Inline   bool
	Trusted  bool // assumed, not verified (listed as assumption)
	NoPanic  bool // generate implicit safety obligations
	Sweep    bool // synthesized empty contract of a function checked for safety only
	RealFloat bool // float64 treated as exact reals in this function's obligations
	Logical  [][2]string // logical (universally quantified) variables: name, type text
	CallbackStable []string // callback contracts: expressions left unchanged by an invocation that returns a nil error
	MayReturnNil bool // (T, error) function that deliberately returns (nil, nil): exempt from the value-or-error convention
	TrustedFrame bool // the modifies clause is used by callers but not checked on the body (listed as assumption)
	AssumeFresh []string // callee expression texts whose calls return freshly allocated values and modify nothing
	AssumeValueOrError []string // callee expression texts whose calls return a non-nil first result whenever their last (error) result is nil
	PerIter    []string // captured variables of a closure that must be fresh in every iteration of the loop creating it
	Calls      []string // function-valued parameters the function may invoke (their frames are part of this one's)
	AssumePure []string // callee expression texts whose calls (through function values) are assumed pure
	Requires []*Clause
	Ensures  []*Clause
	Modifies []*Clause
	HasMod   bool
	Loops    map[int]*LoopSpec
	Captures []*Capture
	Asserts  []*Clause // assert@call(name,ord)[label] expr  (Label holds label, Kind "assert", anchor in Anchor)
	Anchors  map[*Clause]string
	File     string
	Line     int
	Used     bool
}

type GhostDecl struct {
	Scope   string
	PkgPath string
	Name    string
	Sig     string // Go signature text "(x any) int"
	Heap    bool   // value depends on ghost heap (is a ghost *state* function)
	File    string
	Line    int
}

type SpecFunc struct {
	Scope   string
	PkgPath string
	Name    string
	Text    string // complete "func name(...) T { return ... }"
	File    string
	Line    int
}

type GlobalInv struct {
	PkgPath string
	Var     string
	Clause  *Clause
	MapKey  string // for `maps` entries: quoted key and value identifier
	MapVal  string
}

type Contracts struct {
	ByKey   map[string]*Contract // "pkgpath:designator"
	Ghosts  []*GhostDecl
	Specs   []*SpecFunc
	Globals []*GlobalInv
	Lemmas  []*Clause
	LemmaPk map[*Clause]string
	LemmaScope map[*Clause]string
	Files   []string
	Scope   map[string]string // package path -> file whose imports are visible to spec/ghost/lemma declarations
}

var clauseHead = regexp.MustCompile(`^(scope|func|iface|realfloat|per_iteration|calls|assume_pure|assume_fresh|assume_value_or_error|may_return_nil|callback_stable|trusted_frame|logical|pure_heap|pure|inline|trusted|nopanic|requires|ensures|modifies|loop|capture|assert@|ghost|spec|global|lemma)\b`)
var labelRe = regexp.MustCompile(`^\[([^\]]+)\]\s*`)

func parseContracts(repo string) (*Contracts, error) {
	cs := &Contracts{ByKey: map[string]*Contract{}, LemmaPk: map[*Clause]string{}, Scope: map[string]string{}, LemmaScope: map[*Clause]string{}}
	var files []string
	_ = filepath.Walk(repo, func(p string, info os.FileInfo, err error) error {
		if err != nil {
			return nil
		}
		if info.IsDir() && (info.Name() == ".git" || info.Name() == "vendor") {
			return filepath.SkipDir
		}
		if !info.IsDir() && info.Name() == "verif_contracts.go" {
			files = append(files, p)
		}
		return nil
	})
	for _, f := range files {
		rel, _ := filepath.Rel(repo, filepath.Dir(f))
		pkgPath := modPath
		if rel != "." {
			pkgPath = modPath + "/" + filepath.ToSlash(rel)
		}
		if err := cs.parseFile(f, pkgPath); err != nil {
			return nil, err
		}
		cs.Files = append(cs.Files, f)
	}
	return cs, nil
}

func (cs *Contracts) parseFile(file, pkgPath string) error {
	data, err := os.ReadFile(file)
	if err != nil {
		return err
	}
	type item struct {
		text string
		line int
	}
	var items []item
	for i, ln := range strings.Split(string(data), "\n") {
		t := strings.TrimSpace(ln)
		if !strings.HasPrefix(t, "//@") {
			continue
		}
		t = strings.TrimSpace(t[3:])
		// strip trailing comment "   // ..."
		if k := strings.Index(t, "   //"); k >= 0 {
			t = strings.TrimSpace(t[:k])
		}
		if t == "" {
			continue
		}
		if clauseHead.MatchString(t) || len(items) == 0 {
			items = append(items, item{t, i + 1})
		} else if strings.HasPrefix(items[len(items)-1].text, "spec") {
			items[len(items)-1].text += "\n" + t
		} else {
			items[len(items)-1].text += " " + t
		}
	}
	var cur *Contract
	for _, it := range items {
		t := it.text
		kw := clauseHead.FindString(t)
		rest := strings.TrimSpace(t[len(kw):])
		mkClause := func(kind string) *Clause {
			c := &Clause{Kind: kind, File: file, Line: it.line}
			if m := labelRe.FindStringSubmatch(rest); m != nil {
				c.Label = m[1]
				rest = rest[len(m[0]):]
			}
			c.Text = rewriteImplies(rest)
			return c
		}
		switch kw {
		case "scope":
			cs.Scope[pkgPath] = rest
		case "func", "iface":
			cur = &Contract{PkgPath: pkgPath, Target: strings.ReplaceAll(rest, " ", ""), IsIface: kw == "iface",
				Loops: map[int]*LoopSpec{}, Anchors: map[*Clause]string{}, File: file, Line: it.line}
			key := pkgPath + ":" + cur.Target
			if kw == "iface" {
				key = pkgPath + ":iface:" + cur.Target
				// external interface: "path/to/pkg.Iface.Method"
				if i := strings.LastIndex(cur.Target, "/"); i >= 0 {
					rest2 := cur.Target[i+1:]
					if j := strings.Index(rest2, "."); j >= 0 {
						key = cur.Target[:i+1+j] + ":iface:" + rest2[j+1:]
						cur.Trusted = true
					}
				} else if parts := strings.Split(cur.Target, "."); len(parts) == 3 {
					// standard-library interface: "io.Writer.Write"
					key = parts[0] + ":iface:" + parts[1] + "." + parts[2]
					cur.Trusted = true
				}
			}
			if _, dup := cs.ByKey[key]; dup {
				return fmt.Errorf("%s:%d: duplicate contract for %s", file, it.line, key)
			}
			cs.ByKey[key] = cur
		case "ghost":
			// ghost func name(sig) T   |  ghost state func name(sig) T
			heap := false
			if strings.HasPrefix(rest, "state ") {
				heap = true
				rest = strings.TrimSpace(rest[6:])
			}
			rest = strings.TrimPrefix(rest, "func ")
			i := strings.Index(rest, "(")
			if i < 0 {
				return fmt.Errorf("%s:%d: bad ghost decl", file, it.line)
			}
			cs.Ghosts = append(cs.Ghosts, &GhostDecl{Scope: cs.Scope[pkgPath], PkgPath: pkgPath, Name: strings.TrimSpace(rest[:i]), Sig: rest[i:], Heap: heap, File: file, Line: it.line})
		case "spec":
			rest = strings.TrimPrefix(rest, "func ")
			i := strings.Index(rest, "(")
			if i < 0 {
				return fmt.Errorf("%s:%d: bad spec func", file, it.line)
			}
			cs.Specs = append(cs.Specs, &SpecFunc{Scope: cs.Scope[pkgPath], PkgPath: pkgPath, Name: strings.TrimSpace(rest[:i]), Text: "func " + rewriteImplies(rest), File: file, Line: it.line})
		case "global":
			// global <var> invariant <expr>
			f := strings.Fields(rest)
			if len(f) == 4 && f[1] == "maps" {
				// global <var> maps "<key>" <Ident>: entry of a map literal (checked syntactically)
				cs.Globals = append(cs.Globals, &GlobalInv{PkgPath: pkgPath, Var: f[0], MapKey: f[2], MapVal: f[3],
					Clause: &Clause{Kind: "global", Text: fmt.Sprintf("has(%s, %s) && %s[%s] == %s", f[0], f[2], f[0], f[2], f[3]), File: file, Line: it.line}})
				continue
			}
			if len(f) < 3 || f[1] != "invariant" {
				return fmt.Errorf("%s:%d: bad global clause", file, it.line)
			}
			rest = strings.TrimSpace(strings.TrimPrefix(strings.TrimSpace(strings.TrimPrefix(rest, f[0])), "invariant"))
			cl := mkClause("global")
			cs.Globals = append(cs.Globals, &GlobalInv{PkgPath: pkgPath, Var: f[0], Clause: cl})
		case "lemma":
			cl := mkClause("lemma")
			cs.Lemmas = append(cs.Lemmas, cl)
			cs.LemmaPk[cl] = pkgPath
			cs.LemmaScope[cl] = cs.Scope[pkgPath]
		default:
			if cur == nil {
				return fmt.Errorf("%s:%d: clause outside func block: %s", file, it.line, t)
			}
			switch kw {
			case "pure":
				cur.Pure = true
			case "pure_heap":
				cur.PureHeap = true
			case "inline":
				cur.Inline = true
			case "trusted":
				cur.Trusted = true
			case "nopanic":
				cur.NoPanic = true
			case "realfloat":
				cur.RealFloat = true
			case "logical":
				f := strings.Fields(rest)
				if len(f) != 2 {
					return fmt.Errorf("%s:%d: logical <name> <type>", file, it.line)
				}
				cur.Logical = append(cur.Logical, [2]string{f[0], f[1]})
			case "trusted_frame":
				cur.TrustedFrame = true
			case "may_return_nil":
				cur.MayReturnNil = true
			case "callback_stable":
				// checked on the callback itself as a postcondition, used by the library models that
				// invoke it (an iteration that ends without an error ran only successful callbacks)
				e := strings.TrimSpace(rest)
				cur.CallbackStable = append(cur.CallbackStable, e)
				cur.Ensures = append(cur.Ensures, &Clause{Kind: "ensures", File: file, Line: it.line, Label: "stable-when-it-succeeds:" + e,
					Text: rewriteImplies("ret0 == nil ==> (" + e + ") == old(" + e + ")")})
			case "assume_value_or_error":
				cur.AssumeValueOrError = append(cur.AssumeValueOrError, strings.ReplaceAll(rest, " ", ""))
			case "assume_fresh":
				cur.AssumeFresh = append(cur.AssumeFresh, strings.ReplaceAll(rest, " ", ""))
			case "calls":
				cur.Calls = append(cur.Calls, strings.TrimSpace(rest))
			case "per_iteration":
				cur.PerIter = append(cur.PerIter, strings.TrimSpace(rest))
			case "assume_pure":
				cur.AssumePure = append(cur.AssumePure, strings.ReplaceAll(rest, " ", ""))
			case "requires":
				cur.Requires = append(cur.Requires, mkClause("requires"))
			case "ensures":
				cur.Ensures = append(cur.Ensures, mkClause("ensures"))
			case "modifies":
				cur.HasMod = true
				for _, part := range splitTop(rest, ',') {
					part = strings.TrimSpace(part)
					if part != "" && part != "nothing" {
						cur.Modifies = append(cur.Modifies, &Clause{Kind: "modifies", Text: part, File: file, Line: it.line})
					}
				}
			case "capture":
				// capture name = call(selector, ord)
				m := regexp.MustCompile(`^(\w+)\s*=\s*call\(\s*(.+)\s*,\s*(\d+)\s*\)$`).FindStringSubmatch(rest)
				if m == nil {
					return fmt.Errorf("%s:%d: bad capture clause", file, it.line)
				}
				ord, _ := strconv.Atoi(m[3])
				cur.Captures = append(cur.Captures, &Capture{Name: m[1], Callee: m[2], Ord: ord, Line: it.line})
			case "assert@":
				// assert@anchor(args)[label] expr
				i := strings.Index(rest, ")")
				if i < 0 {
					return fmt.Errorf("%s:%d: bad assert anchor", file, it.line)
				}
				anchor := strings.ReplaceAll(rest[:i+1], " ", "")
				rest = strings.TrimSpace(rest[i+1:])
				cl := mkClause("assert")
				cur.Asserts = append(cur.Asserts, cl)
				cur.Anchors[cl] = anchor
			case "loop":
				f := strings.Fields(rest)
				if len(f) < 2 {
					return fmt.Errorf("%s:%d: bad loop clause", file, it.line)
				}
				k, err := strconv.Atoi(f[0])
				if err != nil {
					return fmt.Errorf("%s:%d: bad loop ordinal", file, it.line)
				}
				ls := cur.Loops[k]
				if ls == nil {
					ls = &LoopSpec{}
					cur.Loops[k] = ls
				}
				sub := f[1]
				subName := sub
				if j := strings.Index(sub, "["); j >= 0 {
					subName = sub[:j]
				}
				rest = strings.TrimSpace(rest[strings.Index(rest, subName)+len(subName):])
				switch subName {
				case "invariant":
					ls.Invariants = append(ls.Invariants, mkClause("invariant"))
				case "body_ensures":
					ls.BodyEnsures = append(ls.BodyEnsures, mkClause("body_ensures"))
				case "exit_ensures":
					ls.ExitEnsures = append(ls.ExitEnsures, mkClause("exit_ensures"))
				case "entry_ensures":
					ls.EntryEnsures = append(ls.EntryEnsures, mkClause("entry_ensures"))
				case "decreases":
					ls.Decreases = mkClause("decreases")
				case "modifies":
					for _, part := range splitTop(rest, ',') {
						part = strings.TrimSpace(part)
						if part != "" && part != "nothing" {
							ls.Modifies = append(ls.Modifies, &Clause{Kind: "modifies", Text: part, File: file, Line: it.line})
						}
					}
				case "unroll":
					n, _ := strconv.Atoi(strings.TrimSpace(rest))
					ls.Unroll = n
				default:
					return fmt.Errorf("%s:%d: unknown loop clause %q", file, it.line, sub)
				}
			}
		}
	}
	return nil
}

// splitTop splits s at sep occurring at nesting depth 0.
func splitTop(s string, sep byte) []string {
	var out []string
	depth := 0
	start := 0
	inStr := byte(0)
	for i := 0; i < len(s); i++ {
		c := s[i]
		if inStr != 0 {
			if c == '\\' {
				i++
			} else if c == inStr {
				inStr = 0
			}
			continue
		}
		switch c {
		case '"', '\'', '`':
			inStr = c
		case '(', '[', '{':
			depth++
		case ')', ']', '}':
			depth--
		default:
			if c == sep && depth == 0 {
				out = append(out, s[start:i])
				start = i + 1
			}
		}
	}
	return append(out, s[start:])
}

// rewriteImplies turns "a ==> b" (lowest precedence, right associative) into "(!(a) || (b))",
// recursively inside bracketed groups.
func rewriteImplies(s string) string {
	if !strings.Contains(s, "==>") {
		return s
	}
	// find top-level ==> ; also top-level ',' and ';' and "return" delimit expressions
	depth := 0
	inStr := byte(0)
	for i := 0; i < len(s); i++ {
		c := s[i]
		if inStr != 0 {
			if c == '\\' {
				i++
			} else if c == inStr {
				inStr = 0
			}
			continue
		}
		switch c {
		case '"', '\'', '`':
			inStr = c
		case '(', '[', '{':
			depth++
		case ')', ']', '}':
			depth--
		case '=':
			if depth == 0 && strings.HasPrefix(s[i:], "==>") {
				lhs := s[:i]
				rhs := s[i+3:]
				// lhs may start with "return "
				pre := ""
				lt := strings.TrimLeft(lhs, " ")
				if strings.HasPrefix(lt, "return ") {
					pre = "return "
					lhs = strings.TrimPrefix(lt, "return ")
				}
				// a top-level ',' in rhs/lhs would be odd; ignore.
				return pre + "(!(" + rewriteImplies(lhs) + ") || (" + rewriteImplies(rhs) + "))"
			}
		}
	}
	// no top-level ==>: rewrite inside each bracket group
	var sb strings.Builder
	depth = 0
	inStr = 0
	start := -1
	for i := 0; i < len(s); i++ {
		c := s[i]
		if inStr != 0 {
			if depth == 0 {
				sb.WriteByte(c)
			}
			if c == '\\' {
				i++
				if depth == 0 && i < len(s) {
					sb.WriteByte(s[i])
				}
			} else if c == inStr {
				inStr = 0
			}
			continue
		}
		switch c {
		case '"', '\'', '`':
			inStr = c
			if depth == 0 {
				sb.WriteByte(c)
			}
		case '(', '[', '{':
			if depth == 0 {
				sb.WriteByte(c)
				start = i + 1
			}
			depth++
		case ')', ']', '}':
			depth--
			if depth == 0 {
				inner := s[start:i]
				// split at top-level separators so that each argument is rewritten on its own
				sepc := byte(',')
				if c == '}' {
					sepc = ';'
				}
				parts := splitTop(inner, sepc)
				for k, p := range parts {
					if k > 0 {
						sb.WriteByte(sepc)
					}
					sb.WriteString(rewriteImplies(p))
				}
				sb.WriteByte(c)
			}
		default:
			if depth == 0 {
				sb.WriteByte(c)
			}
		}
	}
	return sb.String()
}
