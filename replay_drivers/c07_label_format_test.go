package logqlengine

import (
	"fmt"
	"testing"
)

// label_format dst=src renames label src to dst.
func TestVerifReplayLabelFormatRename(t *testing.T) {
	p := verifPipeline(t, `{x="y"} | label_format dst=src`)
	set := verifSet("src", "value", "other", "o")
	out, keep := p.Process(1, "line", set)
	if !keep || out != "line" {
		t.Fatalf("REPRODUCED: label_format dropped or changed the line (%q, keep=%v)", out, keep)
	}
	got := fmt.Sprint(set.AsMap())
	if got != "map[dst:value other:o]" {
		t.Fatalf("REPRODUCED: `label_format dst=src` on {src=\"value\", other=\"o\"} yields %s, want map[dst:value other:o] (src renamed to dst)", got)
	}
	p = verifPipeline(t, `{x="y"} | label_format a=b, c="{{ .a }}!"`)
	set = verifSet("b", "1")
	p.Process(1, "line", set)
	if got := fmt.Sprint(set.AsMap()); got != "map[a:1 c:1!]" {
		t.Fatalf("REPRODUCED: `label_format a=b, c=\"{{ .a }}!\"` on {b=\"1\"} yields %s, want map[a:1 c:1!]", got)
	}
}
