package dockerlog

import (
	"bytes"
	"context"
	"io"
	"sync/atomic"
	"testing"
	"time"

	"github.com/docker/docker/api/types"
	apicontainer "github.com/docker/docker/api/types/container"
	"github.com/docker/docker/client"
	"go.opentelemetry.io/collector/pdata/pcommon"

	"github.com/tdakkota/docker-logql/internal/logql/logqlengine"
)

type leakClient struct {
	client.APIClient
	opened, closed atomic.Int64
}

func (c *leakClient) ContainerList(context.Context, apicontainer.ListOptions) ([]types.Container, error) {
	return []types.Container{{ID: "a", Names: []string{"/a"}}, {ID: "b", Names: []string{"/b"}}}, nil
}

type leakReader struct {
	io.Reader
	c *leakClient
}

func (r *leakReader) Close() error { r.c.closed.Add(1); return nil }

func (c *leakClient) ContainerLogs(context.Context, string, apicontainer.LogsOptions) (io.ReadCloser, error) {
	c.opened.Add(1)
	return &leakReader{Reader: bytes.NewReader(nil), c: c}, nil
}

// A set operator whose operand is a (parenthesised) scalar is rejected when the operation is
// built, after the other operand has been built and its readers opened: the error surfaces,
// and every reader opened on the way must have been closed.
func TestBugLiteralOperandLeaksReaders(t *testing.T) {
	base := time.Date(2024, 1, 1, 0, 0, 0, 0, time.UTC)
	for _, query := range []string{
		`(1) and count_over_time({}[1m])`,
		`count_over_time({}[1m]) or (2)`,
		`(1) unless sum(rate({}[1m]))`,
		`count_over_time({}[1m]) and count_over_time({}[2m])`, // control: accepted
	} {
		c := &leakClient{}
		q, _ := NewQuerier(c)
		eng := logqlengine.NewEngine(q, logqlengine.Options{})
		_, err := eng.Eval(context.Background(), query, logqlengine.EvalParams{
			Start: pcommon.NewTimestampFromTime(base),
			End:   pcommon.NewTimestampFromTime(base.Add(5 * time.Minute)),
			Step:  time.Minute,
			Limit: -1,
		})
		t.Logf("%s: err=%v opened=%d closed=%d", query, err, c.opened.Load(), c.closed.Load())
		if c.opened.Load() != c.closed.Load() {
			t.Errorf("query %s: %d readers opened, %d closed (err = %v)", query, c.opened.Load(), c.closed.Load(), err)
		}
	}
}
