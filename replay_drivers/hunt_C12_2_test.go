package logqlengine

import (
	"context"
	"sort"
	"strconv"
	"strings"
	"testing"
	"time"

	"go.opentelemetry.io/collector/pdata/pcommon"

	"github.com/tdakkota/docker-logql/internal/iterators"
	"github.com/tdakkota/docker-logql/internal/logstorage"
	"github.com/tdakkota/docker-logql/internal/otelstorage"
)

// bugBoolQuerier serves ten records, one per second: container "db" logs at odd
// seconds, container "web" at even seconds.
type bugBoolQuerier struct{}

func (bugBoolQuerier) Capabilities() (caps QuerierCapabilities) { return caps }

func (bugBoolQuerier) SelectLogs(_ context.Context, start, end otelstorage.Timestamp, _ SelectLogsParams) (iterators.Iterator[logstorage.Record], error) {
	var out []logstorage.Record
	for i := int64(0); i < 10; i++ {
		ts := otelstorage.NewTimestampFromTime(time.Unix(1700000000+i, 0))
		if ts < start || ts > end {
			continue
		}
		attrs := pcommon.NewMap()
		if i%2 == 0 {
			attrs.PutStr("container", "web")
		} else {
			attrs.PutStr("container", "db")
		}
		out = append(out, logstorage.Record{Timestamp: ts, Body: "line", Attrs: otelstorage.Attrs(attrs)})
	}
	return iterators.Slice(out), nil
}

func bugBoolEval(q string) string {
	eng := NewEngine(bugBoolQuerier{}, Options{})
	data, err := eng.Eval(context.Background(), q, EvalParams{
		Start: otelstorage.NewTimestampFromTime(time.Unix(1700000005, 0)),
		End:   otelstorage.NewTimestampFromTime(time.Unix(1700000009, 0)),
		Step:  2 * time.Second,
	})
	if err != nil {
		return "ERROR: " + err.Error()
	}
	m, ok := data.GetMatrixResult()
	if !ok {
		return "ERROR: not a matrix: " + string(data.Type)
	}
	var lines []string
	for _, s := range m.Result {
		var keys []string
		for k, v := range s.Metric.Value {
			keys = append(keys, k+"="+strconv.Quote(v))
		}
		sort.Strings(keys)
		line := "{" + strings.Join(keys, ",") + "}:"
		for _, p := range s.Values {
			line += " " + p.V
		}
		lines = append(lines, line)
	}
	sort.Strings(lines)
	if len(lines) == 0 {
		return "<no series>"
	}
	return strings.Join(lines, "; ")
}

// Property: "An arithmetic or comparison operator between a vector and a scalar literal yields
// one series per input series with the operator applied to its value and the scalar ...;
// between two vectors it yields one series per label set present on both sides ... and a
// comparison giving 1 exactly for the series where it holds."
//
// The `bool` modifier of LogQL asks precisely for that 0/1 behaviour. The program does it
// the other way round: a plain comparison returns 0/1 for every series (that is pinned by the
// repository's own tests), while the comparison written with `bool` DROPS every series for
// which the comparison does not hold.
func TestBugBoolModifierDropsSeries(t *testing.T) {
	// C = sum by (container) (count_over_time({}[4s])) is db=3, web=2 at each of the 3 steps.
	const c = `sum by (container) (count_over_time({}[4s]))`

	for _, tt := range []struct {
		query, want, why string
	}{
		{
			`vector(2) > bool 3`,
			`{}: 0 0 0`,
			"one series per input series; 2 > 3 does not hold, so its value is 0",
		},
		{
			c + ` > bool 2`,
			`{container="db"}: 1 1 1; {container="web"}: 0 0 0`,
			"one series per input series; 1 exactly for db (3 > 2), 0 for web (2 > 2 is false)",
		},
		{
			`2 >= bool ` + c,
			`{container="db"}: 0 0 0; {container="web"}: 1 1 1`,
			"scalar on the left: 2 >= 3 is false for db, 2 >= 2 holds for web",
		},
		{
			c + ` == bool ` + c + ` * 1.5`,
			`{container="db"}: 0 0 0; {container="web"}: 0 0 0`,
			"two vectors: one series per label set present on both sides; C == 1.5*C holds for neither",
		},
		{
			`vector(2) != bool vector(2)`,
			`{}: 0 0 0`,
			"two vectors with the same label set {}: one series, value 0",
		},
	} {
		got := bugBoolEval(tt.query)
		// The same comparison without `bool`, for reference.
		plain := bugBoolEval(strings.Replace(tt.query, " bool ", " ", 1))
		if got != tt.want {
			t.Errorf("query %s (range query, 3 steps)\n\tproperty requires: %s   [%s]\n\tprogram returned:  %s\n\t(without `bool` the program returns %s)",
				tt.query, tt.want, tt.why, got, plain)
		}
	}
}
