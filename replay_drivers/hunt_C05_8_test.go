package logql

import (
	"testing"
	"time"

	"github.com/tdakkota/docker-logql/internal/lexerql"
)

// `y` (year = 365d) is a Prometheus/LogQL duration unit, just like d and w.
// The repository's own duration helpers know it (lexerql.IsDurationRune('y') is
// true, lexerql.ParseDuration("1y") succeeds), but the tokenizer rejects it.
func TestBugYearDurationRejected(t *testing.T) {
	const year = 365 * 24 * time.Hour

	if !lexerql.IsDurationRune('y') {
		t.Fatalf("precondition: lexerql.IsDurationRune('y') is expected to be true")
	}
	if d, err := lexerql.ParseDuration("1y"); err != nil || d != year {
		t.Fatalf("precondition: lexerql.ParseDuration(\"1y\") = %v, %v; want %v", d, err, year)
	}

	// Range.
	{
		const q = `count_over_time({a="b"}[1y])`
		expr, err := Parse(q, ParseOptions{})
		if err != nil {
			t.Errorf("input %q: the property requires valid duration literals to be accepted and parsed "+
				"(range = %v), but Parse rejected the query: %v", q, year, err)
		} else if got := expr.(*RangeAggregationExpr).Range.Range; got != year {
			t.Errorf("input %q: range = %v, want %v", q, got, year)
		}
	}
	// Offset, mixed units.
	{
		const q = `count_over_time({a="b"}[1h] offset 1y2w)`
		want := year + 14*24*time.Hour
		expr, err := Parse(q, ParseOptions{})
		if err != nil {
			t.Errorf("input %q: the property requires valid duration literals to be accepted and parsed "+
				"(offset = %v), but Parse rejected the query: %v", q, want, err)
		} else if got := expr.(*RangeAggregationExpr).Range.Offset.Duration; got != want {
			t.Errorf("input %q: offset = %v, want %v", q, got, want)
		}
	}
	// Duration label filter.
	{
		const q = `{a="b"} | logfmt | age > 1y`
		expr, err := Parse(q, ParseOptions{})
		if err != nil {
			t.Errorf("input %q: the property requires valid duration literals to be accepted and parsed "+
				"(DurationFilter value = %v), but Parse rejected the query: %v", q, year, err)
		} else {
			lf := expr.(*LogExpr).Pipeline[1].(*LabelFilter)
			if df, ok := lf.Pred.(*DurationFilter); !ok || df.Value != year {
				t.Errorf("input %q: predicate = %#v, want DurationFilter with value %v", q, lf.Pred, year)
			}
		}
	}
	// The neighbouring units are fine, so this is not a deliberate restriction.
	for _, q := range []string{`count_over_time({a="b"}[52w])`, `count_over_time({a="b"}[365d])`} {
		if _, err := Parse(q, ParseOptions{}); err != nil {
			t.Errorf("control %q failed: %v", q, err)
		}
	}
}
