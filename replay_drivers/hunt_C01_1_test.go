package logqlengine

import (
	"context"
	"fmt"
	"sort"
	"strings"
	"testing"

	"go.opentelemetry.io/collector/pdata/pcommon"

	"github.com/tdakkota/docker-logql/internal/iterators"
	"github.com/tdakkota/docker-logql/internal/logql"
	"github.com/tdakkota/docker-logql/internal/logstorage"
	"github.com/tdakkota/docker-logql/internal/otelstorage"
)

// bugIPQuerier is a storage backend that offloads nothing and returns every record.
type bugIPQuerier struct {
	lines []string
}

func (q *bugIPQuerier) Capabilities() (caps QuerierCapabilities) { return caps }

func (q *bugIPQuerier) SelectLogs(context.Context, otelstorage.Timestamp, otelstorage.Timestamp, SelectLogsParams) (iterators.Iterator[logstorage.Record], error) {
	var recs []logstorage.Record
	for i, line := range q.lines {
		recs = append(recs, logstorage.Record{
			Timestamp:     otelstorage.Timestamp(1000 + i),
			Body:          line,
			Attrs:         otelstorage.Attrs(pcommon.NewMap()),
			ResourceAttrs: otelstorage.Attrs(pcommon.NewMap()),
		})
	}
	return iterators.Slice(recs), nil
}

func bugIPEval(t *testing.T, lines []string, query string) []string {
	t.Helper()
	e := NewEngine(&bugIPQuerier{lines: lines}, Options{ParseOptions: logql.ParseOptions{}})
	data, err := e.Eval(context.Background(), query, EvalParams{Start: 1, End: 1 << 40, Step: 1, Limit: -1})
	if err != nil {
		t.Fatalf("eval %s: %v", query, err)
	}
	streams, ok := data.GetStreamsResult()
	if !ok {
		t.Fatalf("eval %s: not a streams result", query)
	}
	var out []string
	for _, s := range streams.Result {
		for _, v := range s.Values {
			out = append(out, v.V)
		}
	}
	sort.Strings(out)
	return out
}

// TestBugIPLineFilterNotEqual: `!= ip("10.0.0.1")` must return exactly the lines that
// `|= ip("10.0.0.1")` does not return (the lines that do not contain the address).
func TestBugIPLineFilterNotEqual(t *testing.T) {
	lines := []string{
		"A 10.0.0.1 connected to 10.0.0.2", // contains 10.0.0.1 (and another address)
		"B no address in this line",          // contains no address at all
		"C peer 10.0.0.2",                    // contains only another address
		"D peer 10.0.0.1",                    // contains only 10.0.0.1
	}

	pos := bugIPEval(t, lines, `{} |= ip("10.0.0.1")`)
	neg := bugIPEval(t, lines, `{} != ip("10.0.0.1")`)

	wantPos := []string{lines[0], lines[3]}
	wantNeg := []string{lines[1], lines[2]}

	if fmt.Sprint(pos) != fmt.Sprint(wantPos) {
		t.Errorf("query {} |= ip(\"10.0.0.1\") over %q:\n  want %q\n  got  %q", lines, wantPos, pos)
	}
	if fmt.Sprint(neg) != fmt.Sprint(wantNeg) {
		t.Errorf("query {} != ip(\"10.0.0.1\") over lines\n    %s\n"+
			"  the property requires exactly the records that satisfy the query under LogQL semantics "+
			"(!= is the negation of |=: the lines that do NOT contain an address matching 10.0.0.1):\n"+
			"    want %q\n"+
			"  the program returned\n"+
			"    got  %q\n"+
			"  (line A contains 10.0.0.1 and is returned by BOTH |= and !=; line B contains no address and is returned by NEITHER)",
			strings.Join(lines, "\n    "), wantNeg, neg)
	}
}
