package logqlengine

import (
	"testing"

	"go.opentelemetry.io/collector/pdata/pcommon"

	"github.com/tdakkota/docker-logql/internal/logql"
)

func verifPipeline(t *testing.T, q string) Processor {
	expr, err := logql.Parse(q, logql.ParseOptions{})
	if err != nil {
		t.Fatalf("parse %q: %v", q, err)
	}
	le, ok := expr.(*logql.LogExpr)
	if !ok {
		t.Fatalf("%q is not a log query", q)
	}
	p, err := BuildPipeline(le.Pipeline...)
	if err != nil {
		t.Fatalf("build %q: %v", q, err)
	}
	return p
}

// `a or b` keeps a record iff a or b keeps it, and a filter never changes the line it keeps.
func TestVerifReplayOrPredicate(t *testing.T) {
	for _, q := range []string{
		`{x="y"} | nope > 5 or app="x"`,
		`{x="y"} | nope > 5s or app="x"`,
		`{x="y"} | nope > 5KB or app="x"`,
		`{x="y"} | app="x" or nope > 5`,
		`{x="y"} | app="x" and app!="y"`,
	} {
		p := verifPipeline(t, q)
		set := newLabelSet()
		set.Set("app", pcommon.NewValueStr("x"))
		out, keep := p.Process(1, "hello", set)
		if !keep {
			t.Fatalf("REPRODUCED: %s drops a record with app=x", q)
		}
		if out != "hello" {
			t.Fatalf("REPRODUCED: %s keeps the record but returns the line %q instead of the original %q", q, out, "hello")
		}
	}
}
