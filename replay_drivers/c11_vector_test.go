package logqlmetric

import (
	"fmt"
	"regexp"
	"sort"
	"strings"
	"testing"

	"github.com/tdakkota/docker-logql/internal/iterators"
	"github.com/tdakkota/docker-logql/internal/logql"
	"github.com/tdakkota/docker-logql/internal/lokiapi"
)

type verifLabels map[string]string

func (l verifLabels) By(ls ...logql.Label) AggregatedLabels {
	r := verifLabels{}
	for _, k := range ls {
		if v, ok := l[string(k)]; ok {
			r[string(k)] = v
		}
	}
	return r
}
func (l verifLabels) Without(ls ...logql.Label) AggregatedLabels {
	r := verifLabels{}
	for k, v := range l {
		r[k] = v
	}
	for _, k := range ls {
		delete(r, string(k))
	}
	return r
}
func (l verifLabels) Key() GroupingKey {
	var ks []string
	for k, v := range l {
		ks = append(ks, k+"\x00"+v)
	}
	sort.Strings(ks)
	s := strings.Join(ks, "\x01")
	var h uint64 = 1469598103934665603
	for i := 0; i < len(s); i++ {
		h = (h ^ uint64(s[i])) * 1099511628211
	}
	return h
}
func (l verifLabels) Replace(_, _, _ string, _ *regexp.Regexp) AggregatedLabels { return l }
func (l verifLabels) AsLokiAPI() lokiapi.LabelSet                               { return lokiapi.LabelSet(l) }

// Without a grouping clause all input series form one group with an empty label set.
func TestVerifReplayVectorNoGrouping(t *testing.T) {
	steps := []Step{{Timestamp: 1000, Samples: []Sample{
		{Data: 1, Set: verifLabels{"app": "a"}},
		{Data: 2, Set: verifLabels{"app": "b"}},
		{Data: 4, Set: verifLabels{"app": "c"}},
	}}}
	for _, op := range []logql.VectorOp{logql.VectorOpSum, logql.VectorOpCount} {
		it, err := VectorAggregation(iterators.Slice(steps), &logql.VectorAggregationExpr{Op: op})
		if err != nil {
			t.Fatal(err)
		}
		var st Step
		if !it.Next(&st) {
			t.Fatal("no step")
		}
		if len(st.Samples) != 1 {
			t.Fatalf("REPRODUCED: %s(...) without grouping over 3 series reports %d series, want 1", op, len(st.Samples))
		}
		if got := fmt.Sprint(st.Samples[0].Set.AsLokiAPI()); got != "map[]" {
			t.Fatalf("REPRODUCED: %s(...) without grouping carries labels %s, want none", op, got)
		}
	}
	k := 1
	it, err := VectorAggregation(iterators.Slice(steps), &logql.VectorAggregationExpr{Op: logql.VectorOpTopk, Parameter: &k})
	if err != nil {
		t.Fatal(err)
	}
	var st Step
	it.Next(&st)
	if len(st.Samples) != 1 || st.Samples[0].Data != 4 {
		t.Fatalf("REPRODUCED: topk(1, ...) over 3 series returns %d series (%v), want the single largest", len(st.Samples), st.Samples)
	}
}
