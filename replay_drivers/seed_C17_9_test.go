package logqlengine

import (
	"context"
	"testing"
	"time"

	"github.com/tdakkota/docker-logql/internal/iterators"
	"github.com/tdakkota/docker-logql/internal/logql"
	"github.com/tdakkota/docker-logql/internal/logstorage"
	"github.com/tdakkota/docker-logql/internal/lokiapi"
	"github.com/tdakkota/docker-logql/internal/otelstorage"
)

// demoGapQuerier returns records at fixed timestamps.
type demoGapQuerier struct {
	records []logstorage.Record
}

func (q *demoGapQuerier) Capabilities() (caps QuerierCapabilities) {
	// Selector matchers are applied by the storage.
	caps.Label.Add(logql.OpEq)
	return caps
}

func (q *demoGapQuerier) SelectLogs(context.Context, otelstorage.Timestamp, otelstorage.Timestamp, SelectLogsParams) (iterators.Iterator[logstorage.Record], error) {
	return iterators.Slice(q.records), nil
}

// TestDemoRangeQuerySparseSteps evaluates a range query whose step is bigger than
// the range interval, over records some of which fall between two windows.
func TestDemoRangeQuerySparseSteps(t *testing.T) {
	const base = 1700000000
	at := func(sec int64) otelstorage.Timestamp {
		return otelstorage.NewTimestampFromTime(time.Unix(base+sec, 0))
	}

	q := &demoGapQuerier{
		records: []logstorage.Record{
			// Between the window of step 0 ([-2s, 0s]) and the window of step 10 ([8s, 10s]).
			{Timestamp: at(5), Body: "in the gap"},
			// In the window of step 10.
			{Timestamp: at(9), Body: "in the window"},
			// Between the windows of step 10 and step 20.
			{Timestamp: at(13), Body: "in the gap again"},
		},
	}
	e := NewEngine(q, Options{})

	type result struct {
		data lokiapi.QueryResponseData
		err  error
		pnc  any
	}
	done := make(chan result, 1)
	go func() {
		var r result
		defer func() {
			r.pnc = recover()
			done <- r
		}()
		r.data, r.err = e.Eval(context.Background(), `count_over_time({job="x"} [2s])`, EvalParams{
			Start: at(0),
			End:   at(20),
			Step:  10 * time.Second,
			Limit: 100,
		})
	}()

	var r result
	select {
	case r = <-done:
	case <-time.After(5 * time.Second):
		t.Fatal("evaluation did not terminate in 5s")
	}
	if r.pnc != nil {
		t.Fatalf("evaluation panicked: %v", r.pnc)
	}
	if r.err != nil {
		t.Fatalf("unexpected error: %v", r.err)
	}

	m, ok := r.data.GetMatrixResult()
	if !ok {
		t.Fatalf("expected matrix result, got %v", r.data.Type)
	}
	if len(m.Result) != 1 {
		t.Fatalf("expected one series, got %d", len(m.Result))
	}
	values := m.Result[0].Values
	if len(values) != 1 || values[0].V != "1" || values[0].T != float64(base+10) {
		t.Fatalf("unexpected points: %+v", values)
	}
}
