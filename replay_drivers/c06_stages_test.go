package logqlengine

import (
	"fmt"
	"sort"
	"strconv"
	"strings"
	"testing"
)

func verifLabels(set LabelSet) string {
	m := set.AsMap()
	var ks []string
	for k := range m {
		ks = append(ks, string(k))
	}
	sort.Strings(ks)
	var sb strings.Builder
	for _, k := range ks {
		fmt.Fprintf(&sb, "%s=%s;", k, m[k])
	}
	return sb.String()
}

// TestVerifReplayParserStages runs json / logfmt / regexp / pattern / unpack on generated lines:
// the line is never dropped, only unpack may change it, every requested field comes back as a
// label with its value, and malformed lines are kept and flagged with __error__.
func TestVerifReplayParserStages(t *testing.T) {
	keys := []string{"a", "b", "msg", "level"}
	vals := []string{"1", "x y", "", "q\"uote", "="}
	for n := 0; n <= len(keys); n++ {
		for vi := range vals {
			var js, lf []string
			want := map[string]string{}
			for i := 0; i < n; i++ {
				v := vals[(vi+i)%len(vals)]
				js = append(js, strconv.Quote(keys[i])+":"+strconv.Quote(v))
				lf = append(lf, keys[i]+"="+strconv.Quote(v))
				want[keys[i]] = v
			}
			jline := "{" + strings.Join(js, ",") + "}"
			lline := strings.Join(lf, " ")
			for _, c := range []struct{ q, line string }{{`{x="y"} | json`, jline}, {`{x="y"} | logfmt`, lline}} {
				p := verifPipeline(t, c.q)
				set := verifSet("keep", "me")
				out, keep := p.Process(1, c.line, set)
				if !keep || out != c.line {
					t.Fatalf("REPRODUCED: %s on %q: line dropped or changed (%q, keep=%v)", c.q, c.line, out, keep)
				}
				m := set.AsMap()
				for k, v := range want {
					if got, ok := m[k]; !ok || got != v {
						t.Fatalf("REPRODUCED: %s on %q: field %s=%q not exposed (labels %s)", c.q, c.line, k, v, verifLabels(set))
					}
				}
				if len(m) != len(want)+1 || m["keep"] != "me" {
					t.Fatalf("REPRODUCED: %s on %q: labels %s, want exactly the fields plus keep=me", c.q, c.line, verifLabels(set))
				}
			}
			if n >= 2 {
				// only the requested field
				for _, c := range []struct{ q, line string }{{`{x="y"} | json b`, jline}, {`{x="y"} | logfmt b`, lline}, {`{x="y"} | json r="b"`, jline}, {`{x="y"} | logfmt r="b"`, lline}} {
					p := verifPipeline(t, c.q)
					set := verifSet("a", "old")
					out, keep := p.Process(1, c.line, set)
					if !keep || out != c.line {
						t.Fatalf("REPRODUCED: %s on %q: line dropped or changed", c.q, c.line)
					}
					m := set.AsMap()
					target := "b"
					if strings.Contains(c.q, "r=") {
						target = "r"
					}
					if m[target] != want["b"] || m["a"] != "old" || len(m) != 2 {
						t.Fatalf("REPRODUCED: %s on %q: labels %s, want a=old and %s=%q only", c.q, c.line, verifLabels(set), target, want["b"])
					}
				}
			}
		}
	}
	// malformed lines are kept and flagged
	for _, c := range []struct{ q, line string }{
		{`{x="y"} | json`, `{"a":`}, {`{x="y"} | json`, `not json`}, {`{x="y"} | json a`, `{"a":1,`}, {`{x="y"} | json r="a.b"`, `{"a":{`},
		{`{x="y"} | logfmt`, `a="unterminated`}, {`{x="y"} | logfmt a`, `a="unterminated`}, {`{x="y"} | unpack`, `{"_entry":`}, {`{x="y"} | unpack`, `nope`},
	} {
		p := verifPipeline(t, c.q)
		set := verifSet("keep", "me")
		out, keep := p.Process(1, c.line, set)
		if !keep || out != c.line {
			t.Fatalf("REPRODUCED: %s on malformed %q: line dropped or changed (%q, keep=%v)", c.q, c.line, out, keep)
		}
		if _, ok := set.GetError(); !ok {
			t.Fatalf("REPRODUCED: %s on malformed %q: no __error__ label (labels %s)", c.q, c.line, verifLabels(set))
		}
	}
	// unpack
	{
		p := verifPipeline(t, `{x="y"} | unpack`)
		set := verifSet("keep", "me")
		out, keep := p.Process(1, `{"a":"1","_entry":"original line","n":5,"b":"2"}`, set)
		if !keep || out != "original line" {
			t.Fatalf("REPRODUCED: unpack: got line %q keep=%v, want the _entry value", out, keep)
		}
		if got := verifLabels(set); got != "a=1;b=2;keep=me;" {
			t.Fatalf("REPRODUCED: unpack: labels %s, want a=1;b=2;keep=me; (string fields only, _entry never a label)", got)
		}
		set = verifSet()
		out, keep = p.Process(1, `{"a":"1"}`, set)
		if !keep || out != `{"a":"1"}` {
			t.Fatalf("REPRODUCED: unpack without _entry changed or dropped the line: %q", out)
		}
	}
	// regexp and pattern
	{
		p := verifPipeline(t, `{x="y"} | regexp "(?P<method>\\w+) (?P<path>\\S+) (\\d+)"`)
		set := verifSet("keep", "me")
		out, keep := p.Process(1, "GET /index 200", set)
		if !keep || out != "GET /index 200" || verifLabels(set) != "keep=me;method=GET;path=/index;" {
			t.Fatalf("REPRODUCED: regexp: line %q keep=%v labels %s", out, keep, verifLabels(set))
		}
		set = verifSet("keep", "me")
		out, keep = p.Process(1, "nomatch", set)
		if !keep || out != "nomatch" || verifLabels(set) != "keep=me;" {
			t.Fatalf("REPRODUCED: regexp on a non-matching line: line %q keep=%v labels %s", out, keep, verifLabels(set))
		}
		p = verifPipeline(t, `{x="y"} | pattern "<method> <_> <status>;<rest>"`)
		set = verifSet("keep", "me")
		out, keep = p.Process(1, "GET /index 200;tail; more", set)
		if !keep || out != "GET /index 200;tail; more" || verifLabels(set) != "keep=me;method=GET;rest=tail; more;status=200;" {
			t.Fatalf("REPRODUCED: pattern: line %q keep=%v labels %s", out, keep, verifLabels(set))
		}
		set = verifSet("keep", "me")
		out, keep = p.Process(1, "short", set)
		if !keep || out != "short" {
			t.Fatalf("REPRODUCED: pattern on a non-matching line dropped or changed it: %q keep=%v", out, keep)
		}
		p = verifPipeline(t, `{x="y"} | pattern "id=<id> "`)
		set = verifSet()
		p.Process(1, "xx id=7 ", set)
		if verifLabels(set) != "" {
			t.Fatalf("REPRODUCED: pattern: a leading literal matched in the middle of the line: labels %s", verifLabels(set))
		}
	}
}
