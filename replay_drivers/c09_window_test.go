package logqlmetric

import (
	"testing"
	"time"

	"github.com/tdakkota/docker-logql/internal/iterators"
	"github.com/tdakkota/docker-logql/internal/logql"
	"github.com/tdakkota/docker-logql/internal/otelstorage"
)

func verifSec(s int64) time.Time { return time.Unix(s, 0) }

// verifEvalCount evaluates count_over_time(... [rng] offset off) over samples (unix seconds) on a grid.
func verifEvalCount(t *testing.T, samples []int64, rng, off time.Duration, start, end int64, step time.Duration) map[int64]float64 {
	expr := &logql.RangeAggregationExpr{Op: logql.RangeOpCount, Range: logql.LogRangeExpr{Range: rng}}
	if off != 0 {
		expr.Range.Offset = &logql.OffsetExpr{Duration: off}
	}
	sel := func(_ *logql.RangeAggregationExpr, s, e time.Time) (iterators.Iterator[SampledEntry], error) {
		var es []SampledEntry
		for _, ts := range samples {
			tm := verifSec(ts)
			if tm.Before(s) || tm.After(e) {
				continue
			}
			es = append(es, SampledEntry{Sample: 1, Timestamp: otelstorage.NewTimestampFromTime(tm), Set: &emptyLabels{}})
		}
		return iterators.Slice(es), nil
	}
	it, err := Build(expr, sel, EvalParams{Start: verifSec(start), End: verifSec(end), Step: step})
	if err != nil {
		t.Fatalf("build: %v", err)
	}
	defer it.Close()
	out := map[int64]float64{}
	var st Step
	for it.Next(&st) {
		v := 0.0
		for _, s := range st.Samples {
			v += s.Data
		}
		out[st.Timestamp.AsTime().Unix()] = v
	}
	return out
}

// The value at T is f over the samples in the closed window [T-r, T], whatever the grid.
func TestVerifReplayWindowBoundary(t *testing.T) {
	samples := []int64{1010}
	single := verifEvalCount(t, samples, 5*time.Second, 0, 1015, 1015, time.Second)
	grid := verifEvalCount(t, samples, 5*time.Second, 0, 1014, 1015, time.Second)
	if single[1015] != 1 {
		t.Fatalf("REPRODUCED: instant evaluation at T=1015 with sample at T-r=1010 counts %v, want 1 (closed window)", single[1015])
	}
	if grid[1015] != single[1015] {
		t.Fatalf("REPRODUCED: count_over_time[5s] at T=1015 is %v on the grid starting at 1014 but %v when evaluated alone: the sample at exactly T-r is evicted when the window slides", grid[1015], single[1015])
	}
}

// offset o: value at T is computed over [T-o-r, T-o] and stamped T.
func TestVerifReplayOffsetStamp(t *testing.T) {
	samples := []int64{1100}
	got := verifEvalCount(t, samples, 5*time.Second, 10*time.Second, 1110, 1112, time.Second)
	if len(got) != 3 {
		t.Fatalf("REPRODUCED: grid 1110..1112 produced steps %v", got)
	}
	for _, T := range []int64{1110, 1111, 1112} {
		if _, ok := got[T]; !ok {
			t.Fatalf("REPRODUCED: with offset 10s no result is stamped with evaluation time %d (got stamps %v): results are stamped T-o", T, got)
		}
	}
	if got[1110] != 1 {
		t.Fatalf("REPRODUCED: value at T=1110 with offset 10s and range 5s is %v, want 1 (sample at 1100 lies in [1095,1100])", got[1110])
	}
}
