package logqlengine

import (
	"context"
	"errors"
	"testing"

	"github.com/tdakkota/docker-logql/internal/iterators"
	"github.com/tdakkota/docker-logql/internal/logstorage"
	"github.com/tdakkota/docker-logql/internal/otelstorage"
)

type verifCountingIter struct {
	records []logstorage.Record
	n       int
	failAt  int // index at which the source fails (-1: never)
	err     error
	closed  *int
}

func (i *verifCountingIter) Next(r *logstorage.Record) bool {
	if i.failAt >= 0 && i.n == i.failAt {
		i.err = errors.New("read failed")
		return false
	}
	if i.n >= len(i.records) {
		return false
	}
	*r = i.records[i.n]
	i.n++
	return true
}
func (i *verifCountingIter) Err() error   { return i.err }
func (i *verifCountingIter) Close() error { *i.closed++; return nil }

type verifQuerier struct {
	opened, closed int
	failAt         int
}

func (q *verifQuerier) Capabilities() (c QuerierCapabilities) { return c }
func (q *verifQuerier) SelectLogs(_ context.Context, _, _ otelstorage.Timestamp, _ SelectLogsParams) (iterators.Iterator[logstorage.Record], error) {
	q.opened++
	var rs []logstorage.Record
	for i := 0; i < 5; i++ {
		rs = append(rs, logstorage.Record{Timestamp: otelstorage.Timestamp(1700000000000000000 + int64(i)*1e9), Body: "line"})
	}
	return &verifCountingIter{records: rs, failAt: q.failAt, closed: &q.closed}, nil
}

// Every reader opened during evaluation is closed when Eval returns, for log and metric queries,
// on success and on failure; a failing source is reported as an error.
func TestVerifReplayReadersClosed(t *testing.T) {
	for _, query := range []string{
		`{a="b"}`,
		`count_over_time({a="b"}[5s])`,
		`sum(count_over_time({a="b"}[5s]))`,
		`count_over_time({a="b"}[5s]) + count_over_time({a="b"}[10s])`,
		`count_over_time({a="b"}[5s]) * 2`,
	} {
		for _, failAt := range []int{-1, 2} {
			q := &verifQuerier{failAt: failAt}
			e := NewEngine(q, Options{})
			_, err := e.Eval(context.Background(), query, EvalParams{
				Start: otelstorage.Timestamp(1700000000000000000),
				End:   otelstorage.Timestamp(1700000004000000000),
				Step:  1e9,
				Limit: -1,
			})
			if failAt >= 0 && err == nil {
				t.Fatalf("REPRODUCED: %s: the source failed after %d records but Eval returned no error (silently truncated result)", query, failAt)
			}
			if q.opened != q.closed {
				t.Fatalf("REPRODUCED: %s (source failure at %d, err=%v): %d readers opened, %d closed when Eval returned", query, failAt, err, q.opened, q.closed)
			}
		}
	}
}
