package logqlmetric

import (
	"fmt"
	"math"
	"regexp"
	"testing"

	"github.com/cespare/xxhash/v2"

	"github.com/tdakkota/docker-logql/internal/iterators"
	"github.com/tdakkota/docker-logql/internal/logql"
	"github.com/tdakkota/docker-logql/internal/lokiapi"
)

// zzDemoLabels is a one-label set {id="<id>"} used to tell the input series apart.
type zzDemoLabels struct{ id string }

func (l *zzDemoLabels) keep(labels []logql.Label) bool {
	for _, n := range labels {
		if n == "id" {
			return true
		}
	}
	return false
}

func (l *zzDemoLabels) By(labels ...logql.Label) AggregatedLabels {
	if l.keep(labels) {
		return l
	}
	return &emptyLabels{}
}

func (l *zzDemoLabels) Without(labels ...logql.Label) AggregatedLabels {
	if l.keep(labels) {
		return &emptyLabels{}
	}
	return l
}

func (l *zzDemoLabels) Key() GroupingKey { return xxhash.Sum64String("id\x00" + l.id) }

func (l *zzDemoLabels) Replace(_, _, _ string, _ *regexp.Regexp) AggregatedLabels { return l }

func (l *zzDemoLabels) AsLokiAPI() lokiapi.LabelSet { return lokiapi.LabelSet{"id": l.id} }

func zzDemoRun(t *testing.T, op logql.VectorOp, k int, in []Sample) map[string]float64 {
	t.Helper()
	iter, err := VectorAggregation(
		iterators.Slice([]Step{{Timestamp: 1, Samples: in}}),
		&logql.VectorAggregationExpr{Op: op, Parameter: &k},
	)
	if err != nil {
		t.Fatal(err)
	}
	var r Step
	if !iter.Next(&r) {
		t.Fatal("no step returned")
	}
	out := map[string]float64{}
	for _, s := range r.Samples {
		out[s.Set.AsLokiAPI()["id"]] = s.Data
	}
	return out
}

func zzDemoInput(ids []string, values []float64) (in []Sample, text string) {
	for i := range ids {
		in = append(in, Sample{Data: values[i], Set: &zzDemoLabels{id: ids[i]}})
		text += fmt.Sprintf(" {id=%q}=%v", ids[i], values[i])
	}
	return in, text
}

// topk(2, v) over one group holding a NaN series and the finite series 1, 5, 7, 9.
//
// However NaN is ranked (largest, smallest, or ignored), 9 is larger than every other finite
// value, so "the k largest input series" for k=2 must include {id="e"}=9: the answer is either
// {NaN, 9} or {9, 7}. The program answers {NaN, 1}.
func TestBugTopkDropsLargestSeriesWhenGroupHasNaN(t *testing.T) {
	in, text := zzDemoInput(
		[]string{"a", "b", "c", "d", "e"},
		[]float64{math.NaN(), 1, 5, 7, 9},
	)
	got := zzDemoRun(t, logql.VectorOpTopk, 2, in)
	if v, ok := got["e"]; !ok || v != 9 {
		t.Errorf("topk(2, [%s ]): the property requires the 2 largest input series of the group, "+
			"which must include {id=\"e\"}=9 (the largest finite value) however NaN is ranked; "+
			"the program returned %v", text, got)
	}
	if _, ok := got["b"]; ok {
		t.Errorf("topk(2, [%s ]): {id=\"b\"}=1 is the smallest finite input series and cannot be "+
			"among the 2 largest of 5 series; the program returned %v", text, got)
	}
}

// Same defect, mirrored, for bottomk: 1 is the smallest finite value and must be in bottomk(2).
func TestBugBottomkDropsSmallestSeriesWhenGroupHasNaN(t *testing.T) {
	in, text := zzDemoInput(
		[]string{"a", "b", "c", "d", "e"},
		[]float64{math.NaN(), 9, 7, 5, 1},
	)
	got := zzDemoRun(t, logql.VectorOpBottomk, 2, in)
	if v, ok := got["e"]; !ok || v != 1 {
		t.Errorf("bottomk(2, [%s ]): the property requires the 2 smallest input series of the group, "+
			"which must include {id=\"e\"}=1 (the smallest finite value) however NaN is ranked; "+
			"the program returned %v", text, got)
	}
}

// The result also depends on the order in which the series of the (unordered) input vector are
// visited: the same three series give different answers. In the engine that order is a Go map
// iteration order (rangeAggIterator.window / vectorAggIterator result), so the same query flaps.
func TestBugTopkWithNaNDependsOnInputOrder(t *testing.T) {
	ids := []string{"a", "b", "c"}
	vals := []float64{math.NaN(), 1, 5}
	perms := [][]int{{0, 1, 2}, {0, 2, 1}, {1, 0, 2}, {1, 2, 0}, {2, 0, 1}, {2, 1, 0}}
	for _, p := range perms {
		in, text := zzDemoInput(
			[]string{ids[p[0]], ids[p[1]], ids[p[2]]},
			[]float64{vals[p[0]], vals[p[1]], vals[p[2]]},
		)
		got := zzDemoRun(t, logql.VectorOpTopk, 2, in)
		if v, ok := got["c"]; !ok || v != 5 {
			t.Errorf("topk(2, [%s ]): {id=\"c\"}=5 is the largest finite series of 3 and must be "+
				"returned for every visiting order; the program returned %v", text, got)
		}
	}
}
