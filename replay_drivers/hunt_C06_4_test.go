package logqlengine

import (
	"testing"

	"go.opentelemetry.io/collector/pdata/pcommon"

	"github.com/tdakkota/docker-logql/internal/logql"
)

func bugPatternRun(t *testing.T, query, line string) (newLine string, keep bool, labels map[string]string) {
	t.Helper()
	expr, err := logql.Parse(query, logql.ParseOptions{})
	if err != nil {
		t.Fatalf("parse %q: %v", query, err)
	}
	p, err := BuildPipeline(expr.(*logql.LogExpr).Pipeline...)
	if err != nil {
		t.Fatalf("build %q: %v", query, err)
	}
	set := newLabelSet()
	set.Set("container", pcommon.NewValueStr("app"))
	newLine, keep = p.Process(1, line, set)
	return newLine, keep, set.AsMap()
}

// A literal of a pattern may contain "<" followed by letters that is not a
// capture (there is no closing ">"): `<msg> <meta id=<id>>` is
//
//	capture msg, literal " <meta id=", capture id, literal ">"
//
// so that in a line the delimiter between the fields msg and id is " <meta id=".
func TestBugPatternLiteralWithAngleBracketIsSplit(t *testing.T) {
	for _, tt := range []struct {
		pattern string
		line    string
		want    map[string]string
	}{
		{
			pattern: "<msg> <meta id=<id>>",
			line:    "user=bob action=login <meta id=42>",
			want:    map[string]string{"msg": "user=bob action=login", "id": "42"},
		},
		{
			pattern: "<a>|<b|<c>",
			line:    "1|2|<b|3",
			want:    map[string]string{"a": "1|2", "c": "3"},
		},
		{
			// Same literal, but the text before it has no space: works, which
			// shows that only the first piece of the literal is used as the delimiter.
			pattern: "<msg> <meta id=<id>>",
			line:    "login <meta id=42>",
			want:    map[string]string{"msg": "login", "id": "42"},
		},
	} {
		query := "{container=\"app\"} | pattern `" + tt.pattern + "`"
		newLine, keep, got := bugPatternRun(t, query, tt.line)
		if !keep || newLine != tt.line {
			t.Errorf("query %s, line %q: the line must be kept unchanged, got keep=%v line=%q", query, tt.line, keep, newLine)
		}
		for label, want := range tt.want {
			if v, ok := got[label]; !ok || v != want {
				t.Errorf("query %s, line %q: the property requires every field of a well-formed delimiter-separated line "+
					"to be exposed as a label with exactly its value, i.e. %s=%q (all fields: %v); "+
					"the program exposed %s=%q (present=%v), all labels: %v",
					query, tt.line, label, want, tt.want, label, v, ok, got)
			}
		}
	}
}
