package dockerlog

import (
	"bytes"
	"context"
	"encoding/binary"
	"fmt"
	"io"
	"sort"
	"strings"
	"sync"
	"testing"
	"time"

	"github.com/docker/docker/api/types"
	apicontainer "github.com/docker/docker/api/types/container"
	"github.com/docker/docker/client"
	"go.opentelemetry.io/collector/pdata/pcommon"

	"github.com/tdakkota/docker-logql/internal/logql/logqlengine"
	"github.com/tdakkota/docker-logql/internal/lokiapi"
)

// ---- fake Docker daemon -------------------------------------------------

type demoCtr struct {
	c     types.Container
	lines []string // "<RFC3339Nano> <message>"
}

type demoClient struct {
	client.APIClient // nil: only the two methods below are ever called
	ctrs             []demoCtr

	mu   sync.Mutex
	read []string // container ids whose logs were requested
}

func (f *demoClient) ContainerList(context.Context, apicontainer.ListOptions) ([]types.Container, error) {
	var r []types.Container
	for _, c := range f.ctrs {
		r = append(r, c.c)
	}
	return r, nil
}

func (f *demoClient) ContainerLogs(_ context.Context, id string, _ apicontainer.LogsOptions) (io.ReadCloser, error) {
	f.mu.Lock()
	f.read = append(f.read, id)
	f.mu.Unlock()
	for _, c := range f.ctrs {
		if c.c.ID != id {
			continue
		}
		var b bytes.Buffer
		for _, l := range c.lines {
			var h [8]byte
			h[0] = 1 // stdout
			binary.BigEndian.PutUint32(h[4:], uint32(len(l)))
			b.Write(h[:])
			b.WriteString(l)
		}
		return io.NopCloser(&b), nil
	}
	return nil, fmt.Errorf("no such container %q", id)
}

func (f *demoClient) readIDs() string {
	f.mu.Lock()
	defer f.mu.Unlock()
	r := append([]string(nil), f.read...)
	sort.Strings(r)
	return "[" + strings.Join(r, " ") + "]"
}

func demoContainer(id, name string, dockerLabels map[string]string, msgs ...string) demoCtr {
	var lines []string
	for i, m := range msgs {
		lines = append(lines, time.Unix(100, int64(i)).UTC().Format(time.RFC3339Nano)+" "+m+"\n")
	}
	return demoCtr{
		c: types.Container{
			ID:     id,
			Names:  []string{"/" + name},
			Image:  "image-of-" + name,
			State:  "running",
			Labels: dockerLabels,
		},
		lines: lines,
	}
}

func demoQuery(t *testing.T, f *demoClient, query string) lokiapi.Streams {
	t.Helper()
	q, err := NewQuerier(f)
	if err != nil {
		t.Fatal(err)
	}
	eng := logqlengine.NewEngine(q, logqlengine.Options{})
	data, err := eng.Eval(context.Background(), query, logqlengine.EvalParams{
		Start: pcommon.NewTimestampFromTime(time.Unix(50, 0)),
		End:   pcommon.NewTimestampFromTime(time.Unix(200, 0)),
		Step:  time.Second,
		Limit: -1,
	})
	if err != nil {
		t.Fatalf("query %s: unexpected error: %v", query, err)
	}
	return data.StreamsResult.Result
}

// ---- demonstrations -----------------------------------------------------

// The regular expression of =~ / !~ is anchored by string concatenation
// ("^(?:" + re + ")$"). A value with a ")" ... "(" pair escapes the group:
// `web)|(?:x` is not a valid regular expression at all, yet it is accepted and
// compiled to `^(?:web)|(?:x)$`, whose first alternative is anchored only at
// the start.
func TestBugRegexMatcherEscapesAnchoring(t *testing.T) {
	const inv = `inventory: {id=id-wf name=/web-frontend}, {id=id-db name=/db}, {id=id-web name=/web}`
	inventory := func() *demoClient {
		return &demoClient{ctrs: []demoCtr{
			demoContainer("id-wf", "web-frontend", nil, "hello from web-frontend"),
			demoContainer("id-db", "db", nil, "hello from db"),
			demoContainer("id-web", "web", nil, "hello from web"),
		}}
	}

	run := func(query string) (read string, err error) {
		f := inventory()
		q, qerr := NewQuerier(f)
		if qerr != nil {
			t.Fatal(qerr)
		}
		eng := logqlengine.NewEngine(q, logqlengine.Options{})
		_, err = eng.Eval(context.Background(), query, logqlengine.EvalParams{
			Start: pcommon.NewTimestampFromTime(time.Unix(50, 0)),
			End:   pcommon.NewTimestampFromTime(time.Unix(200, 0)),
			Step:  time.Second,
			Limit: -1,
		})
		return f.readIDs(), err
	}

	// =~ : "web-frontend" is not fully matched by either alternative (web, x),
	// so a fully anchored match may select at most the container named "web"
	// (or the query is rejected because `web)|(?:x` is not a regular expression).
	const q1 = `{container=~"web)|(?:x"}`
	read, err := run(q1)
	if err == nil && read != "[id-web]" && read != "[]" {
		t.Errorf("%s\nquery %s: property requires =~ to be a FULLY ANCHORED regular-expression match (the value `web)|(?:x` is not even a valid regular expression, so the query should be rejected; under the most lenient reading `web|x` only the container named exactly \"web\" may be read, i.e. [id-web]); program accepted the query and read logs of %s - \"web-frontend\" was selected by a prefix match",
			inv, q1, read)
	}

	// !~ : the complement. "web-frontend" is not fully matched, so it must be read.
	const q2 = `{container!~"web)|(?:x"}`
	read, err = run(q2)
	if err == nil && !strings.Contains(read, "id-wf") {
		t.Errorf("%s\nquery %s: property requires !~ to be the negation of a FULLY ANCHORED match; \"web-frontend\" is not fully matched by `web` or `x`, so id-wf must be read (or the query rejected); program accepted the query and read logs of %s",
			inv, q2, read)
	}
}
