package logqlengine

import (
	"testing"
	"time"

	"go.opentelemetry.io/collector/pdata/pcommon"

	"github.com/tdakkota/docker-logql/internal/logql"
	"github.com/tdakkota/docker-logql/internal/logql/logqlengine/logqlmetric"
)

// Equal label sets have equal keys, whatever implementation carries them: the empty label set of
// vector(c) and the empty label set left by `sum(...)` must be the same series.
func TestVerifReplayEmptyLabelSetKey(t *testing.T) {
	at := time.Unix(1700000000, 0)
	it := logqlmetric.Vector(&logql.VectorExpr{Value: 1}, at, at, 0)
	var step logqlmetric.Step
	if !it.Next(&step) || len(step.Samples) != 1 {
		t.Fatal("vector() produced no sample")
	}
	vecKey := step.Samples[0].Set.Key()

	var set LabelSet
	set.labels = map[logql.Label]pcommon.Value{"app": pcommon.NewValueStr("a")}
	agg := newAggregatedLabels(set, nil, nil).By() // sum(...) without grouping: no label is retained
	if len(agg.AsLokiAPI()) != 0 {
		t.Fatalf("By() kept labels: %v", agg.AsLokiAPI())
	}
	if aggKey := agg.Key(); aggKey != vecKey {
		t.Fatalf("REPRODUCED: two empty label sets have different keys: vector(c) has %d, an aggregation without labels has %d (so `sum(x) + vector(1)` matches nothing and `vector(1) or sum(x)` yields {} twice)", vecKey, aggKey)
	}
}
