package main

import (
	"testing"
	"time"

	"github.com/spf13/pflag"

	"github.com/tdakkota/docker-logql/internal/lokiapi"
)

// demoResolve registers the four flags the way queryCmd does, parses args and
// resolves the time range and the step the way queryCmd's RunE does.
func demoResolve(now time.Time, args ...string) (start, end time.Time, step time.Duration, err error) {
	var (
		startFlag = apiFlagFor[lokiapi.OptLokiTime]("`end - since`")
		endFlag   = apiFlagFor[lokiapi.OptLokiTime]("now")
		sinceFlag = apiFlagFor[lokiapi.OptPrometheusDuration]("6h")
		stepFlag  = apiFlagFor[lokiapi.OptPrometheusDuration]("")
	)
	set := pflag.NewFlagSet("query", pflag.ContinueOnError)
	set.Var(&startFlag, "start", "")
	set.Var(&endFlag, "end", "")
	set.Var(&sinceFlag, "since", "")
	set.Var(&stepFlag, "step", "")
	if err := set.Parse(args); err != nil {
		return start, end, 0, err
	}

	start, end, err = parseTimeRange(now, *startFlag.Val, *endFlag.Val, *sinceFlag.Val)
	if err != nil {
		return start, end, 0, err
	}
	step, err = parseStep(*stepFlag.Val, start, end)
	return start, end, step, err
}

func TestDemoEmptyFlagValueIsRejected(t *testing.T) {
	now := time.Unix(1700000000, 0)

	// Sanity: absent flags get the defaults, given ones are honoured.
	start, end, step, err := demoResolve(now)
	if err != nil {
		t.Fatalf("no flags: %v", err)
	}
	if !end.Equal(now) || !start.Equal(now.Add(-6*time.Hour)) || step != 86*time.Second {
		t.Fatalf("no flags: got [%v, %v] step %v", start, end, step)
	}
	start, end, step, err = demoResolve(now, "--start=1699990000", "--end=1699995000", "--step=30s")
	if err != nil {
		t.Fatalf("explicit flags: %v", err)
	}
	if start.Unix() != 1699990000 || end.Unix() != 1699995000 || step != 30*time.Second {
		t.Fatalf("explicit flags: got [%v, %v] step %v", start, end, step)
	}

	// A flag that is given with an empty value is malformed: it must be an
	// error, not the default.
	for _, args := range [][]string{
		{"--end="},
		{"--start="},
		{"--since="},
		{"--step="},
		{"--end", ""},
		{"--start=1699990000", "--end=1699995000", "--step", ""},
		{"--start=1699990000", "--since="},
	} {
		start, end, step, err := demoResolve(now, args...)
		if err == nil {
			t.Errorf("%q: accepted, resolved to [%d, %d] step %v; want an error",
				args, start.Unix(), end.Unix(), step)
		}
	}
}
