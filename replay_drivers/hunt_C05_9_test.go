package logql

import (
	"testing"
)

// LogQL has exactly one comment form: `#` up to the end of the line.
// `//` and `/* ... */` are not part of the grammar (`/` is the division
// operator), so text that contains them where an operand is expected violates
// the grammar and must be rejected. Instead the tokenizer silently drops them
// (text/scanner's default mode has ScanComments|SkipComments switched on) and
// the query is accepted with another meaning.
func TestBugGoStyleCommentsSilentlyDropped(t *testing.T) {
	// Sanity: a doubled operator is a grammar violation and is rejected when
	// the two slashes are separated by a blank.
	if _, err := Parse(`vector(4) / / vector(2)`, ParseOptions{}); err == nil {
		t.Fatalf("control: `vector(4) / / vector(2)` should be rejected")
	}

	bad := []struct {
		input string
		why   string
	}{
		{
			`vector(4) // vector(2)`,
			"the division operator token is duplicated (single-token corruption of `vector(4) / vector(2)`)",
		},
		{
			`sum(rate({a="b"}[1m])) // sum(rate({a="c"}[1m]))`,
			"the division operator token is duplicated",
		},
		{
			`vector(4) /*2*/ + vector(1)`,
			"`/ * 2 * / +` is not an expression",
		},
		{
			"{a=\"b\"} // |= \"x\"\n|= \"y\"",
			"`/` cannot follow a log selector",
		},
	}
	for _, tc := range bad {
		expr, err := Parse(tc.input, ParseOptions{})
		if err == nil {
			t.Errorf("input %q violates the grammar (%s); the property requires it to be rejected with an error, "+
				"but Parse accepted it with another meaning: %T %+v", tc.input, tc.why, expr, expr)
		}
	}

	// Show the "other meaning" explicitly: everything after `//` is lost.
	expr, err := Parse(`vector(4) // vector(2)`, ParseOptions{})
	if err == nil {
		if v, ok := expr.(*VectorExpr); ok && v.Value == 4 {
			t.Errorf("input %q was parsed as plain vector(4): the right operand vector(2) silently disappeared", `vector(4) // vector(2)`)
		}
	}
}
