package logql

import (
	"fmt"
	"math"
	"testing"
)

func verifEvalTree(e Expr) float64 {
	switch x := e.(type) {
	case *VectorExpr:
		return x.Value
	case *LiteralExpr:
		return x.Value
	case *ParenExpr:
		return verifEvalTree(x.X)
	case *BinOpExpr:
		l, r := verifEvalTree(x.Left), verifEvalTree(x.Right)
		switch x.Op {
		case OpAdd:
			return l + r
		case OpSub:
			return l - r
		case OpMul:
			return l * r
		case OpDiv:
			return l / r
		case OpMod:
			return math.Mod(l, r)
		case OpPow:
			return math.Pow(l, r)
		}
	}
	return math.NaN()
}

// Operators of equal precedence associate left to right (except ^). Replays the refuted grouping
// obligation of parseBinOp on the real parser.
func TestVerifReplayAssoc(t *testing.T) {
	ops := []struct {
		s  string
		op BinOp
	}{{"+", OpAdd}, {"-", OpSub}, {"*", OpMul}, {"/", OpDiv}, {"%", OpMod}, {"^", OpPow}}
	for _, a := range ops {
		for _, b := range ops {
			if a.op.Precedence() != b.op.Precedence() {
				continue
			}
			q := fmt.Sprintf("vector(7) %s vector(2) %s vector(3)", a.s, b.s)
			e, err := Parse(q, ParseOptions{})
			if err != nil {
				t.Fatalf("parse %q: %v", q, err)
			}
			top, ok := e.(*BinOpExpr)
			if !ok {
				t.Fatalf("parse %q: not a binary expression", q)
			}
			_, leftNested := top.Left.(*BinOpExpr)
			_, rightNested := top.Right.(*BinOpExpr)
			wantLeft := a.op != OpPow
			if wantLeft && !(leftNested && !rightNested && top.Op == b.op) {
				conv := verifEvalTree(&BinOpExpr{Left: &BinOpExpr{Left: &VectorExpr{Value: 7}, Op: a.op, Right: &VectorExpr{Value: 2}}, Op: b.op, Right: &VectorExpr{Value: 3}})
				t.Fatalf("REPRODUCED: %q is grouped as 7 %s (2 %s 3) = %v; conventional (left-to-right) reading gives %v", q, a.s, b.s, verifEvalTree(e), conv)
			}
			if !wantLeft && !(rightNested && !leftNested) {
				t.Fatalf("REPRODUCED: %q: ^ must associate right to left", q)
			}
		}
	}
}

// Higher-precedence operators bind tighter on both sides.
func TestVerifReplayPrecedence(t *testing.T) {
	ops := []struct {
		s  string
		op BinOp
	}{{"+", OpAdd}, {"-", OpSub}, {"*", OpMul}, {"/", OpDiv}, {"%", OpMod}, {"^", OpPow}, {"==", OpEq}, {">", OpGt}, {"<=", OpLte}}
	cls := func(op BinOp) int {
		switch op {
		case OpOr:
			return 1
		case OpAnd, OpUnless:
			return 2
		case OpAdd, OpSub:
			return 4
		case OpMul, OpDiv, OpMod:
			return 5
		case OpPow:
			return 6
		}
		return 3
	}
	for _, a := range ops {
		for _, b := range ops {
			if cls(a.op) == cls(b.op) {
				continue
			}
			q := fmt.Sprintf("vector(7) %s vector(2) %s vector(3)", a.s, b.s)
			e, err := Parse(q, ParseOptions{})
			if err != nil {
				t.Fatalf("parse %q: %v", q, err)
			}
			top := e.(*BinOpExpr)
			// the looser operator must be at the top
			want := a.op
			if cls(b.op) < cls(a.op) {
				want = b.op
			}
			if top.Op != want {
				t.Fatalf("REPRODUCED: %q: top operator is %s, the looser-binding operator %s must be at the root", q, top.Op, want)
			}
		}
	}
	// parentheses override
	e, err := Parse("(vector(1) + vector(2)) * vector(3)", ParseOptions{})
	if err != nil {
		t.Fatal(err)
	}
	if top := e.(*BinOpExpr); top.Op != OpMul {
		t.Fatalf("REPRODUCED: parentheses do not override precedence")
	}
}
