package logqlengine

import (
	"context"
	"testing"
	"time"

	"go.opentelemetry.io/collector/pdata/pcommon"

	"github.com/tdakkota/docker-logql/internal/iterators"
	"github.com/tdakkota/docker-logql/internal/logstorage"
	"github.com/tdakkota/docker-logql/internal/lokiapi"
	"github.com/tdakkota/docker-logql/internal/otelstorage"
)

type zzConvRec struct {
	ts     time.Time
	series string
	v      string
}

// zzConvQuerier returns the records (in time order) whose timestamps lie in the requested [start, end].
type zzConvQuerier struct {
	recs []zzConvRec
}

func (q *zzConvQuerier) Capabilities() (caps QuerierCapabilities) { return caps }

func (q *zzConvQuerier) SelectLogs(_ context.Context, start, end otelstorage.Timestamp, _ SelectLogsParams) (iterators.Iterator[logstorage.Record], error) {
	var out []logstorage.Record
	for _, r := range q.recs {
		ts := otelstorage.NewTimestampFromTime(r.ts)
		if ts < start || ts > end {
			continue
		}
		attrs := pcommon.NewMap()
		attrs.PutStr("v", r.v)
		res := pcommon.NewMap()
		res.PutStr("s", r.series)
		out = append(out, logstorage.Record{
			Timestamp:     ts,
			Attrs:         otelstorage.Attrs(attrs),
			ResourceAttrs: otelstorage.Attrs(res),
			ScopeAttrs:    otelstorage.Attrs(pcommon.NewMap()),
		})
	}
	return iterators.Slice(out), nil
}

// zzConvInstant runs an instant query at T and returns series label s -> value.
func zzConvInstant(t *testing.T, q Querier, query string, T time.Time) map[string]string {
	t.Helper()
	data, err := NewEngine(q, Options{}).Eval(context.Background(), query, EvalParams{
		Start: otelstorage.NewTimestampFromTime(T),
		End:   otelstorage.NewTimestampFromTime(T),
	})
	if err != nil {
		t.Fatalf("eval %q: %v", query, err)
	}
	if data.Type != lokiapi.VectorResultQueryResponseData {
		t.Fatalf("unexpected result type %q", data.Type)
	}
	out := map[string]string{}
	for _, s := range data.VectorResult.Result {
		out[s.Metric.Value["s"]] = s.Value.V
	}
	return out
}

// TestBugUnconvertibleUnwrapValueBecomesZeroSample: a record whose unwrapped
// label cannot be converted has no value, yet the sampler (labelsExtractor.Extract)
// drops the conversion error and feeds 0 into the window as if it had been logged.
func TestBugUnconvertibleUnwrapValueBecomesZeroSample(t *testing.T) {
	base := time.Unix(1700000000, 0)
	T := base.Add(20 * time.Second) // window [base, base+20s] holds every record below

	cases := []struct {
		name   string
		query  string
		values []string // series "a", one record per value
		want   string
	}{
		{"min, plain number", `min_over_time({s=~".+"} | unwrap v [20s]) by (s)`, []string{"7", "-", "9"}, "7"},
		{"avg, plain number", `avg_over_time({s=~".+"} | unwrap v [20s]) by (s)`, []string{"7", "-", "9"}, "8"},
		{"avg, errors filtered out by the user", `avg_over_time({s=~".+"} | unwrap v | __error__="" [20s]) by (s)`, []string{"7", "-", "9"}, "8"},
		{"min, duration()", `min_over_time({s=~".+"} | unwrap duration(v) [20s]) by (s)`, []string{"2s", "timeout", "4s"}, "2"},
		{"max, bytes() of negative junk", `max_over_time({s=~".+"} | unwrap bytes(v) [20s]) by (s)`, []string{"-3KB", "-2KB"}, ""},
		{"stddev", `stddev_over_time({s=~".+"} | unwrap v [20s]) by (s)`, []string{"5", "n/a", "5"}, "0"},
	}
	for _, tc := range cases {
		var recs []zzConvRec
		for i, v := range tc.values {
			recs = append(recs, zzConvRec{base.Add(time.Duration(10+i) * time.Second), "a", v})
		}
		// Series "b": nothing convertible at all in the window.
		recs = append(recs, zzConvRec{base.Add(15 * time.Second), "b", "not-a-number"})

		got := zzConvInstant(t, &zzConvQuerier{recs: recs}, tc.query, T)

		gotA, okA := got["a"]
		if tc.want == "" {
			if okA {
				t.Errorf("%s: records of series a carry v=%q, query %s at T (window holds all records)\n"+
					"property: a series with no sample in the window reports nothing at T (none of the values converts)\n"+
					"program: reports %q", tc.name, tc.values, tc.query, gotA)
			}
		} else if gotA != tc.want {
			t.Errorf("%s: records of series a carry v=%q, query %s at T (window holds all records)\n"+
				"property: the series reports f applied to exactly the samples in the window, i.e. to the unwrapped, converted values => %s\n"+
				"program: reports %q - the unconvertible value was turned into a sample 0", tc.name, tc.values, tc.query, tc.want, gotA)
		}
		if gotB, okB := got["b"]; okB {
			t.Errorf("%s: series b has a single record v=\"not-a-number\", query %s\n"+
				"property: a series with no sample in the window reports nothing at T\n"+
				"program: reports %q for series b", tc.name, tc.query, gotB)
		}
	}
}
