package logqlengine

import (
	"fmt"
	"sort"
	"strings"
	"testing"

	"go.opentelemetry.io/collector/pdata/pcommon"

	"github.com/tdakkota/docker-logql/internal/logql"
)

func verifSet(kv ...string) LabelSet {
	s := newLabelSet()
	for i := 0; i+1 < len(kv); i += 2 {
		s.Set(logql.Label(kv[i]), pcommon.NewValueStr(kv[i+1]))
	}
	return s
}

func verifVisible(al interface{ AsLokiAPI() map[string]string }) string {
	m := al.AsLokiAPI()
	var ks []string
	for k, v := range m {
		ks = append(ks, k+"="+v)
	}
	sort.Strings(ks)
	return "{" + strings.Join(ks, ",") + "}"
}

// Equal label sets have equal keys (whatever the map iteration order), different ones differ.
func TestVerifReplayKeyCanonical(t *testing.T) {
	set := verifSet("a", "1", "b", "2", "c", "3", "d", "4", "e", "5", "f", "6")
	first := newAggregatedLabels(set, nil, nil).Key()
	for i := 0; i < 300; i++ {
		if k := newAggregatedLabels(set, nil, nil).Key(); k != first {
			t.Fatalf("REPRODUCED: the same label set yields two different grouping keys (%d and %d) in run %d: the key depends on map iteration order", first, k, i)
		}
	}
	k1 := newAggregatedLabels(verifSet("a", "bc"), nil, nil).Key()
	k2 := newAggregatedLabels(verifSet("ab", "c"), nil, nil).Key()
	if k1 == k2 {
		t.Fatalf("REPRODUCED: {a=\"bc\"} and {ab=\"c\"} have the same grouping key %d: name and value are hashed unframed", k1)
	}
	k3 := newAggregatedLabels(verifSet("a", "x", "b", "y"), nil, nil).Key()
	k4 := newAggregatedLabels(verifSet("a", "x\x00b\x00y"), nil, nil).Key()
	if k3 == k4 {
		t.Fatalf("REPRODUCED: two different label sets share the key %d", k3)
	}
}

// Grouping composes: labels removed by an inner aggregation cannot reappear; by () retains nothing.
func TestVerifReplayNestedBy(t *testing.T) {
	al := newAggregatedLabels(verifSet("a", "1", "b", "2", "c", "3"), nil, nil)
	inner := al.By("b")
	outer := inner.By("a")
	if got := fmt.Sprint(outer.AsLokiAPI()); got != "map[]" {
		t.Fatalf("REPRODUCED: by(a) applied after by(b) shows %s, want no labels (a was removed by the inner aggregation)", got)
	}
	if got := fmt.Sprint(al.By().AsLokiAPI()); got != "map[]" {
		t.Fatalf("REPRODUCED: by() retains %s, want no labels", got)
	}
	if got := fmt.Sprint(al.By("a", "b").Without("a").AsLokiAPI()); got != "map[b:2]" {
		t.Fatalf("REPRODUCED: by(a,b) then without(a) shows %s, want map[b:2]", got)
	}
}
