package logql

import (
	"reflect"
	"testing"
)

// A `#` comment runs to the end of the line and is insignificant: the lexer
// drops it wherever it stands (the control cases below show that). A comment
// placed between an aggregation/function name and what follows it must not
// change how the query is parsed.
func TestBugCommentAfterFunctionName(t *testing.T) {
	for _, tt := range []struct {
		plain     string // query without comments
		commented string // same token sequence, with a comment / comment lines added
		control   bool   // true: comment in a position that already works
	}{
		{
			plain:     `sum(rate({a="b"}[1m]))`,
			commented: "sum( # total\n  rate({a=\"b\"}[1m]) # per second\n) # done",
			control:   true,
		},
		{
			plain:     `sum(rate({a="b"}[1m]))`,
			commented: "sum # total\n(rate({a=\"b\"}[1m]))",
		},
		{
			plain:     `sum by (a) (rate({a="b"}[1m]))`,
			commented: "sum # total per a\n  by (a) (rate({a=\"b\"}[1m]))",
		},
		{
			plain:     `sum(count_over_time({a="b"} |= "x" [5m]))`,
			commented: "sum(count_over_time\n# matching lines\n({a=\"b\"} |= \"x\" [5m]))",
		},
		{
			plain:     `topk(3, rate({a="b"}[1m]))`,
			commented: "topk #top three\n(3, rate({a=\"b\"}[1m]))",
		},
		{
			plain:     `sum_over_time({a="b"} | unwrap bytes(size) [1m])`,
			commented: "sum_over_time({a=\"b\"} | unwrap bytes # size is like 5KiB\n(size) [1m])",
		},
	} {
		want, err := Parse(tt.plain, ParseOptions{})
		if err != nil {
			t.Fatalf("plain query %q must parse, got error: %v", tt.plain, err)
		}
		got, err := Parse(tt.commented, ParseOptions{})
		if err != nil {
			if tt.control {
				t.Fatalf("control %q must parse, got error: %v", tt.commented, err)
			}
			t.Errorf("input %q: it is the valid query %q plus a comment, so it must be accepted and parsed into "+
				"the same structure (parsing is independent of comments); the parser rejected it: %v",
				tt.commented, tt.plain, err)
			continue
		}
		if !reflect.DeepEqual(got, want) {
			t.Errorf("input %q: parsed into %#v, want the structure of %q: %#v", tt.commented, got, tt.plain, want)
		}
	}
}
