package main

import (
	"testing"
	"time"

	"github.com/tdakkota/docker-logql/internal/lokiapi"
)

// An explicit --step written as plain (decimal) seconds must resolve to that
// many seconds: "4.1" is 4.1s, exactly what the Prometheus spelling "4100ms"
// gives. parseDuration multiplies a float64 by 1e9 and TRUNCATES, so every
// decimal whose float64 product lands just below the integer loses a
// nanosecond.
func TestBugStepPlainSecondsTruncated(t *testing.T) {
	cases := []struct {
		plain string // --step=<plain seconds>
		prom  string // the same duration as a Prometheus duration
		want  time.Duration
	}{
		{"4.1", "4100ms", 4100 * time.Millisecond},
		{"2.01", "2010ms", 2010 * time.Millisecond},
		{"1.001", "1001ms", 1001 * time.Millisecond},
		{"8.2", "8200ms", 8200 * time.Millisecond},
	}
	for _, c := range cases {
		start := time.Unix(1700000000, 0)
		end := time.Unix(1700003600, 0)

		viaProm, err := parseStep(lokiapi.NewOptPrometheusDuration(lokiapi.PrometheusDuration(c.prom)), start, end)
		if err != nil || viaProm != c.want {
			t.Fatalf("sanity: --step=%s resolved to %v (err=%v), want %v", c.prom, viaProm, err, c.want)
		}

		got, err := parseStep(lokiapi.NewOptPrometheusDuration(lokiapi.PrometheusDuration(c.plain)), start, end)
		if err != nil {
			t.Errorf("--step=%s: unexpected error %v", c.plain, err)
			continue
		}
		if got != c.want {
			t.Errorf("--step=%s (plain seconds): the property requires the explicit step to be honoured, "+
				"i.e. %v = %dns, the same as --step=%s; the program resolved it to %v = %dns",
				c.plain, c.want, int64(c.want), c.prom, got, int64(got))
		}
	}
}

// How common it is: every step with a whole number of milliseconds below 100s.
func TestBugStepPlainSecondsTruncatedCount(t *testing.T) {
	bad, first := 0, ""
	for ms := 1; ms < 100000; ms++ {
		v := time.Duration(ms) * time.Millisecond
		s := lokiapi.PrometheusDuration(formatMillis(ms))
		got, err := parseDuration(s)
		if err != nil || got != v {
			if bad == 0 {
				first = string(s)
			}
			bad++
		}
	}
	if bad != 0 {
		t.Errorf("of the 99999 steps 0.001 .. 99.999 written as plain decimal seconds, %d do not resolve to "+
			"the duration they denote (first: --step=%s); the property requires all of them to be honoured exactly",
			bad, first)
	}
}

func formatMillis(ms int) string {
	digits := []byte{
		byte('0' + ms/100%10), byte('0' + ms/10%10), byte('0' + ms%10),
	}
	whole := ms / 1000
	out := []byte{}
	if whole >= 10 {
		out = append(out, byte('0'+whole/10))
	}
	out = append(out, byte('0'+whole%10), '.')
	return string(append(out, digits...))
}
