package dockerlog

import (
	"bytes"
	"encoding/binary"
	"io"
	"testing"
	"testing/iotest"

	"github.com/tdakkota/docker-logql/internal/logstorage"
	"github.com/tdakkota/docker-logql/internal/otelstorage"
)

func verifFrame(typ byte, payload string) []byte {
	h := make([]byte, 8)
	h[0] = typ
	binary.BigEndian.PutUint32(h[4:], uint32(len(payload)))
	return append(h, payload...)
}

type verifRC struct{ io.Reader }

func (verifRC) Close() error { return nil }

func verifDecode(data []byte, r func(io.Reader) io.Reader) ([]logstorage.Record, error) {
	it := ParseLog(verifRC{r(bytes.NewReader(data))}, otelstorage.Attrs{})
	var out []logstorage.Record
	var rec logstorage.Record
	for it.Next(&rec) {
		out = append(out, rec)
	}
	return out, it.Err()
}

// Frames are decoded in order, byte-exact, whatever the read fragmentation; truncation inside a
// header ends cleanly, truncation inside a body / error frames / bad timestamps are errors.
func TestVerifReplayStreamDecoding(t *testing.T) {
	var stream []byte
	msgs := []string{"hello world", "second  line with  spaces", "x"}
	for i, m := range msgs {
		stream = append(stream, verifFrame(byte(1+i%2), "2024-01-02T03:04:05.00000000"+string(rune('1'+i))+"Z "+m)...)
	}
	for name, wrap := range map[string]func(io.Reader) io.Reader{
		"plain":   func(r io.Reader) io.Reader { return r },
		"onebyte": iotest.OneByteReader,
		"half":    iotest.HalfReader,
	} {
		recs, err := verifDecode(stream, wrap)
		if err != nil || len(recs) != len(msgs) {
			t.Fatalf("REPRODUCED: %s reads: decoded %d records, err %v; want %d, nil", name, len(recs), err, len(msgs))
		}
		for i, m := range msgs {
			if recs[i].Body != m {
				t.Fatalf("REPRODUCED: %s reads: record %d body %q, want %q", name, i, recs[i].Body, m)
			}
			if ns := recs[i].Timestamp.AsTime().Nanosecond(); ns != i+1 {
				t.Fatalf("REPRODUCED: record %d nanoseconds %d, want %d", i, ns, i+1)
			}
		}
	}
	// cut inside a header: clean end after the whole records
	recs, err := verifDecode(stream[:len(stream)-len(verifFrame(1, "2024-01-02T03:04:05.000000003Z x"))+3], func(r io.Reader) io.Reader { return r })
	if err != nil || len(recs) != 2 {
		t.Fatalf("REPRODUCED: stream cut inside a frame header: %d records, err %v; want 2, nil", len(recs), err)
	}
	// cut inside a body: error
	recs, err = verifDecode(stream[:len(stream)-1], func(r io.Reader) io.Reader { return r })
	if err == nil {
		t.Fatalf("REPRODUCED: stream cut inside a frame body yields %d records and no error", len(recs))
	}
	// daemon error frame
	if _, err := verifDecode(append(append([]byte{}, stream...), verifFrame(3, "boom")...), func(r io.Reader) io.Reader { return r }); err == nil {
		t.Fatalf("REPRODUCED: daemon error frame is not reported")
	}
	// unparsable timestamp
	if _, err := verifDecode(verifFrame(1, "notatime message"), func(r io.Reader) io.Reader { return r }); err == nil {
		t.Fatalf("REPRODUCED: unparsable timestamp is not reported")
	}
}

// A stream that failed stays failed: consumers that call Next again (a range aggregation does, at
// its next step) must not find the error gone.
func TestVerifReplayStickyStreamError(t *testing.T) {
	var data []byte
	data = append(data, verifFrame(1, "2024-01-01T00:00:01.000000001Z a\n")...)
	data = append(data, verifFrame(1, "2024-01-01T00:00:02.000000001Z b\n")...)
	data = data[:len(data)-3] // cut inside the second frame's body
	it := ParseLog(verifRC{bytes.NewReader(data)}, otelstorage.Attrs{})
	var rec logstorage.Record
	for it.Next(&rec) {
	}
	if it.Err() == nil {
		t.Skip("the cut was not reported at all (another obligation covers that)")
	}
	if it.Next(&rec) || it.Err() == nil {
		t.Fatalf("REPRODUCED: after the stream failed inside a frame, calling Next once more clears the error (Err() == %v): a multi-step range query over this container returns a truncated result and no error", it.Err())
	}
}
