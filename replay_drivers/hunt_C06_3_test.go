package logqlengine

import (
	"testing"

	"github.com/tdakkota/docker-logql/internal/logql"
)

func demoNestedRun(t *testing.T, stages, line string) (newLine string, keep bool, labels map[string]string) {
	t.Helper()
	expr, err := logql.Parse(`{job="x"} `+stages, logql.ParseOptions{})
	if err != nil {
		t.Fatalf("parse %q: %v", stages, err)
	}
	p, err := BuildPipeline(expr.(*logql.LogExpr).Pipeline...)
	if err != nil {
		t.Fatalf("build %q: %v", stages, err)
	}
	set := newLabelSet()
	newLine, keep = p.Process(1, line, set)
	return newLine, keep, set.AsMap()
}

// Property: "Every field present in a well-formed line is exposed as a label
// with exactly its value". The field `ids` has the value [1,null,2]; `| json`
// and `| json ids` expose it as [1,2]: the null element is removed and the
// following elements change position.
func TestBugJSONArrayFieldLosesNullElements(t *testing.T) {
	const line = `{"ids":[1,null,2]}`
	for _, stages := range []string{`| json`, `| json ids`} {
		newLine, keep, labels := demoNestedRun(t, stages, line)
		if !keep || newLine != line {
			t.Fatalf("%s: line dropped or changed: keep=%v line=%q", stages, keep, newLine)
		}
		if got, want := labels["ids"], `[1,null,2]`; got != want {
			t.Errorf("`%s` over the well-formed line %s: property requires label ids=%q (exactly the field's value); program produced ids=%q",
				stages, line, want, got)
		}
	}
}

// Same for a nested object: the member whose value is null disappears.
func TestBugJSONObjectFieldLosesNullMembers(t *testing.T) {
	const line = `{"user":{"email":null,"id":7}}`
	_, _, labels := demoNestedRun(t, `| json user`, line)
	if got, want := labels["user"], `{"email":null,"id":7}`; got != want {
		t.Errorf("`| json user` over the well-formed line %s: property requires label user=%q; program produced user=%q",
			line, want, got)
	}
}

// The path-expression form of the same stage exposes the exact value, so the
// two forms of `json` disagree about the value of one and the same field.
func TestBugJSONFieldListAndPathExpressionDisagree(t *testing.T) {
	const line = `{"ids":[1,null,2]}`
	_, _, viaList := demoNestedRun(t, `| json ids`, line)
	_, _, viaExpr := demoNestedRun(t, `| json ids="ids"`, line)
	if viaList["ids"] != viaExpr["ids"] {
		t.Errorf("line %s: `| json ids` exposes ids=%q but `| json ids=\"ids\"` exposes ids=%q; the property requires exactly the field's value in both cases",
			line, viaList["ids"], viaExpr["ids"])
	}
}
