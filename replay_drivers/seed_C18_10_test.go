package logqlengine

import (
	"testing"

	"github.com/tdakkota/docker-logql/internal/logql"
)

// The same line run through the same pipeline has to get the same labels, every time.
//
// Two labels of a json stage may address the same member. When that member is an
// object or an array, its raw text is the value of both labels.
func TestDemoJSONSamePathTwiceIsRepeatable(t *testing.T) {
	const (
		query = `{} | json first="request.headers", second="request.headers", ips="servers", addrs="servers", method="request.method", verb="request.method"`
		line  = `{"servers": ["129.0.1.1","10.2.1.3"], "request": {"method": "GET", "headers": {"Accept": "*/*"}}}`
		want  = `{addrs="[\"129.0.1.1\",\"10.2.1.3\"]",first="{\"Accept\": \"*/*\"}",ips="[\"129.0.1.1\",\"10.2.1.3\"]",method="GET",second="{\"Accept\": \"*/*\"}",verb="GET"}`
	)

	expr, err := logql.Parse(query, logql.ParseOptions{})
	if err != nil {
		t.Fatal(err)
	}
	logExpr, ok := logql.UnparenExpr(expr).(*logql.LogExpr)
	if !ok {
		t.Fatalf("unexpected expression %T", expr)
	}

	seen := map[string]int{}
	for i := 0; i < 200; i++ {
		// A fresh pipeline every time, like a fresh query.
		pipeline, err := BuildPipeline(logExpr.Pipeline...)
		if err != nil {
			t.Fatal(err)
		}

		set := newLabelSet()
		if _, keep := pipeline.Process(1, line, set); !keep {
			t.Fatal("line is dropped")
		}
		seen[set.String()]++
	}

	if len(seen) != 1 {
		t.Errorf("the same line through the same query gave %d different label sets:", len(seen))
		for labels, n := range seen {
			t.Errorf("  %3d times: %s", n, labels)
		}
	}
	for labels := range seen {
		if labels != want {
			t.Errorf("unexpected labels:\n got: %s\nwant: %s", labels, want)
		}
	}
}
