package main

import (
	"fmt"
	"testing"
	"time"

	"github.com/tdakkota/docker-logql/internal/lokiapi"
)

// TestBugFractionalSecondsRoundedToMillisecond shows that a timestamp written
// as fractional unix seconds does not denote the same instant as the very same
// timestamp written as unix nanoseconds or RFC3339 as soon as it has digits
// below the millisecond: parseTimestamp rounds the fraction to 3 decimals.
func TestBugFractionalSecondsRoundedToMillisecond(t *testing.T) {
	now := time.Date(2024, 1, 1, 0, 0, 0, 0, time.UTC)

	cases := []struct {
		sec   int64
		nanos int64
		frac  string // the same fraction, written in decimal
	}{
		{1700000000, 123456000, "123456"}, // what e.g. Python's time.time() prints
		{1700000000, 400000, "0004"},      // rounded DOWN by 0.4ms
		{1700000000, 999600000, "9996"},   // rounded UP into the next second
		{978307200, 500000, "0005"},       // 2001-01-01, half a millisecond
	}
	for _, c := range cases {
		want := time.Unix(c.sec, c.nanos).UTC()

		spellings := map[string]string{
			"unix nanoseconds":   fmt.Sprintf("%d", c.sec*1e9+c.nanos),
			"RFC3339":            want.Format(time.RFC3339Nano),
			"fractional seconds": fmt.Sprintf("%d.%s", c.sec, c.frac),
		}
		for _, kind := range []string{"unix nanoseconds", "RFC3339", "fractional seconds"} {
			spelling := spellings[kind]

			var start lokiapi.OptLokiTime
			start.SetTo(lokiapi.LokiTime(spelling))
			got, _, err := parseTimeRange(now, start, lokiapi.OptLokiTime{}, lokiapi.OptPrometheusDuration{})
			if err != nil {
				t.Errorf("--start %q (%s): unexpected error %v", spelling, kind, err)
				continue
			}
			if !got.Equal(want) {
				t.Errorf("--start %q (%s): the property requires every spelling of the instant %s "+
					"to denote the same instant, but the program resolved start to %s (off by %v)",
					spelling, kind,
					want.Format(time.RFC3339Nano), got.UTC().Format(time.RFC3339Nano), got.Sub(want))
			}
		}
	}
}
