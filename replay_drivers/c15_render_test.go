package main

import (
	"bytes"
	"fmt"
	"testing"

	"github.com/tdakkota/docker-logql/internal/lokiapi"
)

// Rendering must succeed for any number of containers (palette lookup stays in range).
func TestVerifReplayRenderPalette(t *testing.T) {
	for n := 1; n <= 20; n++ {
		var streams lokiapi.Streams
		for i := 0; i < n; i++ {
			streams = append(streams, lokiapi.Stream{
				Stream: lokiapi.NewOptLabelSet(lokiapi.LabelSet{"container": fmt.Sprintf("c%d", i)}),
				Values: []lokiapi.LogEntry{{T: uint64(1000 + i), V: "line"}},
			})
		}
		data := lokiapi.QueryResponseData{
			Type:          lokiapi.StreamsResultQueryResponseData,
			StreamsResult: lokiapi.StreamsResult{Result: streams},
		}
		func() {
			defer func() {
				if r := recover(); r != nil {
					t.Fatalf("REPRODUCED: renderResult panics with %d containers and colour on: %v", n, r)
				}
			}()
			var out bytes.Buffer
			if err := renderResult(&out, renderOptions{timestamp: true, container: true, color: true}, data); err != nil {
				t.Fatalf("REPRODUCED: renderResult fails with %d containers: %v", n, err)
			}
			if got := bytes.Count(out.Bytes(), []byte("\n")); got != n {
				t.Fatalf("REPRODUCED: %d entries rendered as %d lines", n, got)
			}
		}()
	}
}
