package main

import (
	"bytes"
	"fmt"
	"testing"

	"github.com/tdakkota/docker-logql/internal/lokiapi"
)

// Rendering must succeed for any number of containers (palette lookup stays in range).
func TestVerifReplayRenderPalette(t *testing.T) {
	for n := 1; n <= 20; n++ {
		var streams lokiapi.Streams
		for i := 0; i < n; i++ {
			streams = append(streams, lokiapi.Stream{
				Stream: lokiapi.NewOptLabelSet(lokiapi.LabelSet{"container": fmt.Sprintf("c%d", i)}),
				Values: []lokiapi.LogEntry{{T: uint64(1000 + i), V: "line"}},
			})
		}
		data := lokiapi.QueryResponseData{
			Type:          lokiapi.StreamsResultQueryResponseData,
			StreamsResult: lokiapi.StreamsResult{Result: streams},
		}
		func() {
			defer func() {
				if r := recover(); r != nil {
					t.Fatalf("REPRODUCED: renderResult panics with %d containers and colour on: %v", n, r)
				}
			}()
			var out bytes.Buffer
			if err := renderResult(&out, renderOptions{timestamp: true, container: true, color: true}, data); err != nil {
				t.Fatalf("REPRODUCED: renderResult fails with %d containers: %v", n, err)
			}
			if got := bytes.Count(out.Bytes(), []byte("\n")); got != n {
				t.Fatalf("REPRODUCED: %d entries rendered as %d lines", n, got)
			}
		}()
	}
}

// Every value of every stream is printed exactly once and lines come out in timestamp order, for
// every order of the streams in the result (so the output does not depend on map iteration order).
func TestVerifReplayRenderOrder(t *testing.T) {
	mk := func(perm []int) lokiapi.QueryResponseData {
		all := []lokiapi.Stream{
			{Stream: lokiapi.NewOptLabelSet(lokiapi.LabelSet{"container": "a"}), Values: []lokiapi.LogEntry{{T: 30, V: "a30"}, {T: 10, V: ""}, {T: 50, V: "a50\n"}}},
			{Stream: lokiapi.NewOptLabelSet(lokiapi.LabelSet{"container": "b"}), Values: []lokiapi.LogEntry{{T: 20, V: "b20"}, {T: 60, V: "b60"}}},
			{Stream: lokiapi.NewOptLabelSet(lokiapi.LabelSet{"container": "c"}), Values: []lokiapi.LogEntry{{T: 40, V: "c40"}}},
		}
		var streams lokiapi.Streams
		for _, i := range perm {
			streams = append(streams, all[i])
		}
		return lokiapi.QueryResponseData{Type: lokiapi.StreamsResultQueryResponseData, StreamsResult: lokiapi.StreamsResult{Result: streams}}
	}
	want := "a \nb b20\na a30\nc c40\na a50\nb b60\n"
	for _, perm := range [][]int{{0, 1, 2}, {0, 2, 1}, {1, 0, 2}, {1, 2, 0}, {2, 0, 1}, {2, 1, 0}} {
		var out bytes.Buffer
		if err := renderResult(&out, renderOptions{timestamp: false, container: true, color: false}, mk(perm)); err != nil {
			t.Fatalf("REPRODUCED: renderResult fails: %v", err)
		}
		if out.String() != want {
			t.Fatalf("REPRODUCED: streams in order %v render as %q, want %q (every value once, in time order)", perm, out.String(), want)
		}
	}
}
