package logqlengine

import (
	"context"
	"fmt"
	"sort"
	"testing"
	"time"

	"github.com/stretchr/testify/require"
	"go.opentelemetry.io/collector/pdata/pcommon"

	"github.com/tdakkota/docker-logql/internal/iterators"
	"github.com/tdakkota/docker-logql/internal/logql"
	"github.com/tdakkota/docker-logql/internal/logstorage"
	"github.com/tdakkota/docker-logql/internal/otelstorage"
)

type demo10Record struct {
	line string
	lvl  string // empty: the record has no `lvl` label
}

// demo10Querier serves a fixed list of records and offloads nothing.
type demo10Querier struct {
	records []demo10Record
}

func (q *demo10Querier) Capabilities() (caps QuerierCapabilities) { return caps }

func (q *demo10Querier) SelectLogs(_ context.Context, start, _ otelstorage.Timestamp, _ SelectLogsParams) (iterators.Iterator[logstorage.Record], error) {
	ts := start.AsTime()
	records := make([]logstorage.Record, 0, len(q.records))
	for _, r := range q.records {
		ts = ts.Add(time.Millisecond)
		attrs := pcommon.NewMap()
		attrs.PutStr("app", "demo")
		if r.lvl != "" {
			attrs.PutStr("lvl", r.lvl)
		}
		records = append(records, logstorage.Record{
			Timestamp:     otelstorage.NewTimestampFromTime(ts),
			Body:          r.line,
			Attrs:         otelstorage.Attrs(attrs),
			ScopeAttrs:    otelstorage.Attrs(pcommon.NewMap()),
			ResourceAttrs: otelstorage.Attrs(pcommon.NewMap()),
		})
	}
	return iterators.Slice(records), nil
}

// demo10Eval returns the sorted list of "timestamp line" entries of a log query.
// Timestamps are unique per record, so the list is a set.
func demo10Eval(t *testing.T, records []demo10Record, query string) []string {
	t.Helper()

	e := NewEngine(&demo10Querier{records: records}, Options{
		ParseOptions: logql.ParseOptions{AllowDots: true},
	})
	data, err := e.Eval(context.Background(), query, EvalParams{
		Start: otelstorage.Timestamp(1700000000_000000000),
		End:   otelstorage.Timestamp(1700000100_000000000),
		Step:  time.Second,
		Limit: 1000,
	})
	require.NoError(t, err, "query %q", query)

	streams, ok := data.GetStreamsResult()
	require.True(t, ok, "query %q: streams expected", query)

	got := []string{}
	for _, s := range streams.Result {
		for _, v := range s.Values {
			got = append(got, fmt.Sprintf("%d %s", v.T, v.V))
		}
	}
	sort.Strings(got)
	return got
}

func demo10Union(a, b []string) []string {
	seen := map[string]struct{}{}
	out := []string{}
	for _, s := range append(append([]string{}, a...), b...) {
		if _, ok := seen[s]; ok {
			continue
		}
		seen[s] = struct{}{}
		out = append(out, s)
	}
	sort.Strings(out)
	return out
}

func demo10Intersect(a, b []string) []string {
	in := map[string]struct{}{}
	for _, s := range a {
		in[s] = struct{}{}
	}
	out := []string{}
	for _, s := range b {
		if _, ok := in[s]; ok {
			out = append(out, s)
		}
	}
	sort.Strings(out)
	return out
}

// `a or b` selects the union and `a and b` the intersection of what
// a and b select alone.
func TestDemoLabelPredicateOrIsUnion(t *testing.T) {
	records := []demo10Record{
		{"first", "a"},
		{"second", "b"},
		{"third", "c"},
		{"fourth", ""},
		{"fifth", "a"},
		{"sixth", "b"},
	}

	preds := []string{
		`lvl = "a"`,
		`lvl = "b"`,
		`lvl != "a"`,
		`lvl != "b"`,
		`lvl != "c"`,
		`lvl =~ "a|c"`,
		`app != "demo"`,
	}
	for _, prefix := range []string{`{}`, `{app="demo"} |= "i"`} {
		for _, a := range preds {
			for _, b := range preds {
				ra := demo10Eval(t, records, prefix+` | `+a)
				rb := demo10Eval(t, records, prefix+` | `+b)

				or := prefix + ` | ` + a + ` or ` + b
				require.Equal(t, demo10Union(ra, rb), demo10Eval(t, records, or), "query %q", or)

				and := prefix + ` | ` + a + ` and ` + b
				require.Equal(t, demo10Intersect(ra, rb), demo10Eval(t, records, and), "query %q", and)
			}
		}
	}
}
