package logqlengine

import (
	"testing"

	"github.com/stretchr/testify/require"

	"github.com/tdakkota/docker-logql/internal/logql"
)

func demoLogfmt(t *testing.T, line string, labels []logql.Label, exprs []logql.LabelExtractionExpr) (string, LabelSet) {
	t.Helper()

	e, err := buildLogfmtExtractor(&logql.LogfmtExpressionParser{
		Labels: labels,
		Exprs:  exprs,
	})
	require.NoError(t, err)

	set := newLabelSet()
	newLine, keep := e.Process(0, line, set)
	require.True(t, keep, "line %q must not be dropped", line)
	require.Equal(t, line, newLine, "line must not be changed")
	return newLine, set
}

// Every requested field that is present in a well-formed record must come back
// as a label with exactly its value, however many times other keys repeat.
func TestDemoLogfmtRequestedFieldsWithRepeatedKey(t *testing.T) {
	_, set := demoLogfmt(t,
		`level=info level=warn msg="disk almost full" host=db-1`,
		[]logql.Label{"level", "host"},
		[]logql.LabelExtractionExpr{{Label: "message", Expr: `"msg"`}},
	)
	_, flagged := set.GetError()
	require.False(t, flagged)

	for label, want := range map[logql.Label]string{
		"level":   "warn",
		"message": "disk almost full",
		"host":    "db-1",
	} {
		got, ok := set.GetString(label)
		require.Truef(t, ok, "requested field %q is present in the line but was not extracted", label)
		require.Equal(t, want, got)
	}
	require.Len(t, set.labels, 3, "only the requested fields must be exposed")
}

// A record the stage cannot parse must be flagged, also when the broken
// part comes after the requested fields.
func TestDemoLogfmtMalformedTailIsFlagged(t *testing.T) {
	_, set := demoLogfmt(t,
		`level=info msg="unterminated`,
		[]logql.Label{"level"},
		nil,
	)
	typ, flagged := set.GetError()
	require.True(t, flagged, "malformed logfmt line must be flagged with __error__")
	require.Equal(t, "logfmt parsing error", typ)

	// The same line without a field list is flagged as well.
	_, set = demoLogfmt(t, `level=info msg="unterminated`, nil, nil)
	_, flagged = set.GetError()
	require.True(t, flagged)
}
