package logqlengine

import (
	"context"
	"strconv"
	"testing"
	"time"

	"go.opentelemetry.io/collector/pdata/pcommon"

	"github.com/tdakkota/docker-logql/internal/iterators"
	"github.com/tdakkota/docker-logql/internal/logstorage"
	"github.com/tdakkota/docker-logql/internal/otelstorage"
)

type bugRateRec struct {
	ts    time.Time
	attrs map[string]string
}

// bugRateQuerier is an honest storage: records sorted by time, [start, end] inclusive.
type bugRateQuerier struct{ recs []bugRateRec }

func (q *bugRateQuerier) Capabilities() (caps QuerierCapabilities) { return caps }

func (q *bugRateQuerier) SelectLogs(_ context.Context, start, end otelstorage.Timestamp, _ SelectLogsParams) (iterators.Iterator[logstorage.Record], error) {
	var out []logstorage.Record
	for _, r := range q.recs {
		if r.ts.Before(start.AsTime()) || r.ts.After(end.AsTime()) {
			continue
		}
		attrs := pcommon.NewMap()
		for k, v := range r.attrs {
			attrs.PutStr(k, v)
		}
		out = append(out, logstorage.Record{
			Timestamp:     otelstorage.NewTimestampFromTime(r.ts),
			Body:          "x",
			Attrs:         otelstorage.Attrs(attrs),
			ScopeAttrs:    otelstorage.Attrs(pcommon.NewMap()),
			ResourceAttrs: otelstorage.Attrs(pcommon.NewMap()),
		})
	}
	return iterators.Slice(out), nil
}

func bugRateInstant(t *testing.T, q *bugRateQuerier, query string, at time.Time) map[string]float64 {
	t.Helper()
	eng := NewEngine(q, Options{})
	data, err := eng.Eval(context.Background(), query, EvalParams{
		Start: otelstorage.NewTimestampFromTime(at),
		End:   otelstorage.NewTimestampFromTime(at),
	})
	if err != nil {
		t.Fatalf("eval %q: %v", query, err)
	}
	vec, ok := data.GetVectorResult()
	if !ok {
		t.Fatalf("eval %q: result is %q, not a vector", query, data.Type)
	}
	res := map[string]float64{}
	for _, s := range vec.Result {
		v, err := strconv.ParseFloat(s.Value.V, 64)
		if err != nil {
			t.Fatal(err)
		}
		// the test series differ by the "app" label only
		res[s.Metric.Value["app"]] = v
	}
	return res
}

// rate(... | unwrap v [r]) is "sum of the unwrapped values in the window / r" (the engine itself builds
// Rate[SumOverTime] for it, and logqlmetric's own tests expect "sum per log range interval"),
// but the engine's sample extractor ignores the unwrap expression for `rate` and feeds 1 per line.
func TestBugRateUnwrapCountsLinesInsteadOfValues(t *testing.T) {
	base := time.Unix(1700000000, 0)
	q := &bugRateQuerier{recs: []bugRateRec{
		// series app=a: three samples, every unwrapped value is 10
		{base.Add(1 * time.Second), map[string]string{"app": "a", "v": "10"}},
		{base.Add(2 * time.Second), map[string]string{"app": "a", "v": "10"}},
		{base.Add(3 * time.Second), map[string]string{"app": "a", "v": "10"}},
		// series app=b: a line WITHOUT the unwrapped label: no sample at all
		{base.Add(2 * time.Second), map[string]string{"app": "b"}},
	}}
	T := base.Add(5 * time.Second)

	sum := bugRateInstant(t, q, `sum_over_time({app=~".+"} | unwrap v [10s])`, T)
	rate := bugRateInstant(t, q, `rate({app=~".+"} | unwrap v [10s])`, T)
	t.Logf("sum_over_time = %v, rate = %v", sum, rate)

	if want := map[string]float64{"a": 30}; len(sum) != 1 || sum["a"] != want["a"] {
		t.Fatalf("control failed: sum_over_time over the same window: want %v, got %v", want, sum)
	}

	// Window [T-10s, T] holds samples 10,10,10 of series a => rate = 30/10s = 3.
	if got, ok := rate["a"]; !ok || got != 3 {
		t.Errorf("input: 3 lines with v=10 at T-4s,T-3s,T-2s; query rate({..} | unwrap v [10s]) at T.\n"+
			"property: rate reports f applied to exactly the samples (unwrapped values 10,10,10) in [T-10s,T] => 30/10 = 3\n"+
			"program: reported %v (present=%v): it counted lines (3/10) instead of summing the unwrapped values", got, ok)
	}
	// Series b has no sample (its line has no label v) => must report nothing.
	if got, ok := rate["b"]; ok {
		t.Errorf("input: series app=b has one line without label v; query rate({..} | unwrap v [10s]) at T.\n"+
			"property: a series with no sample in the window reports nothing at T\n"+
			"program: reported %v for app=b (sum_over_time over the same window correctly reports nothing: %v)", got, sum)
	}
}
