package logqlengine

import (
	"testing"

	"go.opentelemetry.io/collector/pdata/pcommon"

	"github.com/tdakkota/docker-logql/internal/logql"
)

// bugDropKeepRun parses the query, builds the real pipeline and runs it on one record.
func bugDropKeepRun(t *testing.T, query string, in map[string]string) (line string, keep bool, out map[string]string) {
	t.Helper()
	expr, err := logql.Parse(query, logql.ParseOptions{})
	if err != nil {
		t.Fatalf("parse %q: %v", query, err)
	}
	le, ok := expr.(*logql.LogExpr)
	if !ok {
		t.Fatalf("query %q: unexpected expression type %T", query, expr)
	}
	p, err := BuildPipeline(le.Pipeline...)
	if err != nil {
		t.Fatalf("build pipeline %q: %v", query, err)
	}
	set := newLabelSet()
	for k, v := range in {
		set.Set(logql.Label(k), pcommon.NewValueStr(v))
	}
	line, keep = p.Process(pcommon.Timestamp(1700000001_000000000), "the line", set)
	return line, keep, set.AsMap()
}

func TestBugDropNamedLabelSurvivesBecauseOfMatcherOnSameLabel(t *testing.T) {
	query := `{job="x"} | drop foo, foo="x"`
	in := map[string]string{"foo": "y", "bar": "2"}
	_, keep, out := bugDropKeepRun(t, query, in)
	if !keep {
		t.Fatalf("query %s: drop stage dropped the line", query)
	}
	if v, ok := out["foo"]; ok {
		t.Errorf("query %s on labels %v: the property requires `drop` to remove exactly the named labels "+
			"(or those whose value matches); label foo is NAMED in the drop list, so it must be removed, "+
			"but the program left foo=%q (result labels %v)", query, in, v, out)
	}
	if _, ok := out["bar"]; !ok {
		t.Errorf("query %s on labels %v: bar must survive, got %v", query, in, out)
	}
}

func TestBugDropTwoMatchersOnSameLabelAreAnded(t *testing.T) {
	query := `{job="x"} | drop foo="a", foo="b"`
	in := map[string]string{"foo": "a", "bar": "2"}
	_, _, out := bugDropKeepRun(t, query, in)
	if v, ok := out["foo"]; ok {
		t.Errorf("query %s on labels %v: the property requires `drop` to remove the labels whose value matches; "+
			"foo=\"a\" matches the first drop matcher foo=\"a\", so it must be removed, "+
			"but the program left foo=%q (result labels %v): the two matchers on foo are AND-ed, "+
			"so this stage can never drop anything", query, in, v, out)
	}
}

func TestBugKeepNamedLabelRemovedBecauseOfMatcherOnSameLabel(t *testing.T) {
	query := `{job="x"} | keep foo, foo="x"`
	in := map[string]string{"foo": "y", "bar": "2"}
	_, keep, out := bugDropKeepRun(t, query, in)
	if !keep {
		t.Fatalf("query %s: keep stage dropped the line", query)
	}
	if _, ok := out["foo"]; !ok {
		t.Errorf("query %s on labels %v: the property requires `keep` to remove all labels OTHER than the named ones "+
			"(or those whose value matches); foo is NAMED in the keep list, so it must be kept, "+
			"but the program removed it (result labels %v)", query, in, out)
	}
	if _, ok := out["bar"]; ok {
		t.Errorf("query %s on labels %v: bar must be removed, got %v", query, in, out)
	}
}

func TestBugKeepTwoMatchersOnSameLabelAreAnded(t *testing.T) {
	query := `{job="x"} | keep foo="a", foo="b"`
	in := map[string]string{"foo": "a", "bar": "2"}
	_, _, out := bugDropKeepRun(t, query, in)
	if _, ok := out["foo"]; !ok {
		t.Errorf("query %s on labels %v: the property requires `keep` to keep labels whose value matches; "+
			"foo=\"a\" matches the first keep matcher foo=\"a\", so it must be kept, "+
			"but the program removed it (result labels %v)", query, in, out)
	}
}
