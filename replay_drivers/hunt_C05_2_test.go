package logql

import (
	"reflect"
	"testing"
)

// stripParens removes every ParenExpr node from a metric expression tree so that
// two spellings that differ only in redundant parentheses can be compared.
func stripParens(e Expr) Expr {
	e = UnparenExpr(e)
	if b, ok := e.(*BinOpExpr); ok {
		return &BinOpExpr{Left: stripParens(b.Left), Op: b.Op, Modifier: b.Modifier, Right: stripParens(b.Right)}
	}
	return e
}

// `+`, `*`, comparison ... bind tighter than `and` / `or` / `unless` (see BinOp.Precedence).
// Therefore in `vector(1) and 1 + vector(2)` the right operand of `and` is the
// VECTOR expression `1 + vector(2)`, not the scalar `1`, and the query is valid;
// it denotes exactly `vector(1) and (1 + vector(2))`, which the parser accepts.
func TestBugSetOperationRightOperandStartingWithNumber(t *testing.T) {
	for _, tt := range []struct {
		input     string
		redundant string
	}{
		{`vector(1) and 1 + vector(2)`, `vector(1) and (1 + vector(2))`},
		// The classic "fill the gaps with zero" idiom.
		{`sum(rate({a="b"}[1m])) or 0 * sum(rate({c="d"}[1m]))`, `sum(rate({a="b"}[1m])) or (0 * sum(rate({c="d"}[1m])))`},
		{`vector(1) unless 2 ^ 3 * vector(2)`, `vector(1) unless ((2 ^ 3) * vector(2))`},
	} {
		want, err := Parse(tt.redundant, ParseOptions{})
		if err != nil {
			t.Fatalf("control query %q must parse, got error: %v", tt.redundant, err)
		}

		got, err := Parse(tt.input, ParseOptions{})
		if err != nil {
			t.Errorf("input %q: the right operand of the set operation is the vector expression after it "+
				"(arithmetic binds tighter), so the query is valid and must parse into the same structure as %q "+
				"(which IS accepted); the parser rejected it: %v", tt.input, tt.redundant, err)
			continue
		}
		if g, w := stripParens(got), stripParens(want); !reflect.DeepEqual(g, w) {
			t.Errorf("input %q: parsed into %#v, want the structure of %q: %#v", tt.input, g, tt.redundant, w)
		}
	}
}

// The converse: the static rule "a set operation cannot have a scalar operand" is
// enforced for `vector(1) or 1` (pinned by the repository's own TestParse) but a
// redundant pair of parentheses around the scalar switches the rule off.
func TestBugSetOperationScalarHiddenByParentheses(t *testing.T) {
	if _, err := Parse(`vector(1) or 1`, ParseOptions{}); err == nil {
		t.Fatalf("control: `vector(1) or 1` is expected to be rejected")
	}
	for _, input := range []string{
		`vector(1) or (1)`,
		`(1) and vector(1)`,
		`vector(1) unless ((2))`,
	} {
		got, err := Parse(input, ParseOptions{})
		if err == nil {
			t.Errorf("input %q: text that violates a static rule (scalar operand of a set operation) must be "+
				"rejected, independent of redundant parentheses; the parser accepted it as %#v", input, got)
		}
	}
}
