package logqlengine

import (
	"context"
	"sort"
	"testing"

	"go.opentelemetry.io/collector/pdata/pcommon"

	"github.com/tdakkota/docker-logql/internal/iterators"
	"github.com/tdakkota/docker-logql/internal/logstorage"
	"github.com/tdakkota/docker-logql/internal/otelstorage"
)

type verifStreamQuerier struct{ records []logstorage.Record }

func (q *verifStreamQuerier) Capabilities() (c QuerierCapabilities) { return c }
func (q *verifStreamQuerier) SelectLogs(_ context.Context, _, _ otelstorage.Timestamp, _ SelectLogsParams) (iterators.Iterator[logstorage.Record], error) {
	return iterators.Slice(q.records), nil
}

// A log result is partitioned into streams by label set, entries sorted by time, limit honoured.
func TestVerifReplayStreams(t *testing.T) {
	var rs []logstorage.Record
	for i := 0; i < 9; i++ {
		attrs := pcommon.NewMap()
		attrs.PutStr("app", []string{"a", "b", "c"}[i%3])
		rs = append(rs, logstorage.Record{Timestamp: otelstorage.Timestamp(1700000000000000000 + int64(i)), Body: "line", Attrs: otelstorage.Attrs(attrs)})
	}
	for _, limit := range []int{-1, 0, 4, 100} {
		e := NewEngine(&verifStreamQuerier{records: rs}, Options{})
		data, err := e.Eval(context.Background(), `{x="y"}`, EvalParams{Start: 1700000000000000000, End: 1700000000000000100, Step: 1, Limit: limit})
		if err != nil {
			t.Fatal(err)
		}
		streams := data.StreamsResult.Result
		want := len(rs)
		if limit > 0 && limit < want {
			want = limit
		}
		total := 0
		seen := map[string]bool{}
		for _, s := range streams {
			key := ""
			var ks []string
			for k, v := range s.Stream.Value {
				ks = append(ks, k+"="+v)
			}
			sort.Strings(ks)
			for _, k := range ks {
				key += k + ","
			}
			if seen[key] {
				t.Fatalf("REPRODUCED: two streams share the label set %s", key)
			}
			seen[key] = true
			for i := 1; i < len(s.Values); i++ {
				if s.Values[i-1].T > s.Values[i].T {
					t.Fatalf("REPRODUCED: stream %s is not in timestamp order", key)
				}
			}
			total += len(s.Values)
		}
		if total != want {
			t.Fatalf("REPRODUCED: limit %d over %d matching records returns %d entries, want %d", limit, len(rs), total, want)
		}
	}
}
