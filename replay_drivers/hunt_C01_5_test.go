package logqlengine

import (
	"context"
	"fmt"
	"sort"
	"testing"

	"go.opentelemetry.io/collector/pdata/pcommon"

	"github.com/tdakkota/docker-logql/internal/iterators"
	"github.com/tdakkota/docker-logql/internal/logstorage"
	"github.com/tdakkota/docker-logql/internal/otelstorage"
)

// bugLogfmtQuerier returns the given lines as records of the stream {job="a"}.
type bugLogfmtQuerier struct {
	lines []string
}

func (q *bugLogfmtQuerier) Capabilities() (caps QuerierCapabilities) { return caps }

func (q *bugLogfmtQuerier) SelectLogs(context.Context, otelstorage.Timestamp, otelstorage.Timestamp, SelectLogsParams) (iterators.Iterator[logstorage.Record], error) {
	var records []logstorage.Record
	for i, line := range q.lines {
		res := pcommon.NewMap()
		res.PutStr("job", "a")
		records = append(records, logstorage.Record{
			Timestamp:     otelstorage.Timestamp(1700000000_000000000 + uint64(i)),
			Body:          line,
			Attrs:         otelstorage.Attrs(pcommon.NewMap()),
			ResourceAttrs: otelstorage.Attrs(res),
		})
	}
	return iterators.Slice(records), nil
}

func bugLogfmtEval(t *testing.T, query string, lines ...string) []string {
	t.Helper()
	// Options{} is what cmd/docker-logql uses.
	eng := NewEngine(&bugLogfmtQuerier{lines: lines}, Options{})
	data, err := eng.Eval(context.Background(), query, EvalParams{
		Start: otelstorage.Timestamp(1700000000_000000000 - 1),
		End:   otelstorage.Timestamp(1700000100_000000000),
		Limit: -1,
	})
	if err != nil {
		t.Fatalf("query %s: unexpected error: %v", query, err)
	}
	got := []string{}
	for _, s := range data.StreamsResult.Result {
		for _, e := range s.Values {
			got = append(got, e.V)
		}
	}
	sort.Strings(got)
	return got
}

func TestBugLogfmtKeysAreNotSanitized(t *testing.T) {
	for _, tt := range []struct {
		query string
		lines []string
		want  []string
	}{
		{
			// The sanitized name is the only one a query can use: `request-id` is not an identifier.
			`{job="a"} | logfmt | request_id="abc"`,
			[]string{`level=info request-id=abc`, `level=info request-id=zzz`},
			[]string{`level=info request-id=abc`},
		},
		{
			// Line of the registry container from internal/dockerlog/_testdata.
			`{job="a"} | logfmt | go_version="go1.20.8"`,
			[]string{`level=info msg="redis not configured" go.version=go1.20.8 service=registry`},
			[]string{`level=info msg="redis not configured" go.version=go1.20.8 service=registry`},
		},
		{
			`{job="a"} | logfmt | http_status >= 500`,
			[]string{`http.status=503`, `http.status=200`},
			[]string{`http.status=503`},
		},
	} {
		got := bugLogfmtEval(t, tt.query, tt.lines...)
		if fmt.Sprint(got) != fmt.Sprint(tt.want) {
			t.Errorf("records %q, query %s\n"+
				"property: the result contains every record that satisfies the query under LogQL semantics "+
				"(logfmt keys become label names with invalid characters replaced by '_', as this engine's own `| json` does)\n"+
				"want lines %q\n got lines %q",
				tt.lines, tt.query, tt.want, got)
		}
	}

	// Control: the very same data as JSON is found, so the two parsers disagree.
	got := bugLogfmtEval(t, `{job="a"} | json | request_id="abc"`, `{"level":"info","request-id":"abc"}`)
	if len(got) != 1 {
		t.Fatalf("control failed: json parser does not sanitize keys either: %q", got)
	}
}
