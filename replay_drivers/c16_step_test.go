package main

import (
	"testing"
	"time"

	"github.com/tdakkota/docker-logql/internal/lokiapi"
)

// An explicit step is strictly positive or rejected.
func TestVerifReplayStepPositive(t *testing.T) {
	start := time.Unix(1000, 0)
	end := time.Unix(2000, 0)
	for _, v := range []string{"0", "-5", "NaN", "0s", "-0.5", "0.0000000001"} {
		d, err := parseStep(lokiapi.NewOptPrometheusDuration(lokiapi.PrometheusDuration(v)), start, end)
		if err == nil && d <= 0 {
			t.Fatalf("REPRODUCED: --step %q is accepted and yields the non-positive step %v", v, d)
		}
	}
	if d, err := parseStep(lokiapi.OptPrometheusDuration{}, start, end); err != nil || d < time.Second {
		t.Fatalf("REPRODUCED: default step %v err %v", d, err)
	}
}
