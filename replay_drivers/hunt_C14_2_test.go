package dockerlog

import (
	"bytes"
	"context"
	"encoding/binary"
	"io"
	"testing"
	"time"

	"github.com/docker/docker/api/types"
	apicontainer "github.com/docker/docker/api/types/container"
	"github.com/docker/docker/client"
	"go.opentelemetry.io/collector/pdata/pcommon"

	"github.com/tdakkota/docker-logql/internal/logql/logqlengine"
)

type bug2Client struct {
	client.APIClient
	names   []string
	streams map[string][]byte
}

func (c *bug2Client) ContainerList(context.Context, apicontainer.ListOptions) (r []types.Container, _ error) {
	for _, name := range c.names {
		r = append(r, types.Container{ID: name, Names: []string{"/" + name}})
	}
	return r, nil
}

func (c *bug2Client) ContainerLogs(_ context.Context, id string, _ apicontainer.LogsOptions) (io.ReadCloser, error) {
	return io.NopCloser(bytes.NewReader(c.streams[id])), nil
}

var bug2Base = time.Date(2024, 1, 1, 0, 0, 0, 0, time.UTC)

// bug2Frame builds one frame of Docker's multiplexed log stream with the given stream-type byte.
func bug2Frame(streamType byte, sec int, msg string) []byte {
	payload := bug2Base.Add(time.Duration(sec)*time.Second).Format(time.RFC3339Nano) + " " + msg + "\n"
	var h [8]byte
	h[0] = streamType
	binary.BigEndian.PutUint32(h[4:], uint32(len(payload)))
	return append(h[:], payload...)
}

func bug2Eval(c client.APIClient, query string) (string, error) {
	q, _ := NewQuerier(c)
	eng := logqlengine.NewEngine(q, logqlengine.Options{})
	data, err := eng.Eval(context.Background(), query, logqlengine.EvalParams{
		Start: pcommon.NewTimestampFromTime(bug2Base.Add(-time.Minute)),
		End:   pcommon.NewTimestampFromTime(bug2Base.Add(5 * time.Minute)),
		Step:  time.Minute,
		Limit: -1,
	})
	b, _ := data.MarshalJSON()
	return string(b), err
}

// The first byte of a frame header names the stream: 0 stdin, 1 stdout, 2 stderr, 3 systemerr.
// Docker's own demultiplexer (pkg/stdcopy) rejects everything else ("Unrecognized input header").
// The repository's parser accepts a frame with any stream-type byte as an ordinary log line.
func TestBugFrameWithUnknownStreamTypeIsAccepted(t *testing.T) {
	healthy := append(bug2Frame(1, 0, "a0"), bug2Frame(2, 2, "a1")...)
	for _, corrupt := range []byte{4, 0x47, 0xff} {
		for _, query := range []string{`{}`, `count_over_time({}[10m])`, `rate({}[1m]) / rate({}[2m])`} {
			for _, names := range [][]string{{"victim"}, {"ok1", "victim"}} {
				for pos := 0; pos < 3; pos++ {
					frames := [][]byte{bug2Frame(1, 1, "v0"), bug2Frame(1, 3, "v1"), bug2Frame(1, 5, "v2")}
					frames[pos][0] = corrupt
					c := &bug2Client{names: names, streams: map[string][]byte{
						"ok1":    healthy,
						"victim": bytes.Join(frames, nil),
					}}
					out, err := bug2Eval(c, query)
					if err == nil {
						t.Errorf("query %s over containers %v: frame #%d of the victim's stream has the stream-type byte %#x (valid: 0..3).\n"+
							"The property requires: a malformed frame at any position of any stream makes the query return an error.\n"+
							"The program returned err == nil and used the corrupt frame as a log line: %.200s",
							query, names, pos, corrupt, out)
					}
				}
			}
		}
	}

	// Control: type 3 (systemerr) is recognised and reported.
	c := &bug2Client{names: []string{"victim"}, streams: map[string][]byte{"victim": bug2Frame(3, 1, "x")}}
	if _, err := bug2Eval(c, `{}`); err == nil {
		t.Errorf("control failed: a systemerr frame was not reported")
	}
}
