package logql

import (
	"fmt"
	"strings"
	"testing"
)

// ---- label filter predicates: reference evaluation of the LogQL grammar.
//
// Loki's grammar declares `%left OR` below `%left AND`, so explicit `and` binds tighter than `or`;
// a comma or a juxtaposed predicate joins the predicate on its left with everything that follows.

type verifPredTok struct {
	kind string // "leaf", "and", "or", ",", " "
	leaf int
}

// reference: operand := leaf [ (","|" ") expr ] ; andGroup := operand {"and" operand} ; expr := andGroup {"or" andGroup}
func verifRefExpr(toks []verifPredTok, i int, env []bool) (bool, int) {
	v, i := verifRefAnd(toks, i, env)
	for i < len(toks) && toks[i].kind == "or" {
		var r bool
		r, i = verifRefAnd(toks, i+1, env)
		v = v || r
	}
	return v, i
}

func verifRefAnd(toks []verifPredTok, i int, env []bool) (bool, int) {
	v, i := verifRefOperand(toks, i, env)
	for i < len(toks) && toks[i].kind == "and" {
		var r bool
		r, i = verifRefOperand(toks, i+1, env)
		v = v && r
	}
	return v, i
}

func verifRefOperand(toks []verifPredTok, i int, env []bool) (bool, int) {
	v := env[toks[i].leaf]
	i++
	if i < len(toks) && (toks[i].kind == "," || toks[i].kind == " ") {
		r, j := verifRefExpr(toks, i+1, env)
		return v && r, j
	}
	return v, i
}

func verifEvalPred(t *testing.T, p LabelPredicate, env map[string]bool) bool {
	switch x := p.(type) {
	case *LabelPredicateParen:
		return verifEvalPred(t, x.X, env)
	case *LabelMatcher:
		return env[string(x.Label)]
	case *LabelPredicateBinOp:
		l, r := verifEvalPred(t, x.Left, env), verifEvalPred(t, x.Right, env)
		switch x.Op {
		case OpAnd:
			return l && r
		case OpOr:
			return l || r
		}
		t.Fatalf("unexpected connective %v", x.Op)
	}
	t.Fatalf("unexpected predicate %T", p)
	return false
}

// TestVerifReplayPredicatePrecedence enumerates every chain of up to four predicates joined by
// and / or / comma / juxtaposition and compares the truth table of the parsed tree with the grammar.
func TestVerifReplayPredicatePrecedence(t *testing.T) {
	conns := []string{"and", "or", ",", " "}
	names := []string{"a", "b", "c", "d"}
	bad := 0
	for n := 2; n <= 4; n++ {
		total := 1
		for i := 0; i < n-1; i++ {
			total *= len(conns)
		}
		for code := 0; code < total; code++ {
			var toks []verifPredTok
			var sb strings.Builder
			c := code
			for i := 0; i < n; i++ {
				if i > 0 {
					k := conns[c%len(conns)]
					c /= len(conns)
					toks = append(toks, verifPredTok{kind: k})
					sb.WriteString(" " + k + " ")
				}
				toks = append(toks, verifPredTok{kind: "leaf", leaf: i})
				fmt.Fprintf(&sb, `%s="1"`, names[i])
			}
			q := `{x="y"} | ` + sb.String()
			e, err := Parse(q, ParseOptions{})
			if err != nil {
				t.Errorf("REPRODUCED: valid query rejected: %s: %v", q, err)
				bad++
				continue
			}
			le, ok := e.(*LogExpr)
			if !ok || len(le.Pipeline) != 1 {
				t.Errorf("REPRODUCED: %s: expected one label filter stage, got %#v", q, e)
				bad++
				continue
			}
			lf, ok := le.Pipeline[0].(*LabelFilter)
			if !ok {
				t.Errorf("REPRODUCED: %s: stage is %T", q, le.Pipeline[0])
				bad++
				continue
			}
			for m := 0; m < 1<<n; m++ {
				env := make([]bool, n)
				menv := map[string]bool{}
				for i := 0; i < n; i++ {
					env[i] = m&(1<<i) != 0
					menv[names[i]] = env[i]
				}
				want, _ := verifRefExpr(toks, 0, env)
				got := verifEvalPred(t, lf.Pred, menv)
				if got != want {
					t.Errorf("REPRODUCED: %s with %v: parsed tree evaluates to %v, the query denotes %v", q, menv, got, want)
					bad++
					break
				}
			}
			if bad > 5 {
				return
			}
		}
	}
}

// TestVerifReplayTables parses one query per keyword / operator spelling and checks the operation
// recorded in the tree against the LogQL meaning of the spelling.
func TestVerifReplayTables(t *testing.T) {
	rangeOps := map[string]RangeOp{
		"count_over_time": RangeOpCount, "rate": RangeOpRate, "rate_counter": RangeOpRateCounter, "bytes_over_time": RangeOpBytes,
		"bytes_rate": RangeOpBytesRate, "avg_over_time": RangeOpAvg, "sum_over_time": RangeOpSum, "min_over_time": RangeOpMin,
		"max_over_time": RangeOpMax, "stdvar_over_time": RangeOpStdvar, "stddev_over_time": RangeOpStddev,
		"quantile_over_time": RangeOpQuantile, "first_over_time": RangeOpFirst, "last_over_time": RangeOpLast, "absent_over_time": RangeOpAbsent,
	}
	needsUnwrap := map[RangeOp]bool{RangeOpRateCounter: true, RangeOpAvg: true, RangeOpSum: true, RangeOpMin: true, RangeOpMax: true,
		RangeOpStdvar: true, RangeOpStddev: true, RangeOpQuantile: true, RangeOpFirst: true, RangeOpLast: true}
	for name, op := range rangeOps {
		sel := `{a="b"}[1m]`
		if needsUnwrap[op] {
			sel = `{a="b"} | unwrap x [1m]`
		}
		param := ""
		if op == RangeOpQuantile {
			param = "0.5, "
		}
		q := name + "(" + param + sel + ")"
		e, err := Parse(q, ParseOptions{})
		if err != nil {
			t.Errorf("REPRODUCED: valid query rejected: %s: %v", q, err)
			continue
		}
		r, ok := e.(*RangeAggregationExpr)
		if !ok || r.Op != op {
			t.Errorf("REPRODUCED: %s: parsed as %#v, want range operation %d", q, e, op)
		}
	}
	vectorOps := map[string]VectorOp{"sum": VectorOpSum, "avg": VectorOpAvg, "count": VectorOpCount, "max": VectorOpMax, "min": VectorOpMin,
		"stddev": VectorOpStddev, "stdvar": VectorOpStdvar, "bottomk": VectorOpBottomk, "topk": VectorOpTopk, "sort": VectorOpSort, "sort_desc": VectorOpSortDesc}
	for name, op := range vectorOps {
		param := ""
		if op == VectorOpTopk || op == VectorOpBottomk {
			param = "3, "
		}
		q := name + "(" + param + `rate({a="b"}[1m]))`
		e, err := Parse(q, ParseOptions{})
		if err != nil {
			t.Errorf("REPRODUCED: valid query rejected: %s: %v", q, err)
			continue
		}
		v, ok := e.(*VectorAggregationExpr)
		if !ok || v.Op != op {
			t.Errorf("REPRODUCED: %s: parsed as %#v, want vector operation %d", q, e, op)
		}
	}
	lineOps := map[string]BinOp{"|=": OpEq, "|~": OpRe, "!=": OpNotEq, "!~": OpNotRe}
	for sp, op := range lineOps {
		q := `{a="b"} ` + sp + ` "x"`
		e, err := Parse(q, ParseOptions{})
		if err != nil {
			t.Errorf("REPRODUCED: valid query rejected: %s: %v", q, err)
			continue
		}
		le, _ := e.(*LogExpr)
		if le == nil || len(le.Pipeline) != 1 {
			t.Errorf("REPRODUCED: %s: parsed as %#v", q, e)
			continue
		}
		if f, ok := le.Pipeline[0].(*LineFilter); !ok || f.Op != op || f.Value != "x" {
			t.Errorf("REPRODUCED: %s: stage %#v, want line filter operation %d", q, le.Pipeline[0], op)
		}
	}
	cmpOps := map[string]BinOp{"==": OpEq, "!=": OpNotEq, ">": OpGt, ">=": OpGte, "<": OpLt, "<=": OpLte}
	for sp, op := range cmpOps {
		for _, lit := range []string{"5", "5s", "5KB"} {
			q := `{a="b"} | x ` + sp + " " + lit
			e, err := Parse(q, ParseOptions{})
			if err != nil {
				t.Errorf("REPRODUCED: valid query rejected: %s: %v", q, err)
				continue
			}
			le, _ := e.(*LogExpr)
			if le == nil || len(le.Pipeline) != 1 {
				t.Errorf("REPRODUCED: %s: parsed as %#v", q, e)
				continue
			}
			lf, _ := le.Pipeline[0].(*LabelFilter)
			if lf == nil {
				t.Errorf("REPRODUCED: %s: stage %#v", q, le.Pipeline[0])
				continue
			}
			var got BinOp
			switch p := lf.Pred.(type) {
			case *NumberFilter:
				got = p.Op
				if lit != "5" {
					got = -1
				}
			case *DurationFilter:
				got = p.Op
				if lit != "5s" {
					got = -1
				}
			case *BytesFilter:
				got = p.Op
				if lit != "5KB" {
					got = -1
				}
			}
			if got != op {
				t.Errorf("REPRODUCED: %s: predicate %#v, want comparison %d on a %s literal", q, lf.Pred, op, lit)
			}
		}
		// metric comparison
		q := `vector(1) ` + sp + ` vector(2)`
		e, err := Parse(q, ParseOptions{})
		if err != nil {
			t.Errorf("REPRODUCED: valid query rejected: %s: %v", q, err)
			continue
		}
		if b, ok := e.(*BinOpExpr); !ok || b.Op != op {
			t.Errorf("REPRODUCED: %s: parsed as %#v, want binary operation %d", q, e, op)
		}
	}
	for _, sp := range []struct {
		s  string
		op BinOp
	}{{"=", OpEq}, {"!=", OpNotEq}, {"=~", OpRe}, {"!~", OpNotRe}} {
		q := `{a` + sp.s + `"b", c="d"}`
		e, err := Parse(q, ParseOptions{})
		if err != nil {
			t.Errorf("REPRODUCED: valid query rejected: %s: %v", q, err)
			continue
		}
		le, _ := e.(*LogExpr)
		if le == nil || len(le.Sel.Matchers) != 2 || le.Sel.Matchers[0].Op != sp.op || le.Sel.Matchers[0].Label != "a" || le.Sel.Matchers[0].Value != "b" || le.Sel.Matchers[1].Label != "c" {
			t.Errorf("REPRODUCED: %s: parsed as %#v", q, e)
		}
	}
	// static rules
	for _, q := range []string{
		`quantile_over_time({a="b"} | unwrap x [1m])`,
		`rate(0.5, {a="b"}[1m])`,
		`sort(rate({a="b"}[1m])) by (x)`,
		`sort_desc by (x) (rate({a="b"}[1m]))`,
		`topk(rate({a="b"}[1m]))`,
		`topk(0, rate({a="b"}[1m]))`,
		`sum(2, rate({a="b"}[1m]))`,
		`{a="b"} | unwrap x`,
		`count_over_time({a="b"} | unwrap x [1m])`,
		`avg_over_time({a="b"}[1m])`,
		`rate({a="b"}[1m]) by (x)`,
		`{a="b"} | label_format x=y, x="z"`,
		`{a="b"} |~ "("`,
		`{a=~"("}`,
		`{a="b"} | x > "s"`,
		`{a="b"} | x =~ 5`,
		`{a="b"} |~ ip("1.1.1.1")`,
	} {
		if e, err := Parse(q, ParseOptions{}); err == nil {
			t.Errorf("REPRODUCED: query violating a static rule accepted: %s parsed as %#v", q, e)
		}
	}
}
