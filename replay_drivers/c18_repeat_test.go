package dockerlog

import (
	"bytes"
	"context"
	"encoding/binary"
	"fmt"
	"io"
	"sort"
	"strings"
	"testing"
	"time"

	"github.com/docker/docker/api/types"
	apicontainer "github.com/docker/docker/api/types/container"
	"github.com/docker/docker/client"
	"go.opentelemetry.io/collector/pdata/pcommon"

	"github.com/tdakkota/docker-logql/internal/logql/logqlengine"
	"github.com/tdakkota/docker-logql/internal/lokiapi"
)

type verifRepeatClient struct {
	client.APIClient
	containers []types.Container
	logs       map[string][]string
}

func (c *verifRepeatClient) ContainerList(context.Context, apicontainer.ListOptions) ([]types.Container, error) {
	return c.containers, nil
}

func (c *verifRepeatClient) ContainerLogs(_ context.Context, id string, _ apicontainer.LogsOptions) (io.ReadCloser, error) {
	var buf bytes.Buffer
	for _, line := range c.logs[id] {
		var header [8]byte
		header[0] = 1 // stdout
		binary.BigEndian.PutUint32(header[4:], uint32(len(line)))
		buf.Write(header[:])
		buf.WriteString(line)
	}
	return io.NopCloser(&buf), nil
}

// verifRepeatDescribe gives a canonical (order-independent) text of a query result:
// the series are a set, so they are sorted by their labels.
func verifRepeatDescribe(t *testing.T, data lokiapi.QueryResponseData) string {
	t.Helper()
	var lines []string
	describeLabels := func(set lokiapi.LabelSet) string {
		keys := make([]string, 0, len(set))
		for k := range set {
			keys = append(keys, k)
		}
		sort.Strings(keys)
		var sb strings.Builder
		for _, k := range keys {
			fmt.Fprintf(&sb, "%s=%q,", k, set[k])
		}
		return sb.String()
	}
	switch data.Type {
	case lokiapi.VectorResultQueryResponseData:
		for _, s := range data.VectorResult.Result {
			lines = append(lines, fmt.Sprintf("{%s} %v@%v", describeLabels(s.Metric.Value), s.Value.V, s.Value.T))
		}
	case lokiapi.MatrixResultQueryResponseData:
		for _, s := range data.MatrixResult.Result {
			line := "{" + describeLabels(s.Metric.Value) + "}"
			for _, p := range s.Values {
				line += fmt.Sprintf(" %v@%v", p.V, p.T)
			}
			lines = append(lines, line)
		}
	default:
		t.Fatalf("unexpected result type %q", data.Type)
	}
	sort.Strings(lines)
	return strings.Join(lines, "\n")
}

// Same metric query over the same container logs, repeated: the series and
// their values must be the same every time. Between the repetitions only the
// runtime's map iteration order (the order the per-container series reach the
// aggregation in) and the goroutine scheduling change.
func TestVerifReplayRepeatedMetricQuery(t *testing.T) {
	cl := &verifRepeatClient{
		containers: []types.Container{
			{ID: "aaa", Names: []string{"/web"}},
			{ID: "bbb", Names: []string{"/db"}},
			{ID: "ccc", Names: []string{"/cache"}},
		},
		logs: map[string][]string{
			// The gauge of one container is not a number.
			"aaa": {"2024-01-01T00:00:01.000000001Z v=0.1\n"},
			"bbb": {"2024-01-01T00:00:02.000000001Z v=0.2\n"},
			"ccc": {"2024-01-01T00:00:03.000000001Z v=0.3\n"},
		},
	}
	at := time.Date(2024, 1, 1, 0, 0, 30, 0, time.UTC)

	for _, query := range []string{
		`sum(sum_over_time({} | logfmt | unwrap v [1m]))`,
		`avg(sum_over_time({} | logfmt | unwrap v [1m]))`,
	} {
		var first string
		for rep := 0; rep < 400; rep++ {
			q, err := NewQuerier(cl)
			if err != nil {
				t.Fatal(err)
			}
			eng := logqlengine.NewEngine(q, logqlengine.Options{})
			data, err := eng.Eval(context.Background(), query, logqlengine.EvalParams{
				Start: pcommon.NewTimestampFromTime(at),
				End:   pcommon.NewTimestampFromTime(at),
				Limit: -1,
			})
			if err != nil {
				t.Fatalf("eval %q: %v", query, err)
			}
			got := verifRepeatDescribe(t, data)
			if rep == 0 {
				first = got
				continue
			}
			if got != first {
				t.Fatalf("REPRODUCED: query %q: repetition %d gave a different answer over the same logs\nfirst:\n%s\nnow:\n%s",
					query, rep, first, got)
			}
		}
	}
}

