package logqlmetric

import (
	"testing"

	"github.com/tdakkota/docker-logql/internal/iterators"
	"github.com/tdakkota/docker-logql/internal/logql"
)

func verifAggregateOnce(t *testing.T, expr *logql.VectorAggregationExpr, samples []Sample) []Sample {
	t.Helper()
	it, err := VectorAggregation(iterators.Slice([]Step{{Timestamp: 1000, Samples: samples}}), expr)
	if err != nil {
		t.Fatal(err)
	}
	var r Step
	if !it.Next(&r) {
		t.Fatal("no step")
	}
	return r.Samples
}

// The series of a step arrive in hash-map order: the aggregate must not depend on it.
func TestVerifReplaySumOrder(t *testing.T) {
	a := Sample{Data: 0.1, Set: verifLabels{"c": "a"}}
	b := Sample{Data: 0.2, Set: verifLabels{"c": "b"}}
	c := Sample{Data: 0.3, Set: verifLabels{"c": "c"}}
	for _, op := range []logql.VectorOp{logql.VectorOpSum, logql.VectorOpAvg, logql.VectorOpStdvar, logql.VectorOpMax, logql.VectorOpMin} {
		x := verifAggregateOnce(t, &logql.VectorAggregationExpr{Op: op}, []Sample{a, b, c})
		y := verifAggregateOnce(t, &logql.VectorAggregationExpr{Op: op}, []Sample{b, c, a})
		if len(x) != 1 || len(y) != 1 || x[0].Data != y[0].Data {
			t.Fatalf("REPRODUCED: %s over the same three series (0.1, 0.2, 0.3) gives %v when they arrive as a,b,c and %v when they arrive as b,c,a", op, x[0].Data, y[0].Data)
		}
	}
}

// topk(1) over two series of equal value: the series kept must not depend on arrival order.
func TestVerifReplayHeapTies(t *testing.T) {
	a := Sample{Data: 1, Set: verifLabels{"c": "a"}}
	b := Sample{Data: 1, Set: verifLabels{"c": "b"}}
	one := 1
	for _, op := range []logql.VectorOp{logql.VectorOpTopk, logql.VectorOpBottomk} {
		expr := &logql.VectorAggregationExpr{Op: op, Parameter: &one}
		x := verifAggregateOnce(t, expr, []Sample{a, b})
		y := verifAggregateOnce(t, expr, []Sample{b, a})
		if len(x) != 1 || len(y) != 1 || x[0].Set.Key() != y[0].Set.Key() {
			t.Fatalf("REPRODUCED: %s(1) over two series of equal value keeps %v when they arrive as a,b and %v when they arrive as b,a", op, x[0].Set, y[0].Set)
		}
	}
}
