package dockerlog

import (
	"regexp"
	"testing"

	"github.com/tdakkota/docker-logql/internal/logql"
)

// Replays a refuted obligation of dockerlog.match / containerLabels.Match on the real code.
func TestVerifReplayMatch(t *testing.T) {
	m := verifLoadModel()
	op := logql.BinOp(m.Int("in.m.Op", int64(logql.OpNotEq)))
	s := m.Str("in.s", "")
	v := m.Str("in.m.Value", "")
	lm := logql.LabelMatcher{Label: "x", Op: op, Value: v}
	var want bool
	switch op {
	case logql.OpEq:
		want = s == v
	case logql.OpNotEq:
		want = s != v
	case logql.OpRe, logql.OpNotRe:
		re, err := regexp.Compile("^(?:" + regexp.QuoteMeta(v) + ")$")
		if err != nil {
			t.Skip("model regexp does not compile")
		}
		lm.Re = re
		want = re.MatchString(s) == (op == logql.OpRe)
	default:
		want = false
	}
	if got := match(lm, s); got != want {
		t.Fatalf("REPRODUCED: match(op=%s value=%q, %q) = %v, LogQL semantics say %v", op, v, s, got, want)
	}
}

// A selector matcher on a label the container does not have must behave as a matcher on "".
func TestVerifReplayLabelsMatch(t *testing.T) {
	c := containerLabels{labels: map[string]string{"container": "a"}}
	for _, tc := range []struct {
		op   logql.BinOp
		val  string
		want bool
	}{
		{logql.OpEq, "", true},
		{logql.OpEq, "y", false},
		{logql.OpNotEq, "y", true},
		{logql.OpNotEq, "", false},
	} {
		got := c.Match([]logql.LabelMatcher{{Label: "absent", Op: tc.op, Value: tc.val}})
		if got != tc.want {
			t.Fatalf("REPRODUCED: container without label `absent`, matcher {absent %s %q}: Match = %v, want %v (absent label behaves as \"\")", tc.op, tc.val, got, tc.want)
		}
	}
}
