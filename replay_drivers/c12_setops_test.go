package logqlengine

import (
	"context"
	"sort"
	"strings"
	"testing"
	"time"

	"github.com/tdakkota/docker-logql/internal/iterators"
	"github.com/tdakkota/docker-logql/internal/logstorage"
	"github.com/tdakkota/docker-logql/internal/otelstorage"
)

type setOpsQuerier struct{}

func (setOpsQuerier) Capabilities() (caps QuerierCapabilities) { return caps }

func (setOpsQuerier) SelectLogs(context.Context, otelstorage.Timestamp, otelstorage.Timestamp, SelectLogsParams) (iterators.Iterator[logstorage.Record], error) {
	return iterators.Slice[logstorage.Record](nil), nil
}

// setOpsEval evaluates an instant query and renders the vector as "value value ...".
func setOpsEval(t *testing.T, q string) string {
	eng := NewEngine(setOpsQuerier{}, Options{})
	ts := otelstorage.NewTimestampFromTime(time.Unix(1700000000, 0))
	data, err := eng.Eval(context.Background(), q, EvalParams{Start: ts, End: ts, Limit: -1})
	if err != nil {
		return "ERROR: " + err.Error()
	}
	v, ok := data.GetVectorResult()
	if !ok {
		return "ERROR: not a vector: " + string(data.Type)
	}
	var vals []string
	for _, s := range v.Result {
		vals = append(vals, s.Value.V)
	}
	sort.Strings(vals)
	return strings.Join(vals, " ")
}

// vector(c) is one series with the empty label set, so both sides of a set operation hold the
// same label set: `a and b` is a's sample, `a unless b` is empty, `a or b` is a's sample; with
// an operand that matches nothing the results are the ones of the empty side.
func TestVerifReplaySetOperations(t *testing.T) {
	for _, tc := range []struct{ q, want string }{
		{`vector(1) and vector(2)`, "1"},
		{`vector(1) unless vector(2)`, ""},
		{`vector(1) or vector(2)`, "1"},
		{`vector(1) unless count_over_time({}[1m])`, "1"},
		{`vector(1) and count_over_time({}[1m])`, ""},
		{`count_over_time({}[1m]) or vector(2)`, "2"},
		{`count_over_time({}[1m]) unless vector(2)`, ""},
	} {
		if got := setOpsEval(t, tc.q); got != tc.want {
			t.Errorf("%s: got %q, want %q", tc.q, got, tc.want)
		}
	}
}
