package logqlengine

import (
	"context"
	"sort"
	"strconv"
	"strings"
	"testing"
	"time"

	"go.opentelemetry.io/collector/pdata/pcommon"

	"github.com/tdakkota/docker-logql/internal/iterators"
	"github.com/tdakkota/docker-logql/internal/logstorage"
	"github.com/tdakkota/docker-logql/internal/otelstorage"
)

// bugParenQuerier serves ten records, one per second: container "db" logs at odd
// seconds, container "web" at even seconds.
type bugParenQuerier struct{}

func (bugParenQuerier) Capabilities() (caps QuerierCapabilities) { return caps }

func (bugParenQuerier) SelectLogs(_ context.Context, start, end otelstorage.Timestamp, _ SelectLogsParams) (iterators.Iterator[logstorage.Record], error) {
	var out []logstorage.Record
	for i := int64(0); i < 10; i++ {
		ts := otelstorage.NewTimestampFromTime(time.Unix(1700000000+i, 0))
		if ts < start || ts > end {
			continue
		}
		attrs := pcommon.NewMap()
		if i%2 == 0 {
			attrs.PutStr("container", "web")
		} else {
			attrs.PutStr("container", "db")
		}
		out = append(out, logstorage.Record{Timestamp: ts, Body: "line", Attrs: otelstorage.Attrs(attrs)})
	}
	return iterators.Slice(out), nil
}

func bugParenEval(q string) string {
	eng := NewEngine(bugParenQuerier{}, Options{})
	data, err := eng.Eval(context.Background(), q, EvalParams{
		Start: otelstorage.NewTimestampFromTime(time.Unix(1700000005, 0)),
		End:   otelstorage.NewTimestampFromTime(time.Unix(1700000009, 0)),
		Step:  2 * time.Second,
	})
	if err != nil {
		return "ERROR: " + err.Error()
	}
	m, ok := data.GetMatrixResult()
	if !ok {
		return "ERROR: not a matrix: " + string(data.Type)
	}
	var lines []string
	for _, s := range m.Result {
		var keys []string
		for k, v := range s.Metric.Value {
			keys = append(keys, k+"="+strconv.Quote(v))
		}
		sort.Strings(keys)
		line := "{" + strings.Join(keys, ",") + "}:"
		for _, p := range s.Values {
			line += " " + p.V
		}
		lines = append(lines, line)
	}
	sort.Strings(lines)
	if len(lines) == 0 {
		return "<no series>"
	}
	return strings.Join(lines, "; ")
}

// Property: "An arithmetic or comparison operator between a vector and a scalar literal yields
// one series per input series with the operator applied to its value and the scalar on the side
// it was written", "for all scalar values including 0, negatives and fractions".
//
// A scalar literal that the user wrapped in parentheses -- `(2)`, `(-1)`, `(0.5)` -- is still a
// scalar literal (the parser accepts it and produces ParenExpr{LiteralExpr}), but the metric
// builder does not look through the parentheses of an operand and refuses the whole query.
func TestBugParenthesisedScalarOperandIsRejected(t *testing.T) {
	// C = sum by (container) (count_over_time({}[4s])) is db=3, web=2 at each of the 3 steps.
	const c = `sum by (container) (count_over_time({}[4s]))`

	for _, tt := range []struct {
		query, control string
	}{
		{c + ` * (2)`, c + ` * 2`},
		{`(2) * ` + c, `2 * ` + c},
		{c + ` - (-1)`, c + ` - -1`},
		{c + ` / (0)`, c + ` / 0`},
		{`(0.5) < ` + c, `0.5 < ` + c},
		{`vector(4) % ((3))`, `vector(4) % 3`},
	} {
		want := bugParenEval(tt.control)
		if strings.HasPrefix(want, "ERROR") {
			t.Fatalf("control query %s failed: %s", tt.control, want)
		}
		got := bugParenEval(tt.query)
		if got != want {
			t.Errorf("query %s (range query, 3 steps)\n\tproperty requires one series per input series with the operator applied to the scalar, i.e. the result of %s:\n\t                   %s\n\tprogram returned:  %s",
				tt.query, tt.control, want, got)
		}
	}
}
