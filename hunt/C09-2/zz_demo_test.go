package dockerlog

import (
	"bytes"
	"context"
	"encoding/binary"
	"io"
	"strconv"
	"testing"
	"time"

	"github.com/docker/docker/api/types"
	apicontainer "github.com/docker/docker/api/types/container"
	timetypes "github.com/docker/docker/api/types/time"
	"github.com/docker/docker/client"

	"github.com/tdakkota/docker-logql/internal/logql/logqlengine"
	"github.com/tdakkota/docker-logql/internal/otelstorage"
)

type bugUntilLine struct {
	ts   time.Time
	text string
}

// bugUntilDaemon imitates what the Docker daemon does with LogsOptions.Since / LogsOptions.Until
// (moby daemon/logs.go + logger readers): both are parsed with timetypes.ParseTimestamps
// (so "<sec>.<nanos>" keeps nanosecond precision), a message is skipped if Timestamp.Before(since)
// and the stream ends at the first message with Timestamp.After(until).
type bugUntilDaemon struct {
	client.APIClient // nil: any other call panics
	lines            []bugUntilLine
	gotUntil         []string
}

func (d *bugUntilDaemon) ContainerList(context.Context, apicontainer.ListOptions) ([]types.Container, error) {
	return []types.Container{{ID: "id1", Names: []string{"/c1"}}}, nil
}

func (d *bugUntilDaemon) ContainerLogs(_ context.Context, _ string, o apicontainer.LogsOptions) (io.ReadCloser, error) {
	d.gotUntil = append(d.gotUntil, o.Until)
	var since, until time.Time
	if o.Since != "" && o.Since != "0" {
		s, n, err := timetypes.ParseTimestamps(o.Since, 0)
		if err != nil {
			return nil, err
		}
		since = time.Unix(s, n)
	}
	if o.Until != "" && o.Until != "0" {
		s, n, err := timetypes.ParseTimestamps(o.Until, 0)
		if err != nil {
			return nil, err
		}
		until = time.Unix(s, n)
	}
	var buf bytes.Buffer
	for _, l := range d.lines {
		if !since.IsZero() && l.ts.Before(since) {
			continue
		}
		if !until.IsZero() && l.ts.After(until) {
			break
		}
		payload := l.ts.UTC().Format(time.RFC3339Nano) + " " + l.text + "\n"
		var hdr [8]byte
		hdr[0] = 1 // stdout
		binary.BigEndian.PutUint32(hdr[4:], uint32(len(payload)))
		buf.Write(hdr[:])
		buf.WriteString(payload)
	}
	return io.NopCloser(&buf), nil
}

// bugUntilRangeAt runs a range query on the grid {at, at+1s} and returns the value stamped with `at`.
func bugUntilRangeAt(t *testing.T, d *bugUntilDaemon, at time.Time) (float64, bool) {
	t.Helper()
	q, err := NewQuerier(d)
	if err != nil {
		t.Fatal(err)
	}
	eng := logqlengine.NewEngine(q, logqlengine.Options{})
	data, err := eng.Eval(context.Background(), `count_over_time({container="c1"}[2s])`, logqlengine.EvalParams{
		Start: otelstorage.NewTimestampFromTime(at),
		End:   otelstorage.NewTimestampFromTime(at.Add(time.Second)),
		Step:  time.Second,
	})
	if err != nil {
		t.Fatalf("eval: %v", err)
	}
	mat, ok := data.GetMatrixResult()
	if !ok {
		t.Fatalf("result is %q, not a matrix", data.Type)
	}
	for _, s := range mat.Result {
		for _, p := range s.Values {
			if int64(p.T*1000+0.5) == at.UnixMilli() {
				v, err := strconv.ParseFloat(p.V, 64)
				if err != nil {
					t.Fatal(err)
				}
				return v, true
			}
		}
	}
	return 0, false
}

func bugUntilCount(t *testing.T, d *bugUntilDaemon, at time.Time) (float64, bool) {
	t.Helper()
	q, err := NewQuerier(d)
	if err != nil {
		t.Fatal(err)
	}
	eng := logqlengine.NewEngine(q, logqlengine.Options{})
	data, err := eng.Eval(context.Background(), `count_over_time({container="c1"}[2s])`, logqlengine.EvalParams{
		Start: otelstorage.NewTimestampFromTime(at),
		End:   otelstorage.NewTimestampFromTime(at),
	})
	if err != nil {
		t.Fatalf("eval: %v", err)
	}
	vec, ok := data.GetVectorResult()
	if !ok {
		t.Fatalf("result is %q, not a vector", data.Type)
	}
	if len(vec.Result) == 0 {
		return 0, false
	}
	if len(vec.Result) != 1 {
		t.Fatalf("expected one series, got %d", len(vec.Result))
	}
	v, err := strconv.ParseFloat(vec.Result[0].Value.V, 64)
	if err != nil {
		t.Fatal(err)
	}
	return v, true
}

// The Docker querier formats `until` as whole seconds (t.Unix()), i.e. rounds the end of the sampled
// interval DOWN, so samples in (floor(T-o), T-o] never reach the window whenever T-o is not a whole second.
func TestBugDockerUntilTruncatedToSecondsLosesWindowTail(t *testing.T) {
	base := time.Unix(1700000010, 0)
	lines := []bugUntilLine{
		{base.Add(-1 * time.Second), "hello"},       // T-1.5s
		{base.Add(200 * time.Millisecond), "hello"}, // T-0.3s
		{base.Add(500 * time.Millisecond), "hello"}, // T exactly (window edge)
		{base.Add(900 * time.Millisecond), "hello"}, // after T, must not be counted
	}

	// Control: whole-second T. Window [base-2s, base] holds only the first line.
	d0 := &bugUntilDaemon{lines: lines}
	if got, ok := bugUntilCount(t, d0, base); !ok || got != 1 {
		t.Fatalf("control failed: count_over_time [2s] at T=%v: want 1, got %v (present=%v)", base.UTC(), got, ok)
	}

	// T = base+0.5s. Window [T-2s, T] = [base-1.5s, base+0.5s] holds the first three lines.
	T := base.Add(500 * time.Millisecond)
	d := &bugUntilDaemon{lines: lines}
	got, ok := bugUntilCount(t, d, T)
	t.Logf("until sent to the daemon: %q for T=%d.%09d", d.gotUntil, T.Unix(), T.Nanosecond())
	if !ok || got != 3 {
		t.Errorf("input: container c1 logged \"hello\" at T-1.5s, T-0.3s, T, T+0.4s with T=%s; instant query count_over_time({container=\"c1\"}[2s]) at T.\n"+
			"property: reports f applied to exactly the samples whose timestamps lie in [T-o-r, T-o] => count = 3\n"+
			"program: reported %v (present=%v); it asked the daemon for until=%q (whole seconds, rounded down), "+
			"so the samples at T-0.3s and T were never fetched",
			T.UTC().Format(time.RFC3339Nano), got, ok, d.gotUntil)
	}

	// The same T inside a longer range query is fetched with a later `until`, so it sees all three samples:
	// the value at T depends on which other times were evaluated.
	if rv, rok := bugUntilRangeAt(t, &bugUntilDaemon{lines: lines}, T); rok != ok || rv != got {
		t.Errorf("property: the value at T does not depend on which other times were evaluated, and an instant query at T equals the range-query value at T\n"+
			"program: range query on grid {T, T+1s} reports %v at T (present=%v), instant query at T reports %v (present=%v)", rv, rok, got, ok)
	}
}
