package dockerlog

import (
	"bytes"
	"context"
	"encoding/binary"
	"io"
	"strconv"
	"testing"
	"time"

	"github.com/docker/docker/api/types"
	apicontainer "github.com/docker/docker/api/types/container"
	"github.com/docker/docker/client"
	"go.opentelemetry.io/collector/pdata/pcommon"

	"github.com/tdakkota/docker-logql/internal/logql/logqlengine"
)

// bugOrderClient is a Docker API client with one container and a canned log stream.
type bugOrderClient struct {
	client.APIClient
	stream []byte
}

func (c *bugOrderClient) ContainerList(context.Context, apicontainer.ListOptions) ([]types.Container, error) {
	return []types.Container{{ID: "c1", Names: []string{"/app"}}}, nil
}

func (c *bugOrderClient) ContainerLogs(context.Context, string, apicontainer.LogsOptions) (io.ReadCloser, error) {
	return io.NopCloser(bytes.NewReader(c.stream)), nil
}

func bugOrderFrame(std byte, ts time.Time, line string) []byte {
	payload := ts.UTC().Format(time.RFC3339Nano) + " " + line + "\n"
	var header [8]byte
	header[0] = std
	binary.BigEndian.PutUint32(header[4:], uint32(len(payload)))
	return append(header[:], payload...)
}

func TestBugOutOfOrderLineIsLostFromEveryWindow(t *testing.T) {
	base := time.Unix(1700000000, 0)
	type line struct {
		std  byte
		ts   time.Time
		text string
	}
	// The order below is the order in which the daemon hands the frames out. The third frame
	// (stderr) carries a timestamp 3 microseconds OLDER than the second one (stdout): Docker
	// stamps stdout and stderr in two independent goroutines, so this happens in real logs
	// (a clock step backwards has the same effect).
	lines := []line{
		{1, base.Add(10 * time.Second), "out 1"},
		{1, base.Add(60*time.Second + 1*time.Microsecond), "out 2"},
		{2, base.Add(60*time.Second - 2*time.Microsecond), "err 1"},
		{1, base.Add(90 * time.Second), "out 3"},
	}
	var stream []byte
	for _, l := range lines {
		stream = append(stream, bugOrderFrame(l.std, l.ts, l.text)...)
	}

	q, err := NewQuerier(&bugOrderClient{stream: stream})
	if err != nil {
		t.Fatal(err)
	}
	eng := logqlengine.NewEngine(q, logqlengine.Options{})

	const (
		query = `sum(count_over_time({}[60s]))`
		step  = 60 * time.Second
	)
	start, end := base.Add(60*time.Second), base.Add(120*time.Second)
	data, err := eng.Eval(context.Background(), query, logqlengine.EvalParams{
		Start: pcommon.NewTimestampFromTime(start),
		End:   pcommon.NewTimestampFromTime(end),
		Step:  step,
	})
	if err != nil {
		t.Fatal(err)
	}
	mat, ok := data.GetMatrixResult()
	if !ok {
		t.Fatalf("expected a matrix result, got %q", data.Type)
	}

	for _, at := range []time.Time{start, end} {
		// Number of samples whose timestamp is inside the window [at-60s, at] (the closed
		// window the engine itself uses).
		want := 0
		for _, l := range lines {
			if !l.ts.Before(at.Add(-step)) && !l.ts.After(at) {
				want++
			}
		}
		got := 0.
		for _, s := range mat.Result {
			for _, p := range s.Values {
				if p.T == float64(at.Unix()) {
					v, err := strconv.ParseFloat(p.V, 64)
					if err != nil {
						t.Fatal(err)
					}
					got += v
				}
			}
		}
		if got != float64(want) {
			t.Errorf("query %s, step %s, container log frames (in stream order): "+
				"stdout@+10s, stdout@+60.000001s, stderr@+59.999998s, stdout@+90s.\n"+
				"Step T=+%ds: the window [T-60s, T] contains %d samples, so the property requires the counts "+
				"reported across all series at this step to add up to %d (\"per-step totals are conserved\"); "+
				"the program reported a total of %v (the stderr line is counted in no window at all).",
				query, step, int(at.Sub(base).Seconds()), want, want, got)
		}
	}
}
