package logqlengine

import (
	"context"
	"fmt"
	"testing"
	"time"

	"github.com/tdakkota/docker-logql/internal/iterators"
	"github.com/tdakkota/docker-logql/internal/logql"
	"github.com/tdakkota/docker-logql/internal/logstorage"
	"github.com/tdakkota/docker-logql/internal/otelstorage"
)

type zzDemoQuerier struct{}

func (zzDemoQuerier) Capabilities() (caps QuerierCapabilities) { return caps }

func (zzDemoQuerier) SelectLogs(context.Context, otelstorage.Timestamp, otelstorage.Timestamp, SelectLogsParams) (iterators.Iterator[logstorage.Record], error) {
	return iterators.Slice[logstorage.Record](nil), nil
}

// zzDemoEval evaluates a metric query over three steps and renders the result
// as "<empty>" or the value of the single series at the first step.
func zzDemoEval(q string) (string, error) {
	e := NewEngine(zzDemoQuerier{}, Options{ParseOptions: logql.ParseOptions{AllowDots: true}})
	data, err := e.Eval(context.Background(), q, EvalParams{
		Start: otelstorage.Timestamp(1700000001_000000000),
		End:   otelstorage.Timestamp(1700000003_000000000),
		Step:  time.Second,
		Limit: 1000,
	})
	if err != nil {
		return "", err
	}
	m, ok := data.GetMatrixResult()
	if !ok {
		return "", fmt.Errorf("result is %v, not a matrix", data.Type)
	}
	switch {
	case len(m.Result) == 0:
		return "<empty>", nil
	case len(m.Result) != 1 || len(m.Result[0].Values) != 3:
		return "", fmt.Errorf("unexpected result shape %+v", m.Result)
	}
	return m.Result[0].Values[0].V, nil
}

// A constant sub-expression (both operands scalar literals) that the
// conventional reading groups together - because its operator binds tighter
// than the neighbour, or because it is parenthesised - cannot be evaluated at
// all: logqlmetric.build only handles a *logql.LiteralExpr that is a DIRECT
// operand of a BinOpExpr and never folds constants (logql.ReduceBinOp exists
// but is not called from anywhere outside its own unit test).
func TestBugConstantSubexpressionChosenByPrecedenceOrParensIsNotEvaluated(t *testing.T) {
	for _, tt := range []struct {
		query   string
		reading string
		want    string
		// control: an equivalent query that avoids a literal-literal node
		control string
	}{
		// * binds tighter than +, so 1*2 is computed first.
		{`vector(3) + 1 * 2`, `vector(3) + (1 * 2)`, "5", `vector(3) + vector(1) * vector(2)`},
		// * binds tighter than +, so 2*3 is computed first.
		{`2 * 3 + vector(1)`, `(2 * 3) + vector(1)`, "7", `vector(2) * vector(3) + vector(1)`},
		// ^ binds tighter than *.
		{`vector(3) * 2 ^ 3`, `vector(3) * (2 ^ 3)`, "24", `vector(3) * vector(2) ^ vector(3)`},
		// ^ is right-associative.
		{`vector(2) ^ 3 ^ 2`, `vector(2) ^ (3 ^ 2)`, "512", `vector(2) ^ vector(3) ^ vector(2)`},
		// parentheses override precedence.
		{`(1 + 2) * vector(3)`, `(1 + 2) * vector(3)`, "9", `(vector(1) + vector(2)) * vector(3)`},
		{`vector(3) * (1 + 2)`, `vector(3) * (1 + 2)`, "9", `vector(3) * (vector(1) + vector(2))`},
	} {
		got, err := zzDemoEval(tt.control)
		if err != nil || got != tt.want {
			t.Errorf("control %q: got %q, err %v; want %q", tt.control, got, err, tt.want)
			continue
		}

		got, err = zzDemoEval(tt.query)
		if err != nil {
			t.Errorf("query %q: the property requires the reading %q, which evaluates to %s "+
				"(the same chain over vector() operands, %q, does give %s), "+
				"but the program failed with: %v",
				tt.query, tt.reading, tt.want, tt.control, tt.want, err)
			continue
		}
		if got != tt.want {
			t.Errorf("query %q: the property requires the reading %q = %s, but the program returned %s",
				tt.query, tt.reading, tt.want, got)
		}
	}
}
