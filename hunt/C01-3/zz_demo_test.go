package logqlengine

import (
	"context"
	"fmt"
	"sort"
	"testing"

	"go.opentelemetry.io/collector/pdata/pcommon"

	"github.com/tdakkota/docker-logql/internal/iterators"
	"github.com/tdakkota/docker-logql/internal/logstorage"
	"github.com/tdakkota/docker-logql/internal/otelstorage"
)

// bugJSONQuerier is a storage backend that offloads nothing and returns every record.
type bugJSONQuerier struct {
	lines []string
}

func (q *bugJSONQuerier) Capabilities() (caps QuerierCapabilities) { return caps }

func (q *bugJSONQuerier) SelectLogs(context.Context, otelstorage.Timestamp, otelstorage.Timestamp, SelectLogsParams) (iterators.Iterator[logstorage.Record], error) {
	var recs []logstorage.Record
	for i, line := range q.lines {
		recs = append(recs, logstorage.Record{
			Timestamp:     otelstorage.Timestamp(1000 + i),
			Body:          line,
			Attrs:         otelstorage.Attrs(pcommon.NewMap()),
			ResourceAttrs: otelstorage.Attrs(pcommon.NewMap()),
		})
	}
	return iterators.Slice(recs), nil
}

func bugJSONEval(t *testing.T, lines []string, query string) []string {
	t.Helper()
	e := NewEngine(&bugJSONQuerier{lines: lines}, Options{})
	data, err := e.Eval(context.Background(), query, EvalParams{Start: 1, End: 1 << 40, Step: 1, Limit: -1})
	if err != nil {
		t.Fatalf("eval %s: %v", query, err)
	}
	streams, ok := data.GetStreamsResult()
	if !ok {
		t.Fatalf("eval %s: not a streams result", query)
	}
	var out []string
	for _, s := range streams.Result {
		for _, v := range s.Values {
			out = append(out, v.V)
		}
	}
	sort.Strings(out)
	return out
}

// TestBugJSONLargeNumber: a well-formed JSON line whose object has an integer that does not fit
// int64 (an unsigned 64-bit id/hash) before the filtered field is treated as malformed JSON:
// the fields after it are not extracted and the record is lost to the label filter.
func TestBugJSONLargeNumber(t *testing.T) {
	lines := []string{
		`{"id":18446744073709551615,"level":"error","msg":"big unsigned id first"}`,
		`{"id":42,"level":"error","msg":"small id"}`,
		`{"level":"error","id":18446744073709551615,"msg":"big id after level"}`,
		`{"ratio":1e999,"level":"error","msg":"float out of range first"}`,
	}
	want := append([]string(nil), lines...)
	sort.Strings(want)

	const query = `{} | json | level="error"`
	got := bugJSONEval(t, lines, query)
	if fmt.Sprint(got) != fmt.Sprint(want) {
		t.Errorf("query %s over the %d well-formed JSON lines\n    %q\n"+
			"  the property requires every matching record once (each line is a valid JSON object with \"level\":\"error\"):\n"+
			"    want %q\n"+
			"  the program returned\n"+
			"    got  %q",
			query, len(lines), lines, want, got)
	}

	// The same lines are reported as malformed JSON.
	const errQuery = `{} | json | __error__!=""`
	if bad := bugJSONEval(t, lines, errQuery); len(bad) != 0 {
		t.Errorf("query %s: all lines are well-formed JSON, the property requires no record, got %q", errQuery, bad)
	}

	// And the engine disagrees with itself: naming the label extracts it from the very same line.
	const someQuery = `{} | json level | level="error"`
	if some := bugJSONEval(t, lines, someQuery); fmt.Sprint(some) != fmt.Sprint(want) {
		t.Errorf("query %s: want %q, got %q", someQuery, want, some)
	}
}
