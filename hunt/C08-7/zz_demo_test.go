package dockerlog

import (
	"bytes"
	"context"
	"encoding/binary"
	"fmt"
	"io"
	"testing"
	"time"

	"github.com/docker/docker/api/types"
	apicontainer "github.com/docker/docker/api/types/container"
	"github.com/docker/docker/client"

	"github.com/tdakkota/docker-logql/internal/logql/logqlengine"
	"github.com/tdakkota/docker-logql/internal/lokiapi"
	"github.com/tdakkota/docker-logql/internal/otelstorage"
)

// bugDemoLine is one log line of a fake container.
type bugDemoLine struct {
	ts  time.Time
	msg string
}

// bugDemoClient is a Docker API client that serves the given containers.
// Only the two calls the querier makes are implemented.
type bugDemoClient struct {
	client.APIClient
	names []string
	logs  map[string][]bugDemoLine
}

func (c *bugDemoClient) ContainerList(context.Context, apicontainer.ListOptions) (r []types.Container, _ error) {
	for _, name := range c.names {
		r = append(r, types.Container{ID: name, Names: []string{"/" + name}})
	}
	return r, nil
}

func (c *bugDemoClient) ContainerLogs(_ context.Context, id string, _ apicontainer.LogsOptions) (io.ReadCloser, error) {
	var buf bytes.Buffer
	for _, l := range c.logs[id] {
		// Exactly what the daemon sends with Timestamps=true: stdout frame, RFC3339Nano timestamp, space, line.
		body := l.ts.UTC().Format("2006-01-02T15:04:05.000000000Z07:00") + " " + l.msg + "\n"
		var header [8]byte
		header[0] = 1 // stdout
		binary.BigEndian.PutUint32(header[4:], uint32(len(body)))
		buf.Write(header[:])
		buf.WriteString(body)
	}
	return io.NopCloser(&buf), nil
}

func bugDemoEval(t *testing.T, c *bugDemoClient, query string, limit int) lokiapi.Streams {
	t.Helper()
	q, err := NewQuerier(c)
	if err != nil {
		t.Fatal(err)
	}
	eng := logqlengine.NewEngine(q, logqlengine.Options{})
	data, err := eng.Eval(context.Background(), query, logqlengine.EvalParams{
		// The range only goes to the daemon as since/until; the fake daemon returns everything.
		Start: otelstorage.NewTimestampFromTime(time.Unix(-3600, 0)),
		End:   otelstorage.NewTimestampFromTime(time.Unix(3600, 0)),
		Step:  time.Second,
		Limit: limit,
	})
	if err != nil {
		t.Fatalf("eval %q: %v", query, err)
	}
	return data.StreamsResult.Result
}

func bugDemoTime(e lokiapi.LogEntry) string {
	// The same conversion cmd/docker-logql renderResult uses to print an entry.
	return time.Unix(0, int64(e.T)).UTC().Format(time.RFC3339)
}

// One container, two records that arrive IN time order (one second before the
// Unix epoch, one second after it). The stream must list them in timestamp order.
func TestBugPreEpochRecordSortedAfterLaterRecordInStream(t *testing.T) {
	early := time.Date(1969, 12, 31, 23, 59, 59, 0, time.UTC)
	late := time.Date(1970, 1, 1, 0, 0, 1, 0, time.UTC)
	c := &bugDemoClient{
		names: []string{"app"},
		logs: map[string][]bugDemoLine{
			"app": {{early, "early"}, {late, "late"}},
		},
	}
	// `drop msg` puts both entries into the one stream of the container.
	streams := bugDemoEval(t, c, `{} | drop msg`, 0)
	if len(streams) != 1 || len(streams[0].Values) != 2 {
		t.Fatalf("expected one stream with two entries, got %+v", streams)
	}
	v := streams[0].Values
	got := fmt.Sprintf("[%s %q, %s %q]", bugDemoTime(v[0]), v[0].V, bugDemoTime(v[1]), v[1].V)
	if v[0].V != "early\n" || v[1].V != "late\n" {
		t.Fatalf("input: container `app` logs `early` at %s and then `late` at %s (already in time order); query `{} | drop msg`, no limit.\n"+
			"property: entries within a stream are in timestamp order, i.e. [early, late].\n"+
			"program: stream values are %s - the record of 1969 is placed AFTER the record of 1970 "+
			"(timestamps are compared as uint64, -1s wrapped to %d).",
			early.Format(time.RFC3339), late.Format(time.RFC3339), got, v[1].T)
	}
}

// Two containers, one record each, limit 1: the result must be the earliest record.
func TestBugPreEpochRecordLosesLimitToLaterRecord(t *testing.T) {
	early := time.Date(1969, 12, 31, 23, 59, 59, 0, time.UTC)
	late := time.Date(1970, 1, 1, 0, 0, 1, 0, time.UTC)
	c := &bugDemoClient{
		names: []string{"a", "b"},
		logs: map[string][]bugDemoLine{
			"a": {{early, "early"}},
			"b": {{late, "late"}},
		},
	}
	streams := bugDemoEval(t, c, `{}`, 1)
	var lines []string
	for _, s := range streams {
		for _, e := range s.Values {
			lines = append(lines, fmt.Sprintf("%s %q", bugDemoTime(e), e.V))
		}
	}
	if len(lines) != 1 || lines[0] != early.Format(time.RFC3339)+` "early\n"` {
		t.Fatalf("input: container `a` logs `early` at %s, container `b` logs `late` at %s; query `{}`, limit 1.\n"+
			"property: with a positive limit L the result consists of the first min(L, N) matching records in time order, i.e. only `early`.\n"+
			"program: returned %v - the merge iterator orders records by uint64 timestamp, so the later record wins.",
			early.Format(time.RFC3339), late.Format(time.RFC3339), lines)
	}
}
