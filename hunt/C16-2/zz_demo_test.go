package main

import (
	"testing"
	"time"

	"github.com/tdakkota/docker-logql/internal/lokiapi"
)

// TestBugDefaultStepOffByOneSecond shows that the default step is not
// max(1s, floor((end-start)/250) seconds) when end-start is one nanosecond
// short of a multiple of 250s and longer than about 194 days: the range is
// converted to a float64 number of seconds, which rounds UP to the multiple.
func TestBugDefaultStepOffByOneSecond(t *testing.T) {
	now := time.Date(2024, 6, 1, 0, 0, 0, 0, time.UTC)

	// start = 2023-01-01T00:00:00Z, end = start + 20000000s - 1ns  (about 231 days).
	const (
		startSpelling = "2023-01-01T00:00:00Z"
		endSpelling   = "2023-08-20T11:33:19.999999999Z"
	)
	var startParam, endParam lokiapi.OptLokiTime
	startParam.SetTo(startSpelling)
	endParam.SetTo(endSpelling)

	start, end, err := parseTimeRange(now, startParam, endParam, lokiapi.OptPrometheusDuration{})
	if err != nil {
		t.Fatal(err)
	}
	if d := end.Sub(start); d != 20000000*time.Second-time.Nanosecond {
		t.Fatalf("test set-up: unexpected range %v", d)
	}

	got, err := parseStep(lokiapi.OptPrometheusDuration{}, start, end)
	if err != nil {
		t.Fatal(err)
	}

	// floor((end-start)/250) in whole seconds, computed exactly on integers.
	want := time.Duration(int64(end.Sub(start)/time.Second)/250) * time.Second
	if want < time.Second {
		want = time.Second
	}
	if got != want {
		t.Errorf("--start %s --end %s, no --step: end-start = %v = 19999999.999999999s; "+
			"the property requires the default step max(1s, floor((end-start)/250) seconds) = %v (%ds), "+
			"but the program chose %v (%ds)",
			startSpelling, endSpelling, end.Sub(start), want, int64(want/time.Second), got, int64(got/time.Second))
	}
}
