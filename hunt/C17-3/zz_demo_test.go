package logql

import (
	"bytes"
	"os"
	"os/exec"
	"strings"
	"testing"
)

type bugNestCase struct {
	name  string
	depth int
	build func(n int) string
}

var bugNestCases = []bugNestCase{
	{
		// Label filter predicate: `{a="b"} | ((((( ... a="x" ... )))))`.
		name:  "label-predicate-parens",
		depth: 2_000_000,
		build: func(n int) string {
			return `{a="b"} | ` + strings.Repeat("(", n) + `a="x"` + strings.Repeat(")", n)
		},
	},
	{
		// Nested vector aggregations: `sum(sum(sum( ... vector(1) ... )))`.
		name:  "nested-sum",
		depth: 2_000_000,
		build: func(n int) string {
			return strings.Repeat("sum(", n) + `vector(1)` + strings.Repeat(")", n)
		},
	},
}

const bugNestChildEnv = "BUG_DEMO_NEST_CHILD"

// TestBugNestChild is run in a child process: a Go stack overflow is a fatal error,
// recover() cannot intercept it and it kills the process that suffers it.
func TestBugNestChild(t *testing.T) {
	name := os.Getenv(bugNestChildEnv)
	if name == "" {
		t.Skip("helper for TestBugDeepNestingKillsProcess")
	}
	for _, c := range bugNestCases {
		if c.name != name {
			continue
		}
		_, err := Parse(c.build(c.depth), ParseOptions{})
		msg := "<nil>"
		if err != nil {
			msg = err.Error()
			if len(msg) > 100 {
				msg = msg[:100]
			}
		}
		// Reaching this line at all is what the property requires.
		t.Logf("CHILD-SURVIVED err=%s", msg)
	}
}

// TestBugDeepNestingKillsProcess: the recursive-descent parser has no nesting limit, so a query
// that is nothing but a long run of "(" (or "sum(") overflows the 1 GB goroutine stack.
func TestBugDeepNestingKillsProcess(t *testing.T) {
	// Sanity: moderately nested queries are parsed fine.
	for _, c := range bugNestCases {
		if _, err := Parse(c.build(1000), ParseOptions{}); err != nil {
			t.Fatalf("%s: depth 1000 should parse: %v", c.name, err)
		}
	}

	for _, c := range bugNestCases {
		cmd := exec.Command(os.Args[0], "-test.run=^TestBugNestChild$", "-test.v", "-test.timeout=10m")
		cmd.Env = append(os.Environ(), bugNestChildEnv+"="+c.name)
		var out bytes.Buffer
		cmd.Stdout = &out
		cmd.Stderr = &out
		runErr := cmd.Run()

		output := out.String()
		survived := strings.Contains(output, "CHILD-SURVIVED")
		overflow := strings.Contains(output, "stack overflow")
		if len(output) > 500 {
			output = output[:500] + "..."
		}
		if runErr == nil && survived {
			t.Logf("%s: Parse returned, property holds", c.name)
			continue
		}
		q := c.build(3)
		t.Errorf("%s: query of %d bytes shaped like %s but nested %d times.\n"+
			"Property: \"For any query string ... evaluation terminates and returns either a result or an error; it never panics. "+
			"Mistakes in user input (bad syntax ...) are reported as errors\".\n"+
			"Observed: the process parsing the query died (exit: %v, fatal stack overflow: %v, returned: %v). Output head:\n%s",
			c.name, len(c.build(c.depth)), q, c.depth, runErr, overflow, survived, output)
	}
}
