package logqlengine

import (
	"context"
	"sort"
	"strconv"
	"strings"
	"testing"
	"time"

	"go.opentelemetry.io/collector/pdata/pcommon"

	"github.com/tdakkota/docker-logql/internal/iterators"
	"github.com/tdakkota/docker-logql/internal/logstorage"
	"github.com/tdakkota/docker-logql/internal/otelstorage"
)

// bugCollisionQuerier serves a fixed, time-ordered list of plain log lines.
type bugCollisionQuerier struct {
	ts    []time.Time
	lines []string
}

func (q *bugCollisionQuerier) Capabilities() (caps QuerierCapabilities) { return caps }

func (q *bugCollisionQuerier) SelectLogs(context.Context, otelstorage.Timestamp, otelstorage.Timestamp, SelectLogsParams) (iterators.Iterator[logstorage.Record], error) {
	var records []logstorage.Record
	for i, line := range q.lines {
		records = append(records, logstorage.Record{
			Timestamp: otelstorage.NewTimestampFromTime(q.ts[i]),
			Body:      line,
			Attrs:     otelstorage.Attrs(pcommon.NewMap()),
		})
	}
	return iterators.Slice(records), nil
}

func bugCollisionRender(m map[string]string) string {
	keys := make([]string, 0, len(m))
	for k := range m {
		keys = append(keys, k)
	}
	sort.Strings(keys)
	var sb strings.Builder
	sb.WriteByte('{')
	for i, k := range keys {
		if i > 0 {
			sb.WriteByte(',')
		}
		sb.WriteString(k + "=" + strconv.Quote(m[k]))
	}
	sb.WriteByte('}')
	return sb.String()
}

// Two different, perfectly ordinary looking (alphanumeric, 53 characters) values of the
// label `session`. They are constructed so that the 64-bit xxhash of
// "session\x00" + "53" + "\x00" + value is the same for both (no brute force needed: the xxhash64
// lane update is invertible, so a difference injected in one 8-byte lane of the first 32-byte
// stripe can be cancelled in the same lane of the second stripe).
const (
	bugCollisionSessionA = "su1Z6a42PeGHC2LquC1CIaZvtPfBhvor0VxRKBA4LJGHpgrXTfaMi"
	bugCollisionSessionB = "su1Z6R4NOKkg22LquC1CIaZvtPfBhvor0VxRKPl8TueBHgrXTfaMi"
)

func TestBugDifferentLabelSetsShareOneSeries(t *testing.T) {
	if bugCollisionSessionA == bugCollisionSessionB {
		t.Fatal("test is broken: the two values must differ")
	}

	base := time.Unix(1700000000, 0)
	q := &bugCollisionQuerier{
		ts: []time.Time{base.Add(10 * time.Second), base.Add(20 * time.Second)},
		lines: []string{
			"level=info event=login session=" + bugCollisionSessionA,
			"level=info event=login session=" + bugCollisionSessionB,
		},
	}
	eng := NewEngine(q, Options{})

	for _, query := range []string{
		`sum by (session) (count_over_time({} | logfmt [1m]))`,
		`count_over_time({} | logfmt | keep session [1m])`,
	} {
		at := otelstorage.NewTimestampFromTime(base.Add(60 * time.Second))
		data, err := eng.Eval(context.Background(), query, EvalParams{Start: at, End: at, Step: 0})
		if err != nil {
			t.Fatalf("query %s: %v", query, err)
		}
		vec, ok := data.GetVectorResult()
		if !ok {
			t.Fatalf("query %s: expected a vector result, got %q", query, data.Type)
		}

		got := map[string]string{}
		var rendered []string
		for _, s := range vec.Result {
			k := bugCollisionRender(s.Metric.Value)
			got[k] = s.Value.V
			rendered = append(rendered, k+" => "+s.Value.V)
		}

		wantA := bugCollisionRender(map[string]string{"session": bugCollisionSessionA})
		wantB := bugCollisionRender(map[string]string{"session": bugCollisionSessionB})
		if len(vec.Result) != 2 || got[wantA] != "1" || got[wantB] != "1" {
			t.Errorf("query %s over two log lines\n  %q\n  %q\n"+
				"the two samples carry DIFFERENT label sets (%s and %s), so the property requires two series, "+
				"each with count 1 (\"samples with different label sets never [contribute to the same series]\").\n"+
				"The program returned %d series: %v\n"+
				"i.e. both samples were merged into one series, and the label set of the other one vanished from the result.",
				query, q.lines[0], q.lines[1], wantA, wantB, len(vec.Result), rendered)
		}
	}
}
