package dockerlog

import (
	"bytes"
	"context"
	"encoding/binary"
	"fmt"
	"io"
	"strings"
	"testing"
	"time"

	"github.com/docker/docker/api/types"
	apicontainer "github.com/docker/docker/api/types/container"
	"github.com/docker/docker/client"

	"github.com/tdakkota/docker-logql/internal/logql/logqlengine"
	"github.com/tdakkota/docker-logql/internal/logstorage"
)

type demoLine struct {
	ts   time.Time
	body string
}

// demoDocker answers the two Docker API calls the querier makes.
type demoDocker struct {
	client.APIClient
	ids  []string
	logs map[string][]demoLine
}

func (f *demoDocker) ContainerList(context.Context, apicontainer.ListOptions) ([]types.Container, error) {
	var r []types.Container
	for _, id := range f.ids {
		r = append(r, types.Container{ID: id, Names: []string{"/" + id}})
	}
	return r, nil
}

func (f *demoDocker) ContainerLogs(_ context.Context, id string, _ apicontainer.LogsOptions) (io.ReadCloser, error) {
	var b bytes.Buffer
	for _, l := range f.logs[id] {
		payload := l.ts.UTC().Format(time.RFC3339Nano) + " " + l.body
		var h [8]byte
		h[0] = 1 // stdout
		binary.BigEndian.PutUint32(h[4:], uint32(len(payload)))
		b.Write(h[:])
		b.WriteString(payload)
	}
	return io.NopCloser(&b), nil
}

// TestBugMergeOrderBeforeEpoch: two containers, each with a time-ordered log;
// container "old" has one record stamped before 1970-01-01T00:00:00Z.
// Deterministic.
func TestBugMergeOrderBeforeEpoch(t *testing.T) {
	epoch := time.Unix(0, 0).UTC()
	f := &demoDocker{
		ids: []string{"old", "new"},
		logs: map[string][]demoLine{
			"old": {
				{epoch.Add(-5 * time.Second), "old-1"}, // 1969-12-31T23:59:55Z
				{epoch.Add(5 * time.Second), "old-2"},  // 1970-01-01T00:00:05Z
			},
			"new": {
				{epoch.Add(1 * time.Second), "new-1"}, // 1970-01-01T00:00:01Z
			},
		},
	}
	q, err := NewQuerier(f)
	if err != nil {
		t.Fatal(err)
	}
	it, err := q.SelectLogs(context.Background(), 0, 0, logqlengine.SelectLogsParams{})
	if err != nil {
		t.Fatal(err)
	}
	defer func() { _ = it.Close() }()

	var (
		r     logstorage.Record
		got   []logstorage.Record
		shown []string
	)
	for it.Next(&r) {
		got = append(got, r)
		shown = append(shown, fmt.Sprintf("%s@%s(Timestamp=%d)",
			r.Body, r.Timestamp.AsTime().UTC().Format(time.RFC3339), uint64(r.Timestamp)))
	}
	if err := it.Err(); err != nil {
		t.Fatal(err)
	}
	if len(got) != 3 {
		t.Fatalf("3 records in, %d out: %v", len(got), shown)
	}
	for i := 1; i < len(got); i++ {
		prev, cur := got[i-1], got[i]
		if cur.Timestamp < prev.Timestamp || cur.Timestamp.AsTime().Before(prev.Timestamp.AsTime()) {
			t.Fatalf("containers old=[1969-12-31T23:59:55Z old-1, 1970-01-01T00:00:05Z old-2] and "+
				"new=[1970-01-01T00:00:01Z new-1]; each log is time-ordered, so the property requires the "+
				"merged stream to be in non-decreasing timestamp order (old-1, new-1, old-2).\n"+
				"SelectLogs produced:\n  %s\nrecord %d goes back in time relative to record %d",
				strings.Join(shown, "\n  "), i+1, i)
		}
	}
}
