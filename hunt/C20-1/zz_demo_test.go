package dockerlog

import (
	"context"
	"strconv"
	"testing"

	"github.com/docker/docker/api/types"
	apicontainer "github.com/docker/docker/api/types/container"
	"github.com/docker/docker/client"

	"github.com/tdakkota/docker-logql/internal/logql"
	"github.com/tdakkota/docker-logql/internal/logql/logqlengine"
	"github.com/tdakkota/docker-logql/internal/otelstorage"
)

type bugCollideClient struct {
	client.APIClient
	ctrs []types.Container
}

func (f *bugCollideClient) ContainerList(context.Context, apicontainer.ListOptions) ([]types.Container, error) {
	return f.ctrs, nil
}

// bugCollideSelected reports whether the container list, queried through the real
// Querier.fetchContainers with the selector {sanitised(k)="v"}, contains container id.
func bugCollideSelected(t *testing.T, ctrs []types.Container, id, k, v string) (string, bool) {
	t.Helper()
	query := "{" + otelstorage.KeyToLabel(k) + "=" + strconv.Quote(v) + "}"
	sel, err := logql.ParseSelector(query, logql.ParseOptions{})
	if err != nil {
		t.Fatalf("selector %s does not parse: %v", query, err)
	}
	q, err := NewQuerier(&bugCollideClient{ctrs: ctrs})
	if err != nil {
		t.Fatal(err)
	}
	got, err := q.fetchContainers(context.Background(), logqlengine.SelectLogsParams{Labels: sel.Matchers})
	if err != nil {
		t.Fatal(err)
	}
	for _, c := range got {
		if c.ID == id {
			return query, true
		}
	}
	return query, false
}

// A container carries two Docker labels whose keys differ only in a character that
// sanitisation replaces: "app.role"="web" and "app_role"="db". The property says the
// container is selected by {sanitised(k)="v"} for EVERY label k=v it carries, i.e. by
// both {app_role="web"} and {app_role="db"}.
func TestBugCollidingDockerLabelsLoseOneValue(t *testing.T) {
	ctr := types.Container{
		ID:    "c1",
		Names: []string{"/c1"},
		Labels: map[string]string{
			"app.role": "web",
			"app_role": "db",
		},
	}

	// Part 1 (deterministic, single snapshot): one label set built by getLabels can
	// satisfy at most one of the two selectors.
	set := getLabels(ctr)
	for k, v := range ctr.Labels {
		m := logql.LabelMatcher{Label: logql.Label(otelstorage.KeyToLabel(k)), Op: logql.OpEq, Value: v}
		if !set.Match([]logql.LabelMatcher{m}) {
			t.Errorf("container carries Docker label %q=%q; property requires it to be selected by {%s=%q}, "+
				"but getLabels produced %s=%q (the other colliding key %v overwrote it), so it is NOT selected",
				k, v, m.Label, v, m.Label, set.labels[string(m.Label)], ctr.Labels)
		}
	}

	// Part 2 (through fetchContainers): which of the two values survives depends on Go map
	// iteration order, so the very same query flaps between runs. Loop with a bound until
	// both outcomes have been observed.
	var hit, miss int
	var query string
	for i := 0; i < 2000 && (hit == 0 || miss == 0); i++ {
		var ok bool
		query, ok = bugCollideSelected(t, []types.Container{ctr}, "c1", "app.role", "web")
		if ok {
			hit++
		} else {
			miss++
		}
	}
	if miss > 0 {
		t.Errorf("container with Docker labels %v queried with %s: selected %d times, NOT selected %d times "+
			"(property requires it to be selected always; result depends on map iteration order)",
			ctr.Labels, query, hit, miss)
	}
}
