package logqlengine

import (
	"context"
	"fmt"
	"strings"
	"testing"
	"time"

	"go.opentelemetry.io/collector/pdata/pcommon"

	"github.com/tdakkota/docker-logql/internal/iterators"
	"github.com/tdakkota/docker-logql/internal/logstorage"
	"github.com/tdakkota/docker-logql/internal/lokiapi"
	"github.com/tdakkota/docker-logql/internal/otelstorage"
)

type zzBug2Querier struct {
	recs []logstorage.Record
}

func (q *zzBug2Querier) Capabilities() (caps QuerierCapabilities) { return caps }

func (q *zzBug2Querier) SelectLogs(_ context.Context, start, end otelstorage.Timestamp, _ SelectLogsParams) (iterators.Iterator[logstorage.Record], error) {
	var out []logstorage.Record
	for _, r := range q.recs {
		if r.Timestamp >= start && r.Timestamp <= end {
			out = append(out, r)
		}
	}
	return iterators.Slice(out), nil
}

func zzBug2Dump(data lokiapi.QueryResponseData) string {
	var sb strings.Builder
	for _, ser := range data.MatrixResult.Result {
		fmt.Fprintf(&sb, "%v:", ser.Metric.Value)
		for _, p := range ser.Values {
			fmt.Fprintf(&sb, " %s@%.0f", p.V, p.T)
		}
		sb.WriteString("\n")
	}
	return sb.String()
}

// TestBugStepZeroVectorOnTheLeft: a range query (Start < End) evaluated with Step == 0.
// RangeAggregation reads Step == 0 as "1s" while Vector reads it as 0, and a binary
// operation stamps every step with the LEFT operand's timestamp: with vector(1) on the
// left all steps collapse onto the start timestamp, with it on the right they do not.
func TestBugStepZeroVectorOnTheLeft(t *testing.T) {
	start := time.Unix(1700000000, 0)
	end := start.Add(3 * time.Second)

	// 1, 2, 3, 4 lines in the 1s windows ending at start, start+1s, start+2s, start+3s.
	var recs []logstorage.Record
	for step := 0; step < 4; step++ {
		base := start.Add(time.Duration(step)*time.Second - 900*time.Millisecond)
		for k := 0; k <= step; k++ {
			attrs := pcommon.NewMap()
			attrs.PutStr("container", "a")
			recs = append(recs, logstorage.Record{
				Timestamp:     otelstorage.NewTimestampFromTime(base.Add(time.Duration(k) * 100 * time.Millisecond)),
				Body:          "line",
				Attrs:         otelstorage.Attrs(attrs),
				ScopeAttrs:    otelstorage.Attrs(pcommon.NewMap()),
				ResourceAttrs: otelstorage.Attrs(pcommon.NewMap()),
			})
		}
	}

	eval := func(query string) string {
		e := NewEngine(&zzBug2Querier{recs: recs}, Options{})
		data, err := e.Eval(context.Background(), query, EvalParams{
			Start: otelstorage.NewTimestampFromTime(start),
			End:   otelstorage.NewTimestampFromTime(end),
			Step:  0,
		})
		if err != nil {
			t.Fatalf("query %q: %v", query, err)
		}
		return zzBug2Dump(data)
	}

	const x = `sum(count_over_time({container="a"}[1s]))`

	plain := eval(x)
	if want := "map[]: 1@1700000000 2@1700000001 3@1700000002 4@1700000003\n"; plain != want {
		t.Fatalf("precondition: %q with Step=0 is evaluated on a 1s grid; got %q, want %q", x, plain, want)
	}

	const want = "map[]: 2@1700000000 3@1700000001 4@1700000002 5@1700000003\n"
	for _, query := range []string{
		x + ` + vector(1)`,
		`vector(1) + ` + x,
		`vector(1) or ` + x,
	} {
		w := want
		if strings.Contains(query, " or ") {
			w = "map[]: 1@1700000000 1@1700000001 1@1700000002 1@1700000003\n"
		}
		if got := eval(query); got != w {
			t.Errorf("input: range query %q, Start=%d End=%d Step=0 (operand %q alone yields %q).\n"+
				"property requires: at every step of the range query exactly one value for the series {}, i.e. %q\n"+
				"program returned: %q (all points stamped with the start timestamp: the result has 4 values at the first step and none at the others)",
				query, start.Unix(), end.Unix(), x, plain, w, got)
		}
	}
}
