package logqlengine

import (
	"context"
	"fmt"
	"sort"
	"testing"
	"time"

	"go.opentelemetry.io/collector/pdata/pcommon"

	"github.com/tdakkota/docker-logql/internal/iterators"
	"github.com/tdakkota/docker-logql/internal/logstorage"
	"github.com/tdakkota/docker-logql/internal/otelstorage"
)

// bugIPQuerier serves a fixed list of lines, one millisecond apart.
type bugIPQuerier struct {
	lines []string
}

func (q *bugIPQuerier) Capabilities() (caps QuerierCapabilities) { return caps }

func (q *bugIPQuerier) SelectLogs(_ context.Context, start, _ otelstorage.Timestamp, _ SelectLogsParams) (iterators.Iterator[logstorage.Record], error) {
	ts := start.AsTime()
	var records []logstorage.Record
	for _, l := range q.lines {
		ts = ts.Add(time.Millisecond)
		records = append(records, logstorage.Record{
			Timestamp: otelstorage.NewTimestampFromTime(ts),
			Body:      l,
			Attrs:     otelstorage.Attrs(pcommon.NewMap()),
		})
	}
	return iterators.Slice(records), nil
}

func bugIPEval(t *testing.T, lines []string, query string) []string {
	t.Helper()
	e := NewEngine(&bugIPQuerier{lines: lines}, Options{})
	data, err := e.Eval(context.Background(), query, EvalParams{
		Start: 1700000000_000000000,
		End:   1700000100_000000000,
	})
	if err != nil {
		t.Fatalf("eval %q: %v", query, err)
	}
	streams, ok := data.GetStreamsResult()
	if !ok {
		t.Fatalf("eval %q: result is not streams", query)
	}
	var r []string
	for _, s := range streams.Result {
		for _, v := range s.Values {
			r = append(r, fmt.Sprintf("%d %q", v.T-1700000000_000000000, v.V))
		}
	}
	sort.Strings(r)
	return r
}

// Property: "a filter and its negation (|= s and != s, ...) split q's result into
// two disjoint parts that together are q's result".
//
// `|= ip("1.2.3.4")` and `!= ip("1.2.3.4")` do not: `!= ip(...)` is implemented as
// "the line contains SOME address that does not match", not as the negation of
// "the line contains an address that matches".
func TestBugIPLineFilterNegationIsNotComplement(t *testing.T) {
	lines := []string{
		"no address in this line",           // neither filter returns it
		"src=1.2.3.4 dst=5.6.7.8 forwarded", // both filters return it
		"src=1.2.3.4 accepted",
		"src=5.6.7.8 accepted",
	}
	for _, pattern := range []string{"1.2.3.4", "1.2.3.0/24", "1.2.3.0-1.2.3.255"} {
		base := `{x=~".*"}`
		posQ := base + ` |= ip("` + pattern + `")`
		negQ := base + ` != ip("` + pattern + `")`

		all := bugIPEval(t, lines, base)
		pos := bugIPEval(t, lines, posQ)
		neg := bugIPEval(t, lines, negQ)

		count := map[string]int{}
		for _, k := range pos {
			count[k]++
		}
		for _, k := range neg {
			count[k]++
		}
		for _, k := range all {
			switch count[k] {
			case 1:
			case 0:
				t.Errorf("input lines %q: record %s is returned by %s but by NEITHER %s NOR %s; "+
					"the property requires a filter and its negation to together give q's result",
					lines, k, base, posQ, negQ)
			default:
				t.Errorf("input lines %q: record %s is returned by BOTH %s AND %s; "+
					"the property requires a filter and its negation to select disjoint parts",
					lines, k, posQ, negQ)
			}
		}
		if len(pos)+len(neg) != len(all) {
			t.Errorf("pattern %q: |q|=%d but |q |= ip|=%d and |q != ip|=%d\n q      = %q\n |= ip  = %q\n != ip  = %q",
				pattern, len(all), len(pos), len(neg), all, pos, neg)
		}
	}
}
