package main

import (
	"bytes"
	"context"
	"encoding/binary"
	"io"
	"strings"
	"testing"
	"time"

	"github.com/docker/docker/api/types"
	apicontainer "github.com/docker/docker/api/types/container"
	"github.com/docker/docker/client"

	"github.com/tdakkota/docker-logql/internal/dockerlog"
	"github.com/tdakkota/docker-logql/internal/logql/logqlengine"
)

// demoLine is one log record of a container: a timestamp and a message.
type demoLine struct {
	ts   time.Time
	body string
}

// demoDocker is a Docker API client that knows two calls: the container list
// and the (multiplexed, timestamped) log of a container, exactly as the daemon
// sends it.
type demoDocker struct {
	client.APIClient
	ids  []string
	logs map[string][]demoLine
}

func (f *demoDocker) ContainerList(context.Context, apicontainer.ListOptions) ([]types.Container, error) {
	var r []types.Container
	for _, id := range f.ids {
		r = append(r, types.Container{ID: id, Names: []string{"/" + id}})
	}
	return r, nil
}

func (f *demoDocker) ContainerLogs(_ context.Context, id string, _ apicontainer.LogsOptions) (io.ReadCloser, error) {
	var b bytes.Buffer
	for _, l := range f.logs[id] {
		payload := l.ts.UTC().Format(time.RFC3339Nano) + " " + l.body
		var h [8]byte
		h[0] = 1 // stdout
		binary.BigEndian.PutUint32(h[4:], uint32(len(payload)))
		b.Write(h[:])
		b.WriteString(payload)
	}
	return io.NopCloser(&b), nil
}

// TestBugEqualTimestampsLoseContainerOrder runs `docker logql query '{}'`
// (engine + renderer, the real code path of queryCmd) over two containers.
//
// Each container logged an ordinary line, then one long line that the Docker
// daemon split into three partial records carrying the SAME timestamp (this is
// what dockerd does for lines over 16KiB), then another ordinary line. Each
// container's log is time-ordered.
//
// The violation depends on Go's randomised map iteration order, so the query
// is repeated up to 200 times; the test fails on the first run whose output
// does not keep a container's own record order.
func TestBugEqualTimestampsLoseContainerOrder(t *testing.T) {
	base := time.Date(2024, 5, 1, 12, 0, 0, 0, time.UTC)
	mk := func(off time.Duration) []demoLine {
		t0 := base.Add(off)
		return []demoLine{
			{t0, "1-start"},
			{t0.Add(time.Second), "2-chunk-A"},
			{t0.Add(time.Second), "3-chunk-B"},
			{t0.Add(time.Second), "4-chunk-C"},
			{t0.Add(2 * time.Second), "5-end"},
		}
	}
	f := &demoDocker{
		ids: []string{"web", "db"},
		logs: map[string][]demoLine{
			"web": mk(0),
			"db":  mk(100 * time.Millisecond),
		},
	}
	want := map[string][]string{}
	total := 0
	for id, ls := range f.logs {
		for _, l := range ls {
			want[id] = append(want[id], l.body)
			total++
		}
	}

	const runs = 200
	for run := 1; run <= runs; run++ {
		q, err := dockerlog.NewQuerier(f)
		if err != nil {
			t.Fatal(err)
		}
		eng := logqlengine.NewEngine(q, logqlengine.Options{})
		data, err := eng.Eval(context.Background(), `{}`, logqlengine.EvalParams{
			Start: 1,
			End:   2e18,
			Step:  time.Second,
			Limit: -1,
		})
		if err != nil {
			t.Fatal(err)
		}
		var sb strings.Builder
		// Show container names, no timestamps, no colors.
		if err := renderResult(&sb, renderOptions{container: true}, data); err != nil {
			t.Fatal(err)
		}
		lines := strings.Split(strings.TrimSuffix(sb.String(), "\n"), "\n")
		if len(lines) != total {
			t.Fatalf("run %d: %d records in, %d lines out:\n%s", run, total, len(lines), sb.String())
		}

		got := map[string][]string{}
		for _, l := range lines {
			name, msg, _ := strings.Cut(l, " ")
			got[name] = append(got[name], msg)
		}
		for id := range want {
			if strings.Join(got[id], ",") != strings.Join(want[id], ",") {
				t.Fatalf("run %d of %d, query {} over containers web and db, each of which logged\n"+
					"  %v\n"+
					"where the three chunk records share one timestamp.\n"+
					"The property requires the merged result to preserve each container's own order.\n"+
					"Container %q came out as\n  %v\n"+
					"Full output:\n%s",
					run, runs, want[id], id, got[id], sb.String())
			}
		}
	}
}
