package logqlengine

import (
	"testing"

	"go.opentelemetry.io/collector/pdata/pcommon"

	"github.com/tdakkota/docker-logql/internal/logql"
)

func bugLabelFormatOrderRun(t *testing.T, query string, in map[string]string) map[string]string {
	t.Helper()
	expr, err := logql.Parse(query, logql.ParseOptions{})
	if err != nil {
		t.Fatalf("parse %q: %v", query, err)
	}
	le, ok := expr.(*logql.LogExpr)
	if !ok {
		t.Fatalf("query %q: unexpected expression type %T", query, expr)
	}
	p, err := BuildPipeline(le.Pipeline...)
	if err != nil {
		t.Fatalf("build pipeline %q: %v", query, err)
	}
	set := newLabelSet()
	for k, v := range in {
		set.Set(logql.Label(k), pcommon.NewValueStr(v))
	}
	line, keep := p.Process(pcommon.Timestamp(1700000001_000000000), "the line", set)
	if !keep || line != "the line" {
		t.Fatalf("query %s: label_format must not drop or change the line, got line=%q keep=%v", query, line, keep)
	}
	return set.AsMap()
}

// The template is written BEFORE the rename and refers to label b, which exists
// when the stage starts and when the template item is reached.
func TestBugLabelFormatTemplateSeesLabelAlreadyRenamedAway(t *testing.T) {
	query := `{job="x"} | label_format x="{{.b}}", c=b`
	in := map[string]string{"b": "1"}
	out := bugLabelFormatOrderRun(t, query, in)
	if got := out["x"]; got != "1" {
		t.Errorf("query %s on labels %v: the property requires label_format dst=\"template\" to set dst to the template "+
			"expanded over the CURRENT labels; b=\"1\" exists when x=\"{{.b}}\" is reached (the rename c=b is written after it), "+
			"so x must be \"1\", but the program set x=%q (result labels %v): all renames of the stage are executed before any template",
			query, in, got, out)
	}
	if got := out["c"]; got != "1" {
		t.Errorf("query %s on labels %v: c must be \"1\", got %q", query, in, got)
	}
}

// Same root cause, but the template silently picks up a WRONG value instead of an empty one.
func TestBugLabelFormatTemplateSeesValueOfLaterRename(t *testing.T) {
	query := `{job="x"} | label_format x="{{.b}}", b=c`
	in := map[string]string{"b": "old", "c": "new"}
	out := bugLabelFormatOrderRun(t, query, in)
	if got := out["x"]; got != "old" {
		t.Errorf("query %s on labels %v: the property requires x to be the template expanded over the current labels; "+
			"when x=\"{{.b}}\" is reached b is \"old\" (b=c is written after it), so x must be \"old\", "+
			"but the program set x=%q (result labels %v)", query, in, got, out)
	}
	if got := out["b"]; got != "new" {
		t.Errorf("query %s on labels %v: b must be \"new\" after the rename, got %q", query, in, got)
	}
}
