package logqlengine

import (
	"context"
	"fmt"
	"sort"
	"testing"

	"go.opentelemetry.io/collector/pdata/pcommon"

	"github.com/tdakkota/docker-logql/internal/iterators"
	"github.com/tdakkota/docker-logql/internal/logstorage"
	"github.com/tdakkota/docker-logql/internal/otelstorage"
)

// bugIPEqQuerier returns the given lines as records of the stream {job="a"}.
type bugIPEqQuerier struct {
	lines []string
}

func (q *bugIPEqQuerier) Capabilities() (caps QuerierCapabilities) { return caps }

func (q *bugIPEqQuerier) SelectLogs(context.Context, otelstorage.Timestamp, otelstorage.Timestamp, SelectLogsParams) (iterators.Iterator[logstorage.Record], error) {
	var records []logstorage.Record
	for i, line := range q.lines {
		res := pcommon.NewMap()
		res.PutStr("job", "a")
		records = append(records, logstorage.Record{
			Timestamp:     otelstorage.Timestamp(1700000000_000000000 + uint64(i)),
			Body:          line,
			Attrs:         otelstorage.Attrs(pcommon.NewMap()),
			ResourceAttrs: otelstorage.Attrs(res),
		})
	}
	return iterators.Slice(records), nil
}

func bugIPEqEval(query string, lines ...string) ([]string, error) {
	eng := NewEngine(&bugIPEqQuerier{lines: lines}, Options{})
	data, err := eng.Eval(context.Background(), query, EvalParams{
		Start: otelstorage.Timestamp(1700000000_000000000 - 1),
		End:   otelstorage.Timestamp(1700000100_000000000),
		Limit: -1,
	})
	if err != nil {
		return nil, err
	}
	got := []string{}
	for _, s := range data.StreamsResult.Result {
		for _, e := range s.Values {
			got = append(got, e.V)
		}
	}
	sort.Strings(got)
	return got, nil
}

// LogQL spells the IP label filter `label = ip("...")` / `label != ip("...")`
// (Loki grammar: IDENTIFIER EQ IP "(" STRING ")"; documentation, "Matching IP addresses":
// `{job_name="myapp"} | logfmt | remote_addr = ip("192.168.4.5/16")`).
func TestBugIPLabelFilterWithEqIsRejected(t *testing.T) {
	lines := []string{`remote_addr=10.1.2.3 status=200`, `remote_addr=192.168.0.1 status=200`}
	want := []string{`remote_addr=10.1.2.3 status=200`}

	for _, query := range []string{
		`{job="a"} | logfmt | remote_addr = ip("10.0.0.0/8")`,
		`{job="a"} | logfmt | remote_addr = ip("10.0.0.0/8") and status = "200"`,
		`{job="a"} | logfmt | status = "200", remote_addr = ip("10.1.2.3")`,
	} {
		got, err := bugIPEqEval(query, lines...)
		if err != nil {
			t.Errorf("records %q, well-formed query %s\n"+
				"property: the result contains exactly the records that satisfy the query: want %q\n"+
				"got no result, but error: %v",
				lines, query, want, err)
			continue
		}
		if fmt.Sprint(got) != fmt.Sprint(want) {
			t.Errorf("records %q, query %s: want %q, got %q", lines, query, want, got)
		}
	}

	// Control: the engine knows how to evaluate the filter, only the `=` spelling is refused.
	got, err := bugIPEqEval(`{job="a"} | logfmt | remote_addr == ip("10.0.0.0/8")`, lines...)
	if err != nil || fmt.Sprint(got) != fmt.Sprint(want) {
		t.Fatalf("control failed: got %q, err %v", got, err)
	}
}
