package main

import (
	"bytes"
	"context"
	"encoding/binary"
	"fmt"
	"io"
	"strings"
	"testing"
	"time"

	"github.com/docker/docker/api/types"
	apicontainer "github.com/docker/docker/api/types/container"
	"github.com/docker/docker/client"
	"go.opentelemetry.io/collector/pdata/pcommon"

	"github.com/tdakkota/docker-logql/internal/dockerlog"
	"github.com/tdakkota/docker-logql/internal/logql/logqlengine"
)

type bug1Line struct {
	ts  time.Time
	msg string
}

type bug1Ctr struct {
	c     types.Container
	lines []bug1Line
}

// bug1Client is a Docker daemon stand-in: only the two calls the querier makes.
type bug1Client struct {
	client.APIClient
	ctrs []bug1Ctr
}

func (f *bug1Client) ContainerList(context.Context, apicontainer.ListOptions) ([]types.Container, error) {
	var r []types.Container
	for _, c := range f.ctrs {
		r = append(r, c.c)
	}
	return r, nil
}

func (f *bug1Client) ContainerLogs(_ context.Context, id string, _ apicontainer.LogsOptions) (io.ReadCloser, error) {
	for _, c := range f.ctrs {
		if c.c.ID != id {
			continue
		}
		var buf bytes.Buffer
		for _, l := range c.lines {
			// The multiplexed stream of the daemon, with timestamps on.
			payload := l.ts.UTC().Format("2006-01-02T15:04:05.000000000Z07:00") + " " + l.msg
			var hdr [8]byte
			hdr[0] = 1 // stdout
			binary.BigEndian.PutUint32(hdr[4:], uint32(len(payload)))
			buf.Write(hdr[:])
			buf.WriteString(payload)
		}
		return io.NopCloser(&buf), nil
	}
	return nil, fmt.Errorf("no such container %q", id)
}

func bug1Query(t *testing.T, f *bug1Client, query string, opts renderOptions) string {
	t.Helper()
	q, err := dockerlog.NewQuerier(f)
	if err != nil {
		t.Fatal(err)
	}
	eng := logqlengine.NewEngine(q, logqlengine.Options{})
	data, err := eng.Eval(context.Background(), query, logqlengine.EvalParams{
		Start: pcommon.NewTimestampFromTime(time.Date(2024, 1, 1, 0, 0, 0, 0, time.UTC)),
		End:   pcommon.NewTimestampFromTime(time.Date(2024, 1, 2, 0, 0, 0, 0, time.UTC)),
		Limit: -1,
	})
	if err != nil {
		t.Fatalf("eval %s: %v", query, err)
	}
	var out bytes.Buffer
	if err := renderResult(&out, opts, data); err != nil {
		t.Fatalf("render: %v", err)
	}
	return out.String()
}

// Two containers, named "web" and "db", both started with the Docker label
// `container=nginx` (docker run --name web --label container=nginx ...).
// Query: {} , options: container name on, timestamp off, colour off.
func TestBugDockerLabelNamedContainerReplacesTheContainerName(t *testing.T) {
	base := time.Date(2024, 1, 1, 12, 0, 0, 0, time.UTC)
	f := &bug1Client{ctrs: []bug1Ctr{
		{
			c:     types.Container{ID: "id-web", Names: []string{"/web"}, Labels: map[string]string{"container": "nginx"}},
			lines: []bug1Line{{base, "hello from web\n"}},
		},
		{
			c:     types.Container{ID: "id-db", Names: []string{"/db"}, Labels: map[string]string{"container": "nginx"}},
			lines: []bug1Line{{base.Add(time.Second), "hello from db\n"}},
		},
	}}

	got := bug1Query(t, f, `{}`, renderOptions{container: true})
	want := "web hello from web\ndb hello from db\n"
	if got != want {
		t.Errorf("containers /web and /db, each with the Docker label container=nginx, query {} rendered with "+
			"container=on timestamp=off colour=off.\n"+
			"The property requires one line per entry consisting of the container name and the message:\n%q\n"+
			"the program printed the value of the user's Docker label in place of the container name, "+
			"so the two containers cannot be told apart:\n%q", want, got)
	}

	// Same with colour on: the two containers are given a single palette colour,
	// because the colour is keyed by the same overwritten label.
	gotColor := bug1Query(t, f, `{}`, renderOptions{container: true, color: true})
	for _, name := range []string{"web", "db"} {
		if !strings.Contains(gotColor, name+resetColor+" ") {
			t.Errorf("colour on: the name of container %q must appear wrapped in its palette colour, output was %q", name, gotColor)
		}
	}
}
