package logqlengine

import (
	"bytes"
	"context"
	"os"
	"os/exec"
	"strconv"
	"strings"
	"testing"
	"time"

	"go.opentelemetry.io/collector/pdata/pcommon"

	"github.com/tdakkota/docker-logql/internal/iterators"
	"github.com/tdakkota/docker-logql/internal/logstorage"
	"github.com/tdakkota/docker-logql/internal/otelstorage"
)

// bugDemoQuerier returns the given lines as log records, one per 100ms after start.
type bugDemoQuerier struct {
	lines []string
}

func (q *bugDemoQuerier) Capabilities() (caps QuerierCapabilities) { return caps }

func (q *bugDemoQuerier) SelectLogs(_ context.Context, start, _ otelstorage.Timestamp, _ SelectLogsParams) (iterators.Iterator[logstorage.Record], error) {
	var records []logstorage.Record
	ts := start.AsTime()
	for _, l := range q.lines {
		ts = ts.Add(100 * time.Millisecond)
		records = append(records, logstorage.Record{
			Timestamp: otelstorage.NewTimestampFromTime(ts),
			Body:      l,
			Attrs:     otelstorage.Attrs(pcommon.NewMap()),
		})
	}
	return iterators.Slice(records), nil
}

// bugDemoTemplate builds a self-recursive template: `x` invokes itself from inside `nesting`
// nested {{if}} blocks. nesting==0 is the plain `{{define "x"}}{{template "x" .}}{{end}}` mistake.
func bugDemoTemplate(nesting int) string {
	return `{{define "x"}}` +
		strings.Repeat(`{{if 1}}`, nesting) +
		`{{template "x" .}}` +
		strings.Repeat(`{{end}}`, nesting) +
		`{{end}}{{template "x" .}}`
}

func bugDemoEval(query string) (err error) {
	eng := NewEngine(&bugDemoQuerier{lines: []string{"hello"}}, Options{})
	_, err = eng.Eval(context.Background(), query, EvalParams{
		Start: otelstorage.Timestamp(1700000001_000000000),
		End:   otelstorage.Timestamp(1700000003_000000000),
		Step:  time.Second,
		Limit: 100,
	})
	return err
}

const bugDemoChildEnv = "BUG_DEMO_TEMPLATE_CHILD"

// TestBugTemplateRecursionChild is the body that is run in a child process:
// a Go stack overflow is a fatal error that no recover() can intercept, so
// it cannot be observed from inside the process that suffers it.
func TestBugTemplateRecursionChild(t *testing.T) {
	stage := os.Getenv(bugDemoChildEnv)
	if stage == "" {
		t.Skip("helper for TestBugTemplateRecursionKillsProcess")
	}
	query := `{} | ` + stage + ` ` + strconv.Quote(bugDemoTemplate(40))
	err := bugDemoEval(query)
	// Reaching this line at all is what the property requires.
	t.Logf("CHILD-SURVIVED err=%v", err)
}

// TestBugTemplateRecursionKillsProcess: a ~700 byte query with a self-recursive template
// kills the whole process with "fatal error: stack overflow" on the first log line.
func TestBugTemplateRecursionKillsProcess(t *testing.T) {
	// Sanity: the same mistake without the nested {{if}} blocks is handled (text/template stops
	// at its 100000 level limit and the engine turns that into an __error__ label).
	plain := `{} | line_format ` + strconv.Quote(bugDemoTemplate(0))
	if err := bugDemoEval(plain); err != nil {
		t.Logf("plain recursion: error %v", err)
	} else {
		t.Logf("plain recursion: handled, evaluation returned a result")
	}

	for _, stage := range []string{"line_format", "label_format foo="} {
		query := `{} | ` + stage + ` ` + strconv.Quote(bugDemoTemplate(40))

		cmd := exec.Command(os.Args[0], "-test.run=^TestBugTemplateRecursionChild$", "-test.v", "-test.timeout=5m")
		cmd.Env = append(os.Environ(), bugDemoChildEnv+"="+stage)
		var out bytes.Buffer
		cmd.Stdout = &out
		cmd.Stderr = &out
		runErr := cmd.Run()

		output := out.String()
		survived := strings.Contains(output, "CHILD-SURVIVED")
		overflow := strings.Contains(output, "stack overflow")
		if len(output) > 600 {
			output = output[:600] + "..."
		}
		switch {
		case runErr == nil && survived:
			t.Logf("stage %q: evaluation returned, property holds", stage)
		default:
			t.Errorf("query (%d bytes) %s\nevaluated over the single log line \"hello\".\n"+
				"Property: \"evaluation terminates and returns either a result or an error; it never panics. "+
				"Mistakes in user input (... template ...) are reported as errors\".\n"+
				"Observed: the process evaluating the query died (exit: %v, fatal stack overflow: %v, returned: %v). Output head:\n%s",
				len(query), query, runErr, overflow, survived, output)
		}
	}
}
