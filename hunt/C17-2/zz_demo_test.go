package logqlengine

import (
	"bytes"
	"context"
	"os"
	"os/exec"
	"strings"
	"syscall"
	"testing"
	"time"

	"go.opentelemetry.io/collector/pdata/pcommon"

	"github.com/tdakkota/docker-logql/internal/iterators"
	"github.com/tdakkota/docker-logql/internal/logstorage"
	"github.com/tdakkota/docker-logql/internal/otelstorage"
)

// bugAlignQuerier returns the given lines as log records, one per 100ms after start.
type bugAlignQuerier struct {
	lines []string
}

func (q *bugAlignQuerier) Capabilities() (caps QuerierCapabilities) { return caps }

func (q *bugAlignQuerier) SelectLogs(_ context.Context, start, _ otelstorage.Timestamp, _ SelectLogsParams) (iterators.Iterator[logstorage.Record], error) {
	var records []logstorage.Record
	ts := start.AsTime()
	for _, l := range q.lines {
		ts = ts.Add(100 * time.Millisecond)
		records = append(records, logstorage.Record{
			Timestamp: otelstorage.NewTimestampFromTime(ts),
			Body:      l,
			Attrs:     otelstorage.Attrs(pcommon.NewMap()),
		})
	}
	return iterators.Slice(records), nil
}

type bugAlignCase struct {
	name  string
	query string
	line  string
}

var bugAlignCases = []bugAlignCase{
	{
		// The width is a constant in the query.
		name:  "const-alignLeft",
		query: `{} | line_format "{{ alignLeft 100000000000000 .msg }}"`,
		line:  `hello`,
	},
	{
		name:  "const-alignRight",
		query: `{} | line_format "{{ alignRight 100000000000000 .msg }}"`,
		line:  `hello`,
	},
	{
		// The width comes from the LOG CONTENT: the query itself is sane,
		// one log line with an extreme number kills the evaluation.
		name:  "width-from-log-line",
		query: `{} | json | line_format "{{ alignLeft (int .width) .text }}"`,
		line:  `{"width": 100000000000000, "text": "hello"}`,
	},
}

const bugAlignChildEnv = "BUG_DEMO_ALIGN_CHILD"

// TestBugAlignChild is run in a child process, because "fatal error: runtime: out of memory"
// cannot be recovered and kills the process that suffers it.
func TestBugAlignChild(t *testing.T) {
	name := os.Getenv(bugAlignChildEnv)
	if name == "" {
		t.Skip("helper for TestBugAlignPaddingKillsProcess")
	}
	// Safety net only: whatever the overcommit policy of the machine is, never let this
	// child really touch more than 8 GiB. The padding requested below is ~100 TB.
	lim := syscall.Rlimit{Cur: 8 << 30, Max: 8 << 30}
	if err := syscall.Setrlimit(syscall.RLIMIT_AS, &lim); err != nil {
		t.Logf("setrlimit: %v", err)
	}

	for _, c := range bugAlignCases {
		if c.name != name {
			continue
		}
		eng := NewEngine(&bugAlignQuerier{lines: []string{c.line}}, Options{})
		_, err := eng.Eval(context.Background(), c.query, EvalParams{
			Start: otelstorage.Timestamp(1700000001_000000000),
			End:   otelstorage.Timestamp(1700000003_000000000),
			Step:  time.Second,
			Limit: 100,
		})
		// Reaching this line at all is what the property requires.
		t.Logf("CHILD-SURVIVED err=%v", err)
	}
}

// TestBugAlignPaddingKillsProcess: alignLeft/alignRight pad to any width they are given.
// A width of 1e14 (from the query or from a log line) makes strings.Repeat ask the runtime for
// ~100 TB, which ends in the unrecoverable "fatal error: runtime: out of memory".
// (A width of 1e15 is handled: makeslice panics, text/template recovers, __error__ is set.)
func TestBugAlignPaddingKillsProcess(t *testing.T) {
	for _, c := range bugAlignCases {
		cmd := exec.Command(os.Args[0], "-test.run=^TestBugAlignChild$", "-test.v", "-test.timeout=5m")
		cmd.Env = append(os.Environ(), bugAlignChildEnv+"="+c.name)
		var out bytes.Buffer
		cmd.Stdout = &out
		cmd.Stderr = &out
		runErr := cmd.Run()

		output := out.String()
		survived := strings.Contains(output, "CHILD-SURVIVED")
		oom := strings.Contains(output, "out of memory")
		if len(output) > 500 {
			output = output[:500] + "..."
		}
		if runErr == nil && survived {
			t.Logf("%s: evaluation returned, property holds", c.name)
			continue
		}
		t.Errorf("%s: query %s evaluated over the single log line %q.\n"+
			"Property: \"evaluation terminates and returns either a result or an error; it never panics ... "+
			"malformed log lines degrade to error labels, not to crashes\" (log contents include \"extreme numbers\").\n"+
			"Observed: the process evaluating the query died (exit: %v, fatal out of memory: %v, returned: %v). Output head:\n%s",
			c.name, c.query, c.line, runErr, oom, survived, output)
	}
}
