package logqlengine

import (
	"context"
	"fmt"
	"sort"
	"strings"
	"testing"
	"time"

	"go.opentelemetry.io/collector/pdata/pcommon"

	"github.com/tdakkota/docker-logql/internal/iterators"
	"github.com/tdakkota/docker-logql/internal/logstorage"
	"github.com/tdakkota/docker-logql/internal/otelstorage"
)

// zzBugQuerier returns the given records; it supports no pushdown, so the engine
// applies the stream selector itself (prefilter built by extractQueryConditions).
type zzBugQuerier struct {
	records []logstorage.Record
}

func (q *zzBugQuerier) Capabilities() (caps QuerierCapabilities) { return caps }

func (q *zzBugQuerier) SelectLogs(context.Context, otelstorage.Timestamp, otelstorage.Timestamp, SelectLogsParams) (iterators.Iterator[logstorage.Record], error) {
	return iterators.Slice(q.records), nil
}

func zzBugEval(t *testing.T, records []logstorage.Record, at time.Time, query string) []string {
	t.Helper()
	eng := NewEngine(&zzBugQuerier{records: records}, Options{})
	ts := otelstorage.NewTimestampFromTime(at)
	data, err := eng.Eval(context.Background(), query, EvalParams{Start: ts, End: ts})
	if err != nil {
		t.Fatalf("query %s: %v", query, err)
	}
	v, ok := data.GetVectorResult()
	if !ok {
		t.Fatalf("query %s: result is %q, not a vector", query, data.Type)
	}
	var out []string
	for _, s := range v.Result {
		var kv []string
		for k, val := range s.Metric.Value {
			kv = append(kv, fmt.Sprintf("%s=%q", k, val))
		}
		sort.Strings(kv)
		out = append(out, fmt.Sprintf("{%s} => %s", strings.Join(kv, ","), s.Value.V))
	}
	sort.Strings(out)
	return out
}

// Two containers, as dockerlog would deliver them: one was started with
// `--label foo` (Docker stores the label with the empty value), the other has no
// label foo at all. A label with the empty value is the same thing as a label that
// is not there: this is the PromQL/LogQL data model, and it is the convention the
// rest of this program follows (dockerlog.containerLabels.Match: "A label the
// container does not have behaves as the empty string"; LabelMatcher.Process reads
// a missing label as ""; label_replace deletes a label whose new value is empty).
// So both series have the same combination of retained labels under by (foo):
// the empty one. The property requires ONE series per distinct combination.
func TestBugByGroupsEmptyValuedLabelApartFromMissingLabel(t *testing.T) {
	at := time.Unix(1700000000, 0)
	rec := func(d time.Duration, kv ...string) logstorage.Record {
		res := pcommon.NewMap()
		for i := 0; i < len(kv); i += 2 {
			res.PutStr(kv[i], kv[i+1])
		}
		return logstorage.Record{
			Timestamp:     otelstorage.NewTimestampFromTime(at.Add(-d)),
			Body:          "hello",
			Attrs:         otelstorage.Attrs(pcommon.NewMap()),
			ScopeAttrs:    otelstorage.Attrs(pcommon.NewMap()),
			ResourceAttrs: otelstorage.Attrs(res),
		}
	}
	records := []logstorage.Record{
		rec(3*time.Second, "container", "c1", "foo", ""), // docker run --label foo
		rec(2*time.Second, "container", "c2"),            // no label foo
	}

	// The selector {foo=""} keeps both records: the engine itself says that both have foo="".
	const sel = `{foo=""}`
	perSeries := zzBugEval(t, records, at, `count_over_time(`+sel+`[1m])`)
	if len(perSeries) != 2 {
		t.Fatalf("precondition: selector %s should select both containers, got %v", sel, perSeries)
	}

	for _, tc := range []struct {
		query string
		want  string
	}{
		{`sum by (foo) (count_over_time(` + sel + `[1m]))`, `one series with value 2`},
		{`count by (foo) (count_over_time(` + sel + `[1m]))`, `one series with value 2`},
		{`sum without (container, msg) (count_over_time(` + sel + `[1m]))`, `one series with value 2`},
		{`topk(1, count_over_time(` + sel + `[1m])) by (foo)`, `one series (k=1, one group)`},
	} {
		got := zzBugEval(t, records, at, tc.query)
		if len(got) != 1 {
			t.Errorf("input: container c1 with label foo=\"\" and container c2 without label foo (both selected by %s, one log line each)\n"+
				"query: %s\n"+
				"property: one series per distinct combination of the retained labels; the empty value and the missing label are the same combination, so %s\n"+
				"program: reported %d series: %v",
				sel, tc.query, tc.want, len(got), got)
		}
	}
}

// The same through a parser stage: `| logfmt` on `user= ...` creates the label with
// the empty value, a line without the key creates none; `| user=""` keeps both.
func TestBugByGroupsEmptyValuedLabelFromLogfmt(t *testing.T) {
	at := time.Unix(1700000000, 0)
	rec := func(d time.Duration, line string) logstorage.Record {
		res := pcommon.NewMap()
		res.PutStr("container", "c1")
		return logstorage.Record{
			Timestamp:     otelstorage.NewTimestampFromTime(at.Add(-d)),
			Body:          line,
			Attrs:         otelstorage.Attrs(pcommon.NewMap()),
			ScopeAttrs:    otelstorage.Attrs(pcommon.NewMap()),
			ResourceAttrs: otelstorage.Attrs(res),
		}
	}
	records := []logstorage.Record{
		rec(3*time.Second, `user= path=/a`),
		rec(2*time.Second, `path=/b`),
	}
	query := `sum by (user) (count_over_time({container="c1"} | logfmt | user="" [1m]))`
	got := zzBugEval(t, records, at, query)
	if len(got) != 1 {
		t.Errorf("input lines: `user= path=/a` and `path=/b` (the filter | user=\"\" keeps both)\n"+
			"query: %s\n"+
			"property: one series per distinct combination of the retained labels, i.e. one series {} (or {user=\"\"}) with value 2\n"+
			"program: reported %d series: %v", query, len(got), got)
	}
}
