package main

import (
	"bytes"
	"fmt"
	"strings"
	"testing"

	"github.com/tdakkota/docker-logql/internal/lokiapi"
)

// TestBugEqualTimestampsOfOneContainerAreScrambled: two containers, seven
// entries each, every stream already in emission order; within a container
// groups of four consecutive lines carry the same timestamp (a burst written
// within one clock tick). Rendering must print the entries "ordered by
// timestamp across all containers"; for entries of ONE container with EQUAL
// timestamps the only order consistent with "time order" is the order in which
// the container emitted them (that is the order the result carries them in).
// renderResult sorts with the unstable slices.SortFunc, so the burst comes out
// as a02 a03 a01 a00.
//
// The result is deterministic: pdqsort's pivot "randomisation" is seeded from
// the slice length only.
func TestBugEqualTimestampsOfOneContainerAreScrambled(t *testing.T) {
	const n = 7
	mkStream := func(name string) lokiapi.Stream {
		s := lokiapi.Stream{
			Stream: lokiapi.NewOptLabelSet(lokiapi.LabelSet{"container": name}),
		}
		for i := 0; i < n; i++ {
			s.Values = append(s.Values, lokiapi.LogEntry{
				T: uint64(1_700_000_000_000_000_000 + i/4), // 4 lines per tick
				V: fmt.Sprintf("%s line %02d\n", name, i),
			})
		}
		return s
	}
	data := lokiapi.QueryResponseData{
		Type: lokiapi.StreamsResultQueryResponseData,
		StreamsResult: lokiapi.StreamsResult{
			Result: lokiapi.Streams{mkStream("a"), mkStream("b")},
		},
	}

	for _, opts := range []renderOptions{
		{},
		{container: true},
		{timestamp: true, container: true},
		{timestamp: true, container: true, color: true},
	} {
		var out bytes.Buffer
		if err := renderResult(&out, opts, data); err != nil {
			t.Fatalf("opts=%+v: render failed: %v", opts, err)
		}
		lines := strings.Split(strings.TrimSuffix(out.String(), "\n"), "\n")
		if len(lines) != 2*n {
			t.Fatalf("opts=%+v: want %d lines, got %d", opts, 2*n, len(lines))
		}
		for _, name := range []string{"a", "b"} {
			var got, want []string
			for _, l := range lines {
				if idx := strings.Index(l, name+" line "); idx >= 0 {
					got = append(got, l[idx:])
				}
			}
			for i := 0; i < n; i++ {
				want = append(want, fmt.Sprintf("%s line %02d", name, i))
			}
			if strings.Join(got, "|") != strings.Join(want, "|") {
				t.Errorf("opts=%+v: input: containers a and b, %d entries each, already in emission order, "+
					"timestamps T0,T0,T0,T0,T0+1,T0+1,T0+1 (equal timestamps inside a container).\n"+
					"property requires: one line per entry in time order; lines of one container that share a timestamp "+
					"must stay in the order the container wrote them.\n"+
					"program printed container %q as:\n  %s\nwant:\n  %s\nfull output:\n%s",
					opts, n, name, strings.Join(got, "\n  "), strings.Join(want, "\n  "), out.String())
			}
		}
	}
}
