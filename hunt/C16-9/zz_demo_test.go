package main

import (
	"testing"
	"time"

	"github.com/tdakkota/docker-logql/internal/lokiapi"
)

// parseTimestamp decides "seconds or nanoseconds" from len(value) <= 10, i.e.
// from the number of CHARACTERS, although strconv.ParseInt has already
// accepted a sign and leading zeros. A ten-digit unix-seconds value (every
// instant from 2001-09-09 to 2286) written with an explicit "+" or a leading
// zero is therefore neither rejected as malformed nor read as seconds: it is
// silently read as nanoseconds, 1.7 seconds after the epoch.
func TestBugSignedSecondsReadAsNanoseconds(t *testing.T) {
	want := time.Unix(1700000000, 0) // 2023-11-14T22:13:20Z
	now := time.Unix(1790000000, 0)

	for _, in := range []string{"+1700000000", "01700000000"} {
		// the same spelling with a fraction IS read as seconds
		if got, err := parseTimestamp(lokiapi.LokiTime(in+".0"), time.Time{}); err != nil || !got.Equal(want) {
			t.Fatalf("sanity: %q resolved to %v (err=%v), want %v", in+".0", got.UTC(), err, want.UTC())
		}

		start, end, err := parseTimeRange(
			now,
			lokiapi.NewOptLokiTime(lokiapi.LokiTime(in)),
			lokiapi.NewOptLokiTime("1700003600"),
			lokiapi.OptPrometheusDuration{},
		)
		if err != nil {
			// Rejecting the spelling would satisfy the property ("malformed values are rejected").
			continue
		}
		if !start.Equal(want) {
			t.Errorf("--start=%s --end=1700003600: the value is accepted, so the property requires it to denote the "+
				"unix-seconds instant %s (as --start=%s.0 and --start=1700000000 do), or else to be rejected as malformed; "+
				"the program silently resolved it to %s (read as %d NANOseconds), making the range %v long instead of 1h "+
				"and the default step %v instead of 14s",
				in, want.UTC().Format(time.RFC3339), in,
				start.UTC().Format(time.RFC3339Nano), start.UnixNano(), end.Sub(start), defaultStep(start, end))
		}
	}

	// Same root cause the other way round: nine-digit seconds (2001-01-01 .. 2001-09-08) with a sign stay seconds,
	// so "+" does not consistently mean anything.
	if got, err := parseTimestamp("+978307200", time.Time{}); err != nil || !got.Equal(time.Unix(978307200, 0)) {
		t.Logf("note: +978307200 -> %v err=%v", got.UTC(), err)
	}
}
