package logqlengine

import (
	"context"
	"sort"
	"strconv"
	"strings"
	"testing"
	"time"

	"go.opentelemetry.io/collector/pdata/pcommon"

	"github.com/tdakkota/docker-logql/internal/iterators"
	"github.com/tdakkota/docker-logql/internal/logql"
	"github.com/tdakkota/docker-logql/internal/logql/logqlengine/logqlmetric"
	"github.com/tdakkota/docker-logql/internal/logstorage"
	"github.com/tdakkota/docker-logql/internal/otelstorage"
)

type bugReplaceRecord struct {
	ts     time.Time
	labels [][2]string
}

// bugReplaceQuerier serves a fixed, time-ordered list of records with the given attributes.
type bugReplaceQuerier struct {
	records []bugReplaceRecord
}

func (q *bugReplaceQuerier) Capabilities() (caps QuerierCapabilities) { return caps }

func (q *bugReplaceQuerier) SelectLogs(context.Context, otelstorage.Timestamp, otelstorage.Timestamp, SelectLogsParams) (iterators.Iterator[logstorage.Record], error) {
	var records []logstorage.Record
	for _, r := range q.records {
		attrs := pcommon.NewMap()
		for _, kv := range r.labels {
			attrs.PutStr(kv[0], kv[1])
		}
		records = append(records, logstorage.Record{
			Timestamp: otelstorage.NewTimestampFromTime(r.ts),
			Attrs:     otelstorage.Attrs(attrs),
		})
	}
	return iterators.Slice(records), nil
}

func bugReplaceRender(m map[string]string) string {
	keys := make([]string, 0, len(m))
	for k := range m {
		keys = append(keys, k)
	}
	sort.Strings(keys)
	var sb strings.Builder
	sb.WriteByte('{')
	for i, k := range keys {
		if i > 0 {
			sb.WriteByte(',')
		}
		sb.WriteString(k + "=" + strconv.Quote(m[k]))
	}
	sb.WriteByte('}')
	return sb.String()
}

// Part 1: the grouping key of an aggregatedLabels depends on HOW the label set was built
// (label_replace appends the new label at the end of the entry list, every other path keeps
// the list sorted by name), not only on the label set.
func TestBugLabelReplaceKeyDependsOnHistory(t *testing.T) {
	native := newLabelSet()
	native.Set("app", pcommon.NewValueStr("web"))
	native.Set("svc", pcommon.NewValueStr("web"))
	a := newAggregatedLabels(native, nil, nil)

	partial := newLabelSet()
	partial.Set("svc", pcommon.NewValueStr("web"))
	re, err := logql.Parse(`label_replace(count_over_time({}[1m]), "app", "$1", "svc", "(.*)")`, logql.ParseOptions{})
	if err != nil {
		t.Fatal(err)
	}
	lr := re.(*logql.LabelReplaceExpr)
	b := newAggregatedLabels(partial, nil, nil).Replace(lr.DstLabel, lr.Replacement, lr.SrcLabel, lr.Re)

	la, lb := bugReplaceRender(a.AsLokiAPI()), bugReplaceRender(b.AsLokiAPI())
	if la != lb {
		t.Fatalf("test is broken: label sets differ: %s vs %s", la, lb)
	}
	if a.Key() != b.Key() {
		t.Errorf("label set A = %s (materialised from a record) and label set B = %s "+
			"(record {svc=\"web\"} after label_replace(_, \"app\", \"$1\", \"svc\", \"(.*)\")) are EQUAL, "+
			"so the property requires them to identify the same series (\"samples carrying equal label sets ... "+
			"always contribute to the same series\"), but their grouping keys differ: %d vs %d",
			la, lb, a.Key(), b.Key())
	}
}

// Part 2: the same thing through the metric pipeline:
//
//	sum without (svc) (label_replace(count_over_time({}[1m]), "app", "$1", "svc", "(.*)-.*"))
//
// logqlmetric.Build does not wire LabelReplaceExpr yet ("not supported yet"), so the test
// assembles exactly the chain Build would assemble: range aggregation (real engine sampler)
// -> logqlmetric.LabelReplace -> logqlmetric.VectorAggregation -> logqlmetric.ReadStepResponse.
func TestBugLabelReplaceDuplicateSeries(t *testing.T) {
	const query = `sum without (svc) (label_replace(count_over_time({}[1m]), "app", "$1", "svc", "(.*)-.*"))`

	base := time.Unix(1700000000, 0)
	q := &bugReplaceQuerier{records: []bugReplaceRecord{
		// already has app="web": label_replace overwrites the entry in place.
		{ts: base.Add(10 * time.Second), labels: [][2]string{{"app", "web"}, {"svc", "web-1"}, {"zone", "z"}}},
		// has no app label: label_replace appends app="web" after zone.
		{ts: base.Add(20 * time.Second), labels: [][2]string{{"svc", "web-2"}, {"zone", "z"}}},
	}}
	eng := NewEngine(q, Options{})
	at := base.Add(60 * time.Second)
	params := EvalParams{
		Start: otelstorage.NewTimestampFromTime(at),
		End:   otelstorage.NewTimestampFromTime(at),
	}

	expr, err := logql.Parse(query, logql.ParseOptions{})
	if err != nil {
		t.Fatal(err)
	}
	va := expr.(*logql.VectorAggregationExpr)
	lr := logql.UnparenExpr(va.Expr).(*logql.LabelReplaceExpr)

	ctx := context.Background()
	rangeIter, err := logqlmetric.Build(lr.Expr, eng.sampleSelector(ctx, params), logqlmetric.EvalParams{Start: at, End: at})
	if err != nil {
		t.Fatal(err)
	}
	defer func() { _ = rangeIter.Close() }()
	replaced, err := logqlmetric.LabelReplace(rangeIter, lr)
	if err != nil {
		t.Fatal(err)
	}
	summed, err := logqlmetric.VectorAggregation(replaced, va)
	if err != nil {
		t.Fatal(err)
	}
	data, err := logqlmetric.ReadStepResponse(summed, true)
	if err != nil {
		t.Fatal(err)
	}
	vec, ok := data.GetVectorResult()
	if !ok {
		t.Fatalf("expected a vector result, got %q", data.Type)
	}

	seen := map[string]int{}
	var rendered []string
	for _, s := range vec.Result {
		k := bugReplaceRender(s.Metric.Value)
		seen[k]++
		rendered = append(rendered, k+" => "+s.Value.V)
	}
	sort.Strings(rendered)

	want := `{app="web",zone="z"}`
	if len(vec.Result) != 1 || seen[want] != 1 || vec.Result[0].Value.V != "2" {
		t.Errorf("query %s\nover records {app=\"web\",svc=\"web-1\",zone=\"z\"} and {svc=\"web-2\",zone=\"z\"}:\n"+
			"after label_replace and `without (svc)` both samples carry the label set %s, so the property requires "+
			"ONE series %s => 2 (\"no result contains two series with the same label set\").\n"+
			"The program returned %d series: %v",
			query, want, want, len(vec.Result), rendered)
	}
}
