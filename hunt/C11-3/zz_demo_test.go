package logqlmetric

import (
	"math"
	"testing"

	"github.com/tdakkota/docker-logql/internal/iterators"
	"github.com/tdakkota/docker-logql/internal/logql"
)

func zzDemoAvg(t *testing.T, values []float64) float64 {
	t.Helper()
	var in []Sample
	for _, v := range values {
		in = append(in, Sample{Data: v, Set: &emptyLabels{}})
	}
	iter, err := VectorAggregation(
		iterators.Slice([]Step{{Timestamp: 1, Samples: in}}),
		&logql.VectorAggregationExpr{Op: logql.VectorOpAvg},
	)
	if err != nil {
		t.Fatal(err)
	}
	var r Step
	if !iter.Next(&r) {
		t.Fatal("no step returned")
	}
	if len(r.Samples) != 1 {
		t.Fatalf("avg without grouping must return exactly one series, got %d", len(r.Samples))
	}
	return r.Samples[0].Data
}

// avg over a group of FINITE values must be the arithmetic mean of exactly these values; in
// particular it is finite and lies between the smallest and the largest input.
// avg(1e308, -1e308) is exactly 0 (sum() of the same vector returns 0), avg(1e308, -1e308, 6) is 2.
// The program returns -Inf for both, and +Inf when the two big series are visited in the other order.
func TestBugAvgOfFiniteValuesIsInfinite(t *testing.T) {
	for _, tt := range []struct {
		values []float64
		want   float64
	}{
		{[]float64{1e308, -1e308}, 0},
		{[]float64{-1e308, 1e308}, 0},
		{[]float64{1e308, -1e308, 6}, 2},
		{[]float64{9e307, -9e307, 3, 3}, 1.5},
	} {
		got := zzDemoAvg(t, tt.values)
		lo, hi := math.Inf(1), math.Inf(-1)
		for _, v := range tt.values {
			lo, hi = math.Min(lo, v), math.Max(hi, v)
		}
		if math.IsInf(got, 0) || math.IsNaN(got) || got < lo || got > hi || math.Abs(got-tt.want) > 1e-6 {
			t.Errorf("avg(%v): all inputs are finite, the property requires the aggregate (mean) of exactly "+
				"these series = %v, which lies in [%v, %v]; the program returned %v",
				tt.values, tt.want, lo, hi, got)
		}
	}
}
