package dockerlog

import (
	"bytes"
	"context"
	"encoding/binary"
	"errors"
	"fmt"
	"io"
	"testing"
	"time"

	"github.com/docker/docker/api/types"
	apicontainer "github.com/docker/docker/api/types/container"
	"github.com/docker/docker/client"
	"go.opentelemetry.io/collector/pdata/pcommon"

	"github.com/tdakkota/docker-logql/internal/logql/logqlengine"
)

// bug1Client is a Docker daemon double: three containers, two of which cannot
// serve their logs (the daemon answers `docker logs` for a container run with
// --log-driver=none/syslog/... with exactly this error).
type bug1Client struct {
	client.APIClient
	// delay of the ContainerLogs answer, per container ID: it only decides in
	// which order the concurrent per-container requests complete.
	delay map[string]time.Duration
}

var errBug1NoLogs = errors.New("configured logging driver does not support reading")

func (c *bug1Client) ContainerList(context.Context, apicontainer.ListOptions) ([]types.Container, error) {
	return []types.Container{
		{ID: "aaa", Names: []string{"/alpha"}},
		{ID: "bbb", Names: []string{"/beta"}},
		{ID: "ccc", Names: []string{"/gamma"}},
	}, nil
}

func (c *bug1Client) ContainerLogs(_ context.Context, id string, _ apicontainer.LogsOptions) (io.ReadCloser, error) {
	time.Sleep(c.delay[id])
	switch id {
	case "aaa", "bbb":
		return nil, errBug1NoLogs
	default:
		payload := "2023-11-14T22:13:21.000000001Z hello\n"
		var header [8]byte
		header[0] = 1 // stdout
		binary.BigEndian.PutUint32(header[4:], uint32(len(payload)))
		return io.NopCloser(bytes.NewReader(append(header[:], payload...))), nil
	}
}

func bug1Query(t *testing.T, delay map[string]time.Duration) string {
	t.Helper()
	q, err := NewQuerier(&bug1Client{delay: delay})
	if err != nil {
		t.Fatal(err)
	}
	eng := logqlengine.NewEngine(q, logqlengine.Options{})
	_, err = eng.Eval(context.Background(), `{}`, logqlengine.EvalParams{
		Start: pcommon.NewTimestampFromTime(time.Unix(1700000000, 0)),
		End:   pcommon.NewTimestampFromTime(time.Unix(1700000060, 0)),
		Step:  time.Second,
		Limit: -1,
	})
	if err == nil {
		t.Fatal("the query is expected to fail: containers aaa and bbb cannot serve logs")
	}
	return err.Error()
}

// TestBugErrorDependsOnCompletionOrder runs the query `{}` twice over the same
// three containers (aaa and bbb refuse to serve logs, ccc has one line). The
// only difference between the two runs is which of the two failing requests
// completes first (the later one lags 150ms behind, so the order is fixed).
func TestBugErrorDependsOnCompletionOrder(t *testing.T) {
	const lag = 150 * time.Millisecond

	aFirst := bug1Query(t, map[string]time.Duration{"bbb": lag})
	bFirst := bug1Query(t, map[string]time.Duration{"aaa": lag})

	if aFirst != bFirst {
		t.Errorf("query `{}` over containers aaa (logs unreadable), bbb (logs unreadable), ccc (one line):\n"+
			"the property requires the same answer regardless of how the concurrent per-container requests are scheduled,\n"+
			"but the outcome of the query depends on which request completes first:\n"+
			"  aaa's request completes first: %s\n"+
			"  bbb's request completes first: %s",
			aFirst, bFirst)
	}

	// The same thing without any steering, just by repetition (bounded): the
	// goroutine scheduler alone makes the answer vary.
	seen := map[string]int{}
	for i := 0; i < 5000 && len(seen) < 2; i++ {
		seen[bug1Query(t, nil)]++
	}
	if len(seen) > 1 {
		msg := ""
		for k, n := range seen {
			msg += fmt.Sprintf("\n  %dx %s", n, k)
		}
		t.Errorf("query `{}` repeated with no delays at all (up to 5000 times, stopped at the first difference) gave different answers:%s", msg)
	}
}
