package main

import (
	"bytes"
	"strings"
	"testing"

	"github.com/tdakkota/docker-logql/internal/lokiapi"
)

// TestBugEmbeddedLineBreakSplitsEntry: one container, two entries; the first
// message contains an embedded LF (reachable from the CLI with e.g.
//
//	docker logql query '{container="web"} | line_format "{{ __line__ }}\ncontinued"'
//
// ). The property requires exactly one output line per entry, each line
// consisting of [container] [timestamp] message. renderResult only trims
// TRAILING CR/LF, so the entry is written as two output lines and the second
// one carries neither the container name nor the timestamp.
func TestBugEmbeddedLineBreakSplitsEntry(t *testing.T) {
	const t0 = uint64(1_700_000_000_000_000_000)
	entries := []lokiapi.LogEntry{
		{T: t0, V: "first half\nsecond half\n"},
		{T: t0 + 1, V: "plain\r\n"},
	}
	data := lokiapi.QueryResponseData{
		Type: lokiapi.StreamsResultQueryResponseData,
		StreamsResult: lokiapi.StreamsResult{
			Result: lokiapi.Streams{{
				Stream: lokiapi.NewOptLabelSet(lokiapi.LabelSet{"container": "web"}),
				Values: entries,
			}},
		},
	}

	for _, opts := range []renderOptions{
		{},
		{container: true},
		{timestamp: true},
		{timestamp: true, container: true},
		{timestamp: true, container: true, color: true},
	} {
		var out bytes.Buffer
		if err := renderResult(&out, opts, data); err != nil {
			t.Fatalf("opts=%+v: render failed: %v", opts, err)
		}
		lines := strings.Split(strings.TrimSuffix(out.String(), "\n"), "\n")
		if len(lines) != len(entries) {
			t.Errorf("opts=%+v: input: container \"web\" with %d entries, messages %q and %q.\n"+
				"property requires: exactly one output line per entry (embedded CR/LF are in scope).\n"+
				"program wrote %d output lines: %q",
				opts, len(entries), entries[0].V, entries[1].V, len(lines), lines)
			continue
		}
		if opts.container {
			for i, l := range lines {
				if !strings.Contains(l, "web") {
					t.Errorf("opts=%+v: output line %d %q lacks the container name", opts, i, l)
				}
			}
		}
	}
}
