package logqlengine

import (
	"context"
	"fmt"
	"testing"
	"time"

	"github.com/tdakkota/docker-logql/internal/iterators"
	"github.com/tdakkota/docker-logql/internal/logql"
	"github.com/tdakkota/docker-logql/internal/logstorage"
	"github.com/tdakkota/docker-logql/internal/otelstorage"
)

type zzDemoQuerier struct{}

func (zzDemoQuerier) Capabilities() (caps QuerierCapabilities) { return caps }

func (zzDemoQuerier) SelectLogs(context.Context, otelstorage.Timestamp, otelstorage.Timestamp, SelectLogsParams) (iterators.Iterator[logstorage.Record], error) {
	return iterators.Slice[logstorage.Record](nil), nil
}

// zzDemoEval evaluates a metric query over three steps and renders the result
// as "<empty>" or the value of the single series at the first step.
func zzDemoEval(q string) (string, error) {
	e := NewEngine(zzDemoQuerier{}, Options{ParseOptions: logql.ParseOptions{AllowDots: true}})
	data, err := e.Eval(context.Background(), q, EvalParams{
		Start: otelstorage.Timestamp(1700000001_000000000),
		End:   otelstorage.Timestamp(1700000003_000000000),
		Step:  time.Second,
		Limit: 1000,
	})
	if err != nil {
		return "", err
	}
	m, ok := data.GetMatrixResult()
	if !ok {
		return "", fmt.Errorf("result is %v, not a matrix", data.Type)
	}
	switch {
	case len(m.Result) == 0:
		return "<empty>", nil
	case len(m.Result) != 1 || len(m.Result[0].Values) != 3:
		return "", fmt.Errorf("unexpected result shape %+v", m.Result)
	}
	return m.Result[0].Values[0].V, nil
}

// A logical operator (or / and / unless) has the LOWEST precedence, so in
//
//	vector(A) <logic> K <arith-or-cmp> vector(B)
//
// the right operand of the logical operator is the vector (K <op> vector(B)),
// exactly as if it were parenthesised. The parser however checks "is the right
// operand a scalar?" right after reading the first primary K, i.e. before the
// tighter-binding operator had a chance to take K, and rejects the query.
func TestBugLogicalOpRejectsTighterBindingRightOperandStartingWithLiteral(t *testing.T) {
	for _, tt := range []struct {
		query  string // query without parentheses
		parens string // the same query with its conventional reading spelled out
		want   string
	}{
		{`vector(2) or 3 * vector(5)`, `vector(2) or (3 * vector(5))`, "2"},
		{`vector(2) and 3 + vector(5)`, `vector(2) and (3 + vector(5))`, "2"},
		{`vector(2) unless 3 ^ vector(5)`, `vector(2) unless (3 ^ vector(5))`, "<empty>"},
		{`vector(2) and 3 < vector(5)`, `vector(2) and (3 < vector(5))`, "2"},
		{`vector(2) unless vector(2) or 3 * vector(5)`, `(vector(2) unless vector(2)) or (3 * vector(5))`, "15"},
	} {
		// Sanity: explicitly parenthesised form works and gives the expected value.
		got, err := zzDemoEval(tt.parens)
		if err != nil || got != tt.want {
			t.Errorf("parenthesised control %q: got %q, err %v; want %q", tt.parens, got, err, tt.want)
			continue
		}

		got, err = zzDemoEval(tt.query)
		if err != nil {
			t.Errorf("query %q: the property requires it to be read as %q "+
				"(arithmetic/comparison operators bind tighter than and/unless/or) and to evaluate to %s, "+
				"but the program failed with: %v",
				tt.query, tt.parens, tt.want, err)
			continue
		}
		if got != tt.want {
			t.Errorf("query %q: the property requires the reading %q = %s, but the program returned %s",
				tt.query, tt.parens, tt.want, got)
		}
	}
}
