package main

import (
	"bytes"
	"context"
	"encoding/binary"
	"io"
	"strings"
	"testing"

	"github.com/docker/docker/api/types"
	apicontainer "github.com/docker/docker/api/types/container"
	"github.com/docker/docker/client"

	"github.com/tdakkota/docker-logql/internal/dockerlog"
	"github.com/tdakkota/docker-logql/internal/logql/logqlengine"
)

// bugFakeDocker is a Docker API client that knows one container and serves a
// canned multiplexed log stream for it.
type bugFakeDocker struct {
	client.APIClient
	stream []byte
}

func (f *bugFakeDocker) ContainerList(context.Context, apicontainer.ListOptions) ([]types.Container, error) {
	return []types.Container{{ID: "c0", Names: []string{"/app"}}}, nil
}

func (f *bugFakeDocker) ContainerLogs(context.Context, string, apicontainer.LogsOptions) (io.ReadCloser, error) {
	return io.NopCloser(bytes.NewReader(f.stream)), nil
}

// bugFrame encodes one stdout frame of Docker's multiplexed log stream.
func bugFrame(payload string) []byte {
	var h [8]byte
	h[0] = 1 // stdout
	binary.BigEndian.PutUint32(h[4:], uint32(len(payload)))
	return append(h[:], payload...)
}

// TestBugEqualTimestampRecordsAreShuffled shows that records of ONE container
// that carry the same timestamp do not come out in the order in which they are
// in the stream.
//
// This is what Docker produces for every log line longer than 16 KiB: the
// daemon (daemon/logger/copier.go, partialTS) cuts the line into 16 KiB
// partial messages that all share the timestamp of the first chunk, and the
// logs endpoint sends each chunk as its own frame "<ts> <chunk>".
//
// The scrambling depends on Go's randomised map iteration order, so the query
// is repeated (at most 50 times) until it shows; with three records a single
// run keeps the order with probability <= 1/3.
func TestBugEqualTimestampRecordsAreShuffled(t *testing.T) {
	const (
		ts    = "2024-02-11T09:37:32.033031260Z"
		tsNs  = 1707644252033031260
		chunk = 16 * 1024
	)
	// One 40 KiB line, cut by the daemon into 16 KiB + 16 KiB + rest.
	chunks := []string{
		strings.Repeat("A", chunk),
		strings.Repeat("B", chunk),
		strings.Repeat("C", 8*1024) + "\n",
	}
	var stream []byte
	for _, c := range chunks {
		stream = append(stream, bugFrame(ts+" "+c)...)
	}
	want := ""
	for _, c := range chunks {
		want += strings.TrimRight(c, "\n") + "\n"
	}

	short := func(s string) string {
		var sb strings.Builder
		for _, line := range strings.Split(strings.TrimRight(s, "\n"), "\n") {
			if line == "" {
				sb.WriteString("<empty> ")
				continue
			}
			sb.WriteString(line[:1])
			sb.WriteString("... ")
		}
		return sb.String()
	}

	const attempts = 50
	for attempt := 1; attempt <= attempts; attempt++ {
		q, err := dockerlog.NewQuerier(&bugFakeDocker{stream: stream})
		if err != nil {
			t.Fatal(err)
		}
		eng := logqlengine.NewEngine(q, logqlengine.Options{})
		data, err := eng.Eval(context.Background(), `{container="app"}`, logqlengine.EvalParams{
			Start: tsNs - 3600e9,
			End:   tsNs + 3600e9,
			Limit: -1,
		})
		if err != nil {
			t.Fatalf("eval: %v", err)
		}
		var out bytes.Buffer
		if err := renderResult(&out, renderOptions{}, data); err != nil {
			t.Fatalf("render: %v", err)
		}
		if got := out.String(); got != want {
			t.Fatalf("input: one container whose stream holds 3 stdout frames with the SAME timestamp %s "+
				"(a 40 KiB line cut by the Docker daemon into chunks A..., B..., C...), query {container=\"app\"}.\n"+
				"property requires: the records are decoded and delivered \"exactly those records, in order\": A... B... C...\n"+
				"program printed (attempt %d of %d): %s",
				ts, attempt, attempts, short(got))
		}
	}
}
