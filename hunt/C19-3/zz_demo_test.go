package logqlengine

import (
	"context"
	"fmt"
	"sort"
	"testing"
	"time"

	"go.opentelemetry.io/collector/pdata/pcommon"

	"github.com/tdakkota/docker-logql/internal/iterators"
	"github.com/tdakkota/docker-logql/internal/logstorage"
	"github.com/tdakkota/docker-logql/internal/otelstorage"
)

type bugTypedRec struct {
	line  string
	attrs map[string]string
}

// bugTypedQuerier serves a fixed list of records, one millisecond apart.
type bugTypedQuerier struct {
	recs []bugTypedRec
}

func (q *bugTypedQuerier) Capabilities() (caps QuerierCapabilities) { return caps }

func (q *bugTypedQuerier) SelectLogs(_ context.Context, start, _ otelstorage.Timestamp, _ SelectLogsParams) (iterators.Iterator[logstorage.Record], error) {
	ts := start.AsTime()
	var records []logstorage.Record
	for _, r := range q.recs {
		ts = ts.Add(time.Millisecond)
		attrs := pcommon.NewMap()
		for k, v := range r.attrs {
			attrs.PutStr(k, v)
		}
		records = append(records, logstorage.Record{
			Timestamp: otelstorage.NewTimestampFromTime(ts),
			Body:      r.line,
			Attrs:     otelstorage.Attrs(attrs),
		})
	}
	return iterators.Slice(records), nil
}

func bugTypedEval(t *testing.T, recs []bugTypedRec, query string) []string {
	t.Helper()
	e := NewEngine(&bugTypedQuerier{recs: recs}, Options{})
	data, err := e.Eval(context.Background(), query, EvalParams{
		Start: 1700000000_000000000,
		End:   1700000100_000000000,
	})
	if err != nil {
		t.Fatalf("eval %q: %v", query, err)
	}
	streams, ok := data.GetStreamsResult()
	if !ok {
		t.Fatalf("eval %q: result is not streams", query)
	}
	var r []string
	for _, s := range streams.Result {
		for _, v := range s.Values {
			r = append(r, fmt.Sprintf("%d %q", v.T-1700000000_000000000, v.V))
		}
	}
	sort.Strings(r)
	return r
}

// Property: "a filter and its negation (|= s and != s, |~ r and !~ r, label = and !=,
// =~ and !~) split q's result into two disjoint parts that together are q's result".
//
// For the typed label comparisons (number, duration, bytes, ip) `label == v` and
// `label != v` do not split q's result:
//   - a record WITHOUT the label is dropped by both;
//   - a record whose label value does not parse is kept by both (with __error__ set).
func TestBugTypedLabelFilterNegationIsNotComplement(t *testing.T) {
	recs := []bugTypedRec{
		{"label is missing", nil},
		{"label does not parse", map[string]string{"n": "abc", "d": "abc", "b": "abc", "addr": "abc"}},
		{"label equals", map[string]string{"n": "5", "d": "5s", "b": "5kb", "addr": "1.2.3.4"}},
		{"label differs", map[string]string{"n": "7", "d": "7s", "b": "7kb", "addr": "5.6.7.8"}},
	}
	pairs := [][2]string{
		{`| n == 5`, `| n != 5`},
		{`| d == 5s`, `| d != 5s`},
		{`| b == 5kb`, `| b != 5kb`},
		{`| addr == ip("1.2.3.4")`, `| addr != ip("1.2.3.4")`},
	}
	const base = `{x=~".*"}`
	all := bugTypedEval(t, recs, base)
	if len(all) != len(recs) {
		t.Fatalf("setup: %s returned %q", base, all)
	}

	for _, p := range pairs {
		posQ, negQ := base+" "+p[0], base+" "+p[1]
		pos := bugTypedEval(t, recs, posQ)
		neg := bugTypedEval(t, recs, negQ)

		count := map[string]int{}
		for _, k := range pos {
			count[k]++
		}
		for _, k := range neg {
			count[k]++
		}
		for _, k := range all {
			switch count[k] {
			case 1:
			case 0:
				t.Errorf("record %s is in the result of %s but in NEITHER %s NOR %s; "+
					"the property requires a filter and its negation to together give q's result",
					k, base, posQ, negQ)
			default:
				t.Errorf("record %s is in BOTH %s AND %s; "+
					"the property requires a filter and its negation to select disjoint parts",
					k, posQ, negQ)
			}
		}
	}
}
