package dockerlog

import (
	"bytes"
	"context"
	"io"
	"strings"
	"testing"
	"time"

	"github.com/docker/docker/api/types"
	apicontainer "github.com/docker/docker/api/types/container"
	"github.com/docker/docker/client"
	"github.com/docker/docker/pkg/stdcopy"
	"go.opentelemetry.io/collector/pdata/pcommon"

	"github.com/tdakkota/docker-logql/internal/logql/logqlengine"
)

// bugPartialClient is a Docker API client that serves one container whose log
// is the given multiplexed stream.
type bugPartialClient struct {
	client.APIClient
	stream []byte
}

func (c *bugPartialClient) ContainerList(context.Context, apicontainer.ListOptions) ([]types.Container, error) {
	return []types.Container{{ID: "id1", Names: []string{"/app"}}}, nil
}

func (c *bugPartialClient) ContainerLogs(context.Context, string, apicontainer.LogsOptions) (io.ReadCloser, error) {
	return io.NopCloser(bytes.NewReader(c.stream)), nil
}

// bugDaemonStream renders the lines the way dockerd does for
// `GET /containers/{id}/logs?timestamps=1` of a non-TTY container that uses
// the default json-file log driver:
//
//   - daemon/logger/copier.go cuts every line longer than 16 KiB
//     (defaultBufSize) into partial messages that all carry the timestamp of
//     the first part;
//   - daemon/logger/jsonfilelog appends "\n" only to the last part;
//   - api/server/httputils.WriteLogStream writes EVERY message, partial or
//     not, as a frame of its own, prefixed with its timestamp.
func bugDaemonStream(ts time.Time, lines ...string) []byte {
	const (
		dockerBufSize = 16 * 1024
		tsFormat      = "2006-01-02T15:04:05.000000000Z07:00" // jsonmessage.RFC3339NanoFixed
	)
	var out bytes.Buffer
	w := stdcopy.NewStdWriter(&out, stdcopy.Stdout)
	for i, line := range lines {
		prefix := ts.Add(time.Duration(i)*time.Second).UTC().Format(tsFormat) + " "
		for len(line) > dockerBufSize {
			_, _ = w.Write([]byte(prefix + line[:dockerBufSize]))
			line = line[dockerBufSize:]
		}
		_, _ = w.Write([]byte(prefix + line + "\n"))
	}
	return out.Bytes()
}

func TestBugLongJSONLineIsSplitAndNoFieldIsExposed(t *testing.T) {
	now := time.Now().Add(-time.Minute)

	short := `{"id":"41","tail":"end"}`
	// One well-formed JSON object, 20 KiB long, as an application that logs a
	// stack trace or a payload writes it: ONE line on stdout.
	long := `{"id":"42","payload":"` + strings.Repeat("x", 20*1024) + `","tail":"end"}`

	q, err := NewQuerier(&bugPartialClient{stream: bugDaemonStream(now, short, long)})
	if err != nil {
		t.Fatal(err)
	}
	eng := logqlengine.NewEngine(q, logqlengine.Options{})
	data, err := eng.Eval(context.Background(), `{container="app"} | json id, tail`, logqlengine.EvalParams{
		Start: pcommon.NewTimestampFromTime(now.Add(-time.Hour)),
		End:   pcommon.NewTimestampFromTime(now.Add(time.Hour)),
		Limit: -1,
	})
	if err != nil {
		t.Fatal(err)
	}
	streams, ok := data.GetStreamsResult()
	if !ok {
		t.Fatalf("unexpected result type %q", data.Type)
	}

	type got struct {
		id, tail, errLabel string
		lineLen            int
	}
	var entries []got
	for _, s := range streams.Result {
		for _, v := range s.Values {
			l := s.Stream.Value
			entries = append(entries, got{id: l["id"], tail: l["tail"], errLabel: l["__error__"], lineLen: len(v.V)})
		}
	}

	var found bool
	for _, e := range entries {
		if e.id == "42" && e.tail == "end" && e.errLabel == "" {
			found = true
		}
	}
	if len(entries) != 2 || !found {
		t.Errorf("container wrote 2 lines: %d bytes `{\"id\":\"41\",\"tail\":\"end\"}` and a %d bytes well-formed JSON object "+
			"`{\"id\":\"42\",\"payload\":\"xxx…\",\"tail\":\"end\"}`; query `{container=\"app\"} | json id, tail`.\n"+
			"The property requires that every field of a well-formed line is exposed as a label with exactly its value "+
			"(2 entries, one with id=\"42\", tail=\"end\" and no __error__).\n"+
			"The program returned %d entries: %+v — the long line was taken as one line per 16 KiB Docker frame, "+
			"each piece is flagged with __error__ and tail=\"end\" of the long line is not exposed at all.",
			len(short), len(long), len(entries), entries)
	}
}
