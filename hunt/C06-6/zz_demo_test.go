package logqlengine

import (
	"encoding/json"
	"testing"

	"go.opentelemetry.io/collector/pdata/pcommon"

	"github.com/tdakkota/docker-logql/internal/logql"
)

func bugNestedRun(t *testing.T, query, line string) (newLine string, keep bool, labels map[string]string) {
	t.Helper()
	expr, err := logql.Parse(query, logql.ParseOptions{})
	if err != nil {
		t.Fatalf("parse %q: %v", query, err)
	}
	p, err := BuildPipeline(expr.(*logql.LogExpr).Pipeline...)
	if err != nil {
		t.Fatalf("build %q: %v", query, err)
	}
	set := newLabelSet()
	set.Set("container", pcommon.NewValueStr("app"))
	newLine, keep = p.Process(1, line, set)
	return newLine, keep, set.AsMap()
}

// A field whose value is an object (or an array) is exposed by `| json` and
// `| json <field>` as its JSON text. The text is not the one of the line: every
// '<', '>' and '&' inside the strings of the value comes out as \\u003c, \\u003e, \\u0026.
func TestBugJSONNestedValueIsHTMLEscaped(t *testing.T) {
	const (
		line  = `{"error":{"message":"expected <nil> & got EOF"},"tags":["a&b"]}`
		field = `{"message":"expected <nil> & got EOF"}` // value of "error" in the line
		tags  = `["a&b"]`                                // value of "tags" in the line
	)
	if !json.Valid([]byte(line)) {
		t.Fatal("test line must be well-formed")
	}

	// The path expression form gives the value exactly as it is in the line.
	_, _, ref := bugNestedRun(t, "{container=\"app\"} | json error=`error`, tags=`tags`", line)
	if ref["error"] != field || ref["tags"] != tags {
		t.Fatalf("unexpected reference labels %v", ref)
	}

	for _, query := range []string{
		`{container="app"} | json`,
		`{container="app"} | json error, tags`,
	} {
		newLine, keep, got := bugNestedRun(t, query, line)
		if !keep || newLine != line {
			t.Errorf("query %s: line must be kept unchanged, got keep=%v line=%q", query, keep, newLine)
		}
		for label, want := range map[string]string{"error": field, "tags": tags} {
			if got[label] != want {
				t.Errorf("query %s, line %s: the property requires field %q to be exposed as a label with exactly its value %s "+
					"(what `| json %s=\"%s\"` gives for the same line); the program exposed %s=%s",
					query, line, label, want, label, label, label, got[label])
			}
		}
	}

	// Observable consequence: a label filter that looks for the text of the field
	// removes the line.
	query := "{container=\"app\"} | json | error=~`.*<nil>.*`"
	if _, keep, got := bugNestedRun(t, query, line); !keep {
		t.Errorf("query %s, line %s: field \"error\" contains \"<nil>\", so that the line must pass the label filter; "+
			"it was dropped because the label is %s", query, line, got["error"])
	}
}
