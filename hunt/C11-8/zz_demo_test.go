package logqlmetric

import (
	"fmt"
	"math"
	"regexp"
	"sort"
	"strconv"
	"strings"
	"testing"
	"time"

	"github.com/cespare/xxhash/v2"

	"github.com/tdakkota/docker-logql/internal/iterators"
	"github.com/tdakkota/docker-logql/internal/logql"
	"github.com/tdakkota/docker-logql/internal/lokiapi"
	"github.com/tdakkota/docker-logql/internal/otelstorage"
)

// zzBugLabels is a plain label set.
type zzBugLabels map[string]string

func (l zzBugLabels) By(labels ...logql.Label) AggregatedLabels {
	r := zzBugLabels{}
	for _, n := range labels {
		if v, ok := l[string(n)]; ok {
			r[string(n)] = v
		}
	}
	return r
}

func (l zzBugLabels) Without(labels ...logql.Label) AggregatedLabels {
	r := zzBugLabels{}
	for k, v := range l {
		r[k] = v
	}
	for _, n := range labels {
		delete(r, string(n))
	}
	return r
}

func (l zzBugLabels) Key() GroupingKey {
	names := make([]string, 0, len(l))
	for k := range l {
		names = append(names, k)
	}
	sort.Strings(names)
	h := xxhash.New()
	for _, k := range names {
		_, _ = h.WriteString(k + "\x00" + strconv.Itoa(len(l[k])) + "\x00" + l[k])
	}
	return h.Sum64()
}

func (l zzBugLabels) Replace(_, _, _ string, _ *regexp.Regexp) AggregatedLabels { return l }
func (l zzBugLabels) AsLokiAPI() lokiapi.LabelSet                               { return lokiapi.LabelSet(l) }

func zzBugRun(t *testing.T, query string, input []Sample) []Sample {
	t.Helper()
	expr, err := logql.Parse(query, logql.ParseOptions{})
	if err != nil {
		t.Fatalf("parse %s: %v", query, err)
	}
	agg, ok := expr.(*logql.VectorAggregationExpr)
	if !ok {
		t.Fatalf("%s: %T", query, expr)
	}
	iter, err := VectorAggregation(iterators.Slice([]Step{{Timestamp: 1, Samples: input}}), agg)
	if err != nil {
		t.Fatalf("build %s: %v", query, err)
	}
	defer func() { _ = iter.Close() }()
	var step Step
	if !iter.Next(&step) {
		t.Fatalf("%s: no step", query)
	}
	return append([]Sample(nil), step.Samples...)
}

func zzBugFmt(ss []Sample) string {
	var out []string
	for _, s := range ss {
		out = append(out, fmt.Sprintf("%v=>%v", map[string]string(s.Set.AsLokiAPI()), s.Data))
	}
	return "[" + strings.Join(out, " ") + "]"
}

// max over a group that holds a NaN.
//
// What the largest value of {1, NaN, 2} is, is not left open in this program:
//   - topk(1, X) "returns the largest input series" and returns the series with 2;
//   - sort_desc(X) puts the series with 2 first and the NaN last
//     (Sample.compare: "NaN before any number", i.e. NaN is the smallest);
//   - PromQL/LogQL, whose aggregation code this package ports (AvgAggregator is a
//     copy of the Prometheus one), define it as 2:
//     `if group.floatValue < f || math.IsNaN(group.floatValue) { group.floatValue = f }`
//     a NaN only survives if every value of the group is NaN.
//
// max(X) answers NaN whatever the order of the series, so that max(X) is not the
// value of topk(1, X) and one NaN series hides the maximum of all the others.
// (min has the mirrored condition: min(1, NaN, 2) is NaN where PromQL says 1.)
func TestBugMaxOfGroupWithNaNIsNaN(t *testing.T) {
	nan := math.NaN()
	vals := []float64{1, nan, 2}
	perms := [][]int{{0, 1, 2}, {0, 2, 1}, {1, 0, 2}, {1, 2, 0}, {2, 0, 1}, {2, 1, 0}}
	const x = `{job="x"}` // the operand is replaced by the input vector below
	for _, p := range perms {
		var input []Sample
		for _, i := range p {
			input = append(input, Sample{Data: vals[i], Set: zzBugLabels{"a": strconv.Itoa(i), "g": "g1"}})
		}
		operand := `count_over_time(` + x + `[1m])`

		top := zzBugRun(t, `topk(1, `+operand+`) by (g)`, input)
		if len(top) != 1 || top[0].Data != 2 {
			t.Fatalf("precondition: topk(1) of %s should be the series with 2, got %s", zzBugFmt(input), zzBugFmt(top))
		}
		desc := zzBugRun(t, `sort_desc(`+operand+`)`, input)
		if len(desc) != 3 || desc[0].Data != 2 {
			t.Fatalf("precondition: sort_desc of %s should start with 2, got %s", zzBugFmt(input), zzBugFmt(desc))
		}

		got := zzBugRun(t, `max by (g) (`+operand+`)`, input)
		if len(got) != 1 || got[0].Data != 2 {
			t.Errorf("input vector (one group g=g1): %s\n"+
				"query: max by (g) (X)\n"+
				"property: the value is the aggregate (maximum) of exactly the input series of the group = 2, "+
				"the value of the largest series as topk(1, X) by (g) = %s and sort_desc(X) = %s report it\n"+
				"program: %s",
				zzBugFmt(input), zzBugFmt(top), zzBugFmt(desc), zzBugFmt(got))
		}
	}
}

// How a user gets there: division by zero gives NaN in this engine, so one series
// with a zero denominator turns max() over all series into NaN.
func TestBugMaxOverQuotientWithZeroDenominator(t *testing.T) {
	start := time.Unix(1700000000, 0)
	at := func(d time.Duration) otelstorage.Timestamp {
		return otelstorage.NewTimestampFromTime(start.Add(-d))
	}
	c1, c2, c3 := zzBugLabels{"container": "c1"}, zzBugLabels{"container": "c2"}, zzBugLabels{"container": "c3"}
	// line lengths per container; c1 has one line, c2 two, c3 three.
	lines := []struct {
		set  zzBugLabels
		size float64
		ts   otelstorage.Timestamp
	}{
		{c1, 10, at(9 * time.Second)},
		{c2, 10, at(8 * time.Second)},
		{c2, 30, at(7 * time.Second)},
		{c3, 5, at(6 * time.Second)},
		{c3, 5, at(5 * time.Second)},
		{c3, 5, at(4 * time.Second)},
	}
	sel := func(expr *logql.RangeAggregationExpr, _, _ time.Time) (iterators.Iterator[SampledEntry], error) {
		var entries []SampledEntry
		for _, l := range lines {
			v := 1.0
			if expr.Op == logql.RangeOpBytes {
				v = l.size
			}
			entries = append(entries, SampledEntry{Sample: v, Timestamp: l.ts, Set: l.set})
		}
		return iterators.Slice(entries), nil
	}
	// bytes per line after the first one: c1 = 10/0 (NaN here), c2 = 40/1, c3 = 15/2.
	const quotient = `bytes_over_time({job="x"}[1m]) / (count_over_time({job="x"}[1m]) - 1)`
	eval := func(query string) []Sample {
		expr, err := logql.Parse(query, logql.ParseOptions{})
		if err != nil {
			t.Fatalf("parse %s: %v", query, err)
		}
		iter, err := Build(expr.(logql.MetricExpr), sel, EvalParams{Start: start, End: start, Step: time.Second})
		if err != nil {
			t.Fatalf("build %s: %v", query, err)
		}
		defer func() { _ = iter.Close() }()
		var step Step
		if !iter.Next(&step) {
			t.Fatalf("%s: no step (%v)", query, iter.Err())
		}
		return append([]Sample(nil), step.Samples...)
	}

	input := eval(quotient)
	top := eval(`topk(1, ` + quotient + `)`)
	if len(top) != 1 || top[0].Data != 40 {
		t.Fatalf("precondition: topk(1) should be c2 with 40, input %s, got %s", zzBugFmt(input), zzBugFmt(top))
	}
	got := eval(`max(` + quotient + `)`)
	if len(got) != 1 || got[0].Data != 40 {
		t.Errorf("input vector: %s\nquery: max(%s)\n"+
			"property: one series {} whose value is the maximum of exactly the input series = 40 (topk(1, ...) reports %s)\n"+
			"program: %s", zzBugFmt(input), quotient, zzBugFmt(top), zzBugFmt(got))
	}
}
