package logqlengine

import (
	"testing"

	"github.com/tdakkota/docker-logql/internal/logql"
)

// demoBigIntRun parses `{job="x"} <stages>`, builds the real pipeline and
// runs it over one line with an empty label set.
func demoBigIntRun(t *testing.T, stages, line string) (newLine string, keep bool, labels map[string]string) {
	t.Helper()
	expr, err := logql.Parse(`{job="x"} `+stages, logql.ParseOptions{})
	if err != nil {
		t.Fatalf("parse %q: %v", stages, err)
	}
	p, err := BuildPipeline(expr.(*logql.LogExpr).Pipeline...)
	if err != nil {
		t.Fatalf("build %q: %v", stages, err)
	}
	set := newLabelSet()
	newLine, keep = p.Process(1, line, set)
	return newLine, keep, set.AsMap()
}

// A well-formed JSON object whose first field is an unsigned 64-bit id
// (max uint64; any integer outside the int64 range behaves the same).
const demoBigIntLine = `{"id":18446744073709551615,"level":"error","msg":"boom"}`

// Property: "Every field present in a well-formed line is exposed as a label
// with exactly its value ... a line the stage cannot parse is kept and flagged
// with __error__". The line is valid JSON, so `| json` must expose id, level
// and msg and must not flag the line.
func TestBugJSONIntegerOutsideInt64FlagsWellFormedLine(t *testing.T) {
	line, keep, labels := demoBigIntRun(t, `| json`, demoBigIntLine)
	if !keep || line != demoBigIntLine {
		t.Fatalf("line dropped or changed: keep=%v line=%q", keep, line)
	}
	want := map[string]string{
		"id":    "18446744073709551615",
		"level": "error",
		"msg":   "boom",
	}
	for k, v := range want {
		if got, ok := labels[k]; !ok || got != v {
			t.Errorf("`| json` over the well-formed line %s: property requires label %s=%q; program has %s=%q (present=%v). All labels: %q",
				demoBigIntLine, k, v, k, got, ok, labels)
		}
	}
	if e, ok := labels["__error__"]; ok {
		t.Errorf("`| json` over the well-formed line %s: property allows __error__ only for lines the stage cannot parse; program set __error__=%q __error_details__=%q",
			demoBigIntLine, e, labels["__error_details__"])
	}
}

// Same with a field list: the requested field after the big integer is lost.
func TestBugJSONFieldListIntegerOutsideInt64(t *testing.T) {
	_, _, labels := demoBigIntRun(t, `| json id, msg`, demoBigIntLine)
	if labels["id"] != "18446744073709551615" || labels["msg"] != "boom" || labels["__error__"] != "" {
		t.Errorf("`| json id, msg` over the well-formed line %s: property requires id=\"18446744073709551615\", msg=\"boom\" and no __error__; program produced %q",
			demoBigIntLine, labels)
	}
}

// The path-expression form of the very same stage handles the very same line,
// which shows the line is parseable and the two code paths disagree.
func TestBugJSONExprFormDisagreesWithPlainForm(t *testing.T) {
	_, _, viaExpr := demoBigIntRun(t, `| json id="id", msg="msg"`, demoBigIntLine)
	if viaExpr["id"] != "18446744073709551615" || viaExpr["msg"] != "boom" || viaExpr["__error__"] != "" {
		t.Skipf("expression form also fails: %q", viaExpr)
	}
	_, _, plain := demoBigIntRun(t, `| json`, demoBigIntLine)
	if plain["id"] != viaExpr["id"] || plain["msg"] != viaExpr["msg"] {
		t.Errorf("line %s: `| json id=\"id\", msg=\"msg\"` exposes id=%q msg=%q, but `| json` exposes id=%q msg=%q and flags __error__=%q (%s)",
			demoBigIntLine, viaExpr["id"], viaExpr["msg"], plain["id"], plain["msg"], plain["__error__"], plain["__error_details__"])
	}
}
