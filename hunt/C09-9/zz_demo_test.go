package dockerlog

import (
	"bytes"
	"context"
	"encoding/binary"
	"fmt"
	"io"
	"strconv"
	"strings"
	"testing"
	"time"

	"github.com/docker/docker/api/types"
	apicontainer "github.com/docker/docker/api/types/container"
	"github.com/docker/docker/client"

	"github.com/tdakkota/docker-logql/internal/logql/logqlengine"
	"github.com/tdakkota/docker-logql/internal/lokiapi"
	"github.com/tdakkota/docker-logql/internal/otelstorage"
)

type zzTieLine struct {
	ts   time.Time
	text string
}

// zzTieDaemon is a Docker daemon with a fixed list of containers. Like the real
// daemon it serves, per container, the lines whose timestamps lie in
// [since, until] in the multiplexed stream format, in time order.
type zzTieDaemon struct {
	client.APIClient // not used: only the two methods below are called
	order            []string
	logs             map[string][]zzTieLine
}

func (d *zzTieDaemon) ContainerList(context.Context, apicontainer.ListOptions) ([]types.Container, error) {
	var r []types.Container
	for _, id := range d.order {
		r = append(r, types.Container{ID: id, Names: []string{"/" + id}})
	}
	return r, nil
}

func zzTieParse(s string) time.Time {
	if s == "" {
		return time.Time{}
	}
	sec, frac, _ := strings.Cut(s, ".")
	a, _ := strconv.ParseInt(sec, 10, 64)
	b, _ := strconv.ParseInt(frac, 10, 64)
	return time.Unix(a, b)
}

func (d *zzTieDaemon) ContainerLogs(_ context.Context, id string, o apicontainer.LogsOptions) (io.ReadCloser, error) {
	since, until := zzTieParse(o.Since), zzTieParse(o.Until)
	var buf bytes.Buffer
	for _, l := range d.logs[id] {
		if !since.IsZero() && l.ts.Before(since) {
			continue
		}
		if !until.IsZero() && l.ts.After(until) {
			continue
		}
		msg := l.ts.UTC().Format(time.RFC3339Nano) + " " + l.text + "\n"
		var h [8]byte
		h[0] = 1 // stdout
		binary.BigEndian.PutUint32(h[4:], uint32(len(msg)))
		buf.Write(h[:])
		buf.WriteString(msg)
	}
	return io.NopCloser(&buf), nil
}

// zzTieValueAt evaluates query and returns the value of the only series at time at.
func zzTieValueAt(t *testing.T, d *zzTieDaemon, query string, start, end time.Time, step time.Duration, at time.Time) string {
	t.Helper()
	q, err := NewQuerier(d)
	if err != nil {
		t.Fatal(err)
	}
	data, err := logqlengine.NewEngine(q, logqlengine.Options{}).Eval(context.Background(), query, logqlengine.EvalParams{
		Start: otelstorage.NewTimestampFromTime(start),
		End:   otelstorage.NewTimestampFromTime(end),
		Step:  step,
	})
	if err != nil {
		t.Fatalf("eval %q: %v", query, err)
	}
	want := float64(at.UnixMilli()) / 1000
	switch data.Type {
	case lokiapi.VectorResultQueryResponseData:
		for _, s := range data.VectorResult.Result {
			if s.Value.T == want {
				return s.Value.V
			}
		}
	case lokiapi.MatrixResultQueryResponseData:
		for _, s := range data.MatrixResult.Result {
			for _, p := range s.Values {
				if p.T == want {
					return p.V
				}
			}
		}
	default:
		t.Fatalf("unexpected result type %q", data.Type)
	}
	return ""
}

// TestBugEqualTimestampOrderDependsOnEarlierRecords: two containers log a line
// at the same timestamp. mergeIter orders records by timestamp only, so which
// of the two comes first is decided by the layout of its heap, i.e. by the
// records that were read BEFORE them. A range aggregation that groups both
// containers into one series (first_over_time/last_over_time ... by ()) then
// reports a value at T that depends on how far back the fetch started: on the
// start of the grid, and on the 30s lookback of an instant query.
func TestBugEqualTimestampOrderDependsOnEarlierRecords(t *testing.T) {
	base := time.Unix(1700000000, 0)
	d := &zzTieDaemon{
		order: []string{"c0", "c1"},
		logs: map[string][]zzTieLine{
			"c0": {
				{base.Add(10 * time.Second), "v=100"}, // outside the window of T
				{base.Add(50 * time.Second), "v=1"},
			},
			"c1": {
				{base.Add(50 * time.Second), "v=2"}, // same timestamp as c0's second line
			},
		},
	}
	T := base.Add(60 * time.Second) // window of T is [base+40s, base+60s]: exactly the two lines at +50s

	input := "containers c0 {v=100@+10s, v=1@+50s}, c1 {v=2@+50s}; T=+60s, window [+40s,+60s] holds v=1@+50s (c0) and v=2@+50s (c1)"
	for _, fn := range []string{"first_over_time", "last_over_time"} {
		query := fmt.Sprintf(`%s({container=~"c.*"} | logfmt | unwrap v [20s]) by ()`, fn)

		instant := zzTieValueAt(t, d, query, T, T, 0, T)                                           // fetches [T-20s-30s lookback, T]
		gridFromT := zzTieValueAt(t, d, query, T, T.Add(30*time.Second), 30*time.Second, T)        // fetches [T-20s, T+30s]
		gridFromEarlier := zzTieValueAt(t, d, query, T.Add(-30*time.Second), T, 30*time.Second, T) // fetches [T-50s, T]

		if instant != gridFromT || gridFromT != gridFromEarlier {
			t.Errorf("%s; query %s\n"+
				"property (samples at equal timestamps included): the value at T does not depend on where the grid starts or on which other times were evaluated, and an instant query at T equals the range-query value at T\n"+
				"program: instant query at T = %q; range query start=T step=30s reports %q at T; range query start=T-30s step=30s reports %q at T",
				input, query, instant, gridFromT, gridFromEarlier)
		}
	}
}
