package dockerlog

import (
	"bytes"
	"context"
	"encoding/binary"
	"io"
	"testing"
	"time"

	"go.opentelemetry.io/collector/pdata/pcommon"

	"github.com/tdakkota/docker-logql/internal/iterators"
	"github.com/tdakkota/docker-logql/internal/logql/logqlengine"
	"github.com/tdakkota/docker-logql/internal/logstorage"
	"github.com/tdakkota/docker-logql/internal/otelstorage"
)

// demoFrame renders one frame of the multiplexed stream the Docker daemon sends for
// `docker logs --timestamps`: 8 byte header, then "<RFC3339Nano> <what the container wrote>".
// A container that runs `echo hello` writes "hello\n": the "\n" is the line terminator.
func demoFrame(ts time.Time, written string) []byte {
	payload := ts.UTC().Format(time.RFC3339Nano) + " " + written
	var header [8]byte
	header[0] = 1 // stdout
	binary.BigEndian.PutUint32(header[4:], uint32(len(payload)))
	return append(header[:], payload...)
}

// demoQuerier hands the engine the records this package decodes from a daemon stream.
type demoQuerier struct {
	stream []byte
}

func (q demoQuerier) Capabilities() (caps logqlengine.QuerierCapabilities) { return caps }

func (q demoQuerier) SelectLogs(context.Context, otelstorage.Timestamp, otelstorage.Timestamp, logqlengine.SelectLogsParams) (iterators.Iterator[logstorage.Record], error) {
	res := pcommon.NewMap()
	res.PutStr("container", "web")
	return ParseLog(io.NopCloser(bytes.NewReader(q.stream)), otelstorage.Attrs(res)), nil
}

func demoEval(t *testing.T, query string) (line string, labels map[string]string) {
	t.Helper()
	ts := time.Unix(1700000000, 0)
	eng := logqlengine.NewEngine(demoQuerier{stream: demoFrame(ts, "hello\n")}, logqlengine.Options{})
	data, err := eng.Eval(context.Background(), query, logqlengine.EvalParams{
		Start: otelstorage.NewTimestampFromTime(ts.Add(-time.Hour)),
		End:   otelstorage.NewTimestampFromTime(ts.Add(time.Hour)),
		Step:  time.Second,
		Limit: 100,
	})
	if err != nil {
		t.Fatalf("eval %q: %v", query, err)
	}
	streams := data.StreamsResult.Result
	if len(streams) != 1 || len(streams[0].Values) != 1 {
		t.Fatalf("eval %q: expected one stream with one entry, got %+v", query, streams)
	}
	return streams[0].Values[0].V, streams[0].Stream.Value
}

// The container wrote the single log line "hello" (echo hello). LogQL binds __line__ to
// the log line, so `line_format "<{{__line__}}>"` must yield "<hello>".
func TestBugLineFormatSeesLineTerminator(t *testing.T) {
	const query = `{container="web"} | line_format "<{{__line__}}>"`
	got, _ := demoEval(t, query)
	if want := "<hello>"; got != want {
		t.Errorf("container output \"hello\\n\" (one log line: hello), query %s:\n"+
			"property: line_format replaces the line by the template expansion with __line__ bound to the current line, so the entry must be %q;\n"+
			"program: the entry is %q - the frame's line terminator is part of __line__, the rewritten entry spans two lines",
			query, want, got)
	}
}

// Same defect seen through label_format: the template is expanded with __line__ = "hello\n".
func TestBugLabelFormatSeesLineTerminator(t *testing.T) {
	const query = `{container="web"} | label_format first="{{ __line__ }}" | keep first`
	_, labels := demoEval(t, query)
	if got, want := labels["first"], "hello"; got != want {
		t.Errorf("container output \"hello\\n\" (one log line: hello), query %s:\n"+
			"property: label_format dst=\"template\" sets dst to the template expanded over the current labels / line, so first must be %q;\n"+
			"program: first=%q (labels %v)",
			query, want, got, labels)
	}
}
