package dockerlog

import (
	"context"
	"strconv"
	"testing"

	"github.com/docker/docker/api/types"
	apicontainer "github.com/docker/docker/api/types/container"
	"github.com/docker/docker/client"

	"github.com/tdakkota/docker-logql/internal/logql"
	"github.com/tdakkota/docker-logql/internal/logql/logqlengine"
	"github.com/tdakkota/docker-logql/internal/otelstorage"
)

type bugKeywordClient struct {
	client.APIClient
	ctrs []types.Container
}

func (f *bugKeywordClient) ContainerList(context.Context, apicontainer.ListOptions) ([]types.Container, error) {
	return f.ctrs, nil
}

// Docker label keys that are already valid LogQL label names (letters only), so the
// sanitiser leaves them unchanged, but that happen to be LogQL keywords.
func TestBugKeywordDockerLabelNotAddressable(t *testing.T) {
	keys := []string{
		"jsonx", // control: not a keyword, must pass
		"rate",  // control: function keyword, lexer already downgrades it to Ident
		"json", "logfmt", "regexp", "pattern", "unpack", "unwrap",
		"by", "without", "on", "ignoring", "bool", "offset",
		"or", "and", "unless",
		"drop", "keep", "distinct", "decolorize",
		"group_left", "group_right", "label_format", "line_format",
	}
	for _, k := range keys {
		k := k
		t.Run(k, func(t *testing.T) {
			name := otelstorage.KeyToLabel(k)
			if err := logql.IsValidLabel(name, false); err != nil || name != k {
				t.Fatalf("precondition: %q should be an already valid name, got %q (%v)", k, name, err)
			}
			ctrs := []types.Container{
				{ID: "c1", Names: []string{"/c1"}, Labels: map[string]string{k: "v"}},
				{ID: "c2", Names: []string{"/c2"}},
			}
			query := "{" + name + "=" + strconv.Quote("v") + "}"

			// The same parser entry point the engine uses (Engine.Eval -> logql.Parse).
			expr, err := logql.Parse(query, logql.ParseOptions{})
			if err != nil {
				t.Fatalf("container c1 carries Docker label %q=\"v\"; sanitised name is %q (valid LogQL label name per logql.IsValidLabel); "+
					"property requires c1 to be selected by %s, but the query is rejected: %v", k, name, query, err)
			}
			sel := expr.(*logql.LogExpr).Sel

			q, err := NewQuerier(&bugKeywordClient{ctrs: ctrs})
			if err != nil {
				t.Fatal(err)
			}
			got, err := q.fetchContainers(context.Background(), logqlengine.SelectLogsParams{Labels: sel.Matchers})
			if err != nil {
				t.Fatal(err)
			}
			if len(got) != 1 || got[0].ID != "c1" {
				t.Fatalf("query %s: want exactly container c1 selected, got %+v", query, got)
			}
		})
	}
}
