package main

import (
	"testing"
	"time"

	"github.com/tdakkota/docker-logql/internal/lokiapi"
)

// A fractional-seconds timestamp denotes one instant however many digits the
// fraction is written with: 1700000000.1234567890 (ten digits, e.g. printf
// "%.10f") is 1700000000.123456789. The exact decimal path of parseTimestamp
// only takes fractions of at most 9 digits; anything longer falls through to
// the old float64 path, which still rounds to the millisecond.
func TestBugLongFractionRoundedToMillisecond(t *testing.T) {
	cases := []struct {
		in   string
		want time.Time
	}{
		{"1700000000.1234567890", time.Unix(1700000000, 123456789)},
		{"1700000000.1234560000", time.Unix(1700000000, 123456000)},
		{"1700000000.0004000000", time.Unix(1700000000, 400000)},
		{"4102444800.9996000000", time.Unix(4102444800, 999600000)}, // 2100-01-01T00:00:00.9996Z
	}
	for _, c := range cases {
		// The nine-digit spelling of the same number is handled correctly.
		nine, err := parseTimestamp(lokiapi.LokiTime(c.in[:len(c.in)-1]), time.Time{})
		if err != nil || !nine.Equal(c.want) {
			t.Fatalf("sanity: %q resolved to %v (err=%v), want %v", c.in[:len(c.in)-1], nine.UTC(), err, c.want.UTC())
		}

		// Through the real flag resolution, as --start with an explicit --end.
		start, _, err := parseTimeRange(
			time.Unix(1790000000, 0),
			lokiapi.NewOptLokiTime(lokiapi.LokiTime(c.in)),
			lokiapi.NewOptLokiTime("4200000000"),
			lokiapi.OptPrometheusDuration{},
		)
		if err != nil {
			t.Errorf("--start=%s: unexpected error %v", c.in, err)
			continue
		}
		if !start.Equal(c.want) {
			t.Errorf("--start=%s (fractional seconds): the property requires the instant %s (%dns), the same as "+
				"--start=%s; the program resolved it to %s (%dns), off by %v",
				c.in, c.want.UTC().Format(time.RFC3339Nano), c.want.UnixNano(), c.in[:len(c.in)-1],
				start.UTC().Format(time.RFC3339Nano), start.UnixNano(), start.Sub(c.want))
		}
	}
}
