package main

import (
	"bytes"
	"math"
	"strings"
	"testing"
	"time"

	"github.com/tdakkota/docker-logql/internal/lokiapi"
)

// TestBugTimestampAboveMaxInt64Wraps: lokiapi.LogEntry.T is a uint64 number of
// nanoseconds. renderResult orders entries by the uint64 value but prints
// time.Unix(0, int64(T)), so any T above math.MaxInt64 is printed as a date
// between 1677 and 1970 while being placed AFTER the entries of 2024 and 2262:
// the printed timestamps are not the entries' timestamps and the output is not
// ordered by the timestamps it shows.
func TestBugTimestampAboveMaxInt64Wraps(t *testing.T) {
	prev := time.Local
	time.Local = time.UTC
	defer func() { time.Local = prev }()

	y2024 := uint64(time.Date(2024, 1, 1, 0, 0, 0, 0, time.UTC).UnixNano())
	entries := []lokiapi.LogEntry{
		{T: y2024, V: "year 2024"},
		{T: math.MaxInt64, V: "MaxInt64 (2262-04-11)"},
		{T: math.MaxInt64 + 1, V: "MaxInt64+1"},
		{T: math.MaxUint64, V: "MaxUint64"},
	}
	data := lokiapi.QueryResponseData{
		Type: lokiapi.StreamsResultQueryResponseData,
		StreamsResult: lokiapi.StreamsResult{
			Result: lokiapi.Streams{{
				Stream: lokiapi.NewOptLabelSet(lokiapi.LabelSet{"container": "web"}),
				Values: entries,
			}},
		},
	}

	var out bytes.Buffer
	if err := renderResult(&out, renderOptions{timestamp: true}, data); err != nil {
		t.Fatalf("render failed: %v", err)
	}
	lines := strings.Split(strings.TrimSuffix(out.String(), "\n"), "\n")
	if len(lines) != len(entries) {
		t.Fatalf("want %d lines, got %d: %q", len(entries), len(lines), lines)
	}
	var shown []time.Time
	for _, l := range lines {
		stamp, _, _ := strings.Cut(l, " ")
		ts, err := time.Parse(time.RFC3339Nano, stamp)
		if err != nil {
			t.Fatalf("line %q: timestamp does not parse: %v", l, err)
		}
		shown = append(shown, ts)
	}
	for i := 1; i < len(shown); i++ {
		if shown[i].Before(shown[i-1]) {
			t.Errorf("input: one container, T = 2024-01-01, MaxInt64, MaxInt64+1, MaxUint64 ns (timestamp option on).\n"+
				"property requires: one line per entry ordered by timestamp, each showing the entry's RFC3339Nano timestamp.\n"+
				"program printed line %d with timestamp %s AFTER line %d with timestamp %s; full output:\n%s",
				i, shown[i].Format(time.RFC3339Nano), i-1, shown[i-1].Format(time.RFC3339Nano), out.String())
		}
	}
}
