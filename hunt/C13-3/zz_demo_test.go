package logqlengine

import (
	"context"
	"fmt"
	"testing"
	"time"

	"github.com/tdakkota/docker-logql/internal/iterators"
	"github.com/tdakkota/docker-logql/internal/logql"
	"github.com/tdakkota/docker-logql/internal/logstorage"
	"github.com/tdakkota/docker-logql/internal/otelstorage"
)

type zzDemoQuerier struct{}

func (zzDemoQuerier) Capabilities() (caps QuerierCapabilities) { return caps }

func (zzDemoQuerier) SelectLogs(context.Context, otelstorage.Timestamp, otelstorage.Timestamp, SelectLogsParams) (iterators.Iterator[logstorage.Record], error) {
	return iterators.Slice[logstorage.Record](nil), nil
}

// zzDemoEval evaluates a metric query over three steps and renders the result
// as "<empty>" or the value of the single series at the first step.
func zzDemoEval(q string) (string, error) {
	e := NewEngine(zzDemoQuerier{}, Options{ParseOptions: logql.ParseOptions{AllowDots: true}})
	data, err := e.Eval(context.Background(), q, EvalParams{
		Start: otelstorage.Timestamp(1700000001_000000000),
		End:   otelstorage.Timestamp(1700000003_000000000),
		Step:  time.Second,
		Limit: 1000,
	})
	if err != nil {
		return "", err
	}
	m, ok := data.GetMatrixResult()
	if !ok {
		return "", fmt.Errorf("result is %v, not a matrix", data.Type)
	}
	switch {
	case len(m.Result) == 0:
		return "<empty>", nil
	case len(m.Result) != 1 || len(m.Result[0].Values) != 3:
		return "", fmt.Errorf("unexpected result shape %+v", m.Result)
	}
	return m.Result[0].Values[0].V, nil
}

// Parentheses around a single scalar literal must not change anything:
// "(2) * vector(3)" is "2 * vector(3)". logqlmetric.build however recognises a
// literal operand with a bare type assertion on BinOpExpr.Left / .Right, which
// still hold the *logql.ParenExpr wrapper produced by the parser, so the
// literal is not recognised and the whole query fails.
func TestBugParenthesisedLiteralOperandBreaksEvaluation(t *testing.T) {
	for _, tt := range []struct {
		query   string
		control string // same query without the redundant parentheses
		want    string
	}{
		{`(2) * vector(3)`, `2 * vector(3)`, "6"},
		{`vector(3) ^ (2)`, `vector(3) ^ 2`, "9"},
		{`vector(2) + vector(3) * (4)`, `vector(2) + vector(3) * 4`, "14"},
		{`(vector(2) + vector(3)) * (-4)`, `(vector(2) + vector(3)) * -4`, "-20"},
		{`((10)) - vector(3)`, `10 - vector(3)`, "7"},
	} {
		got, err := zzDemoEval(tt.control)
		if err != nil || got != tt.want {
			t.Errorf("control %q: got %q, err %v; want %q", tt.control, got, err, tt.want)
			continue
		}

		got, err = zzDemoEval(tt.query)
		if err != nil {
			t.Errorf("query %q: parentheses may only override grouping, so the property requires the same value as %q, i.e. %s, "+
				"but the program failed with: %v",
				tt.query, tt.control, tt.want, err)
			continue
		}
		if got != tt.want {
			t.Errorf("query %q: the property requires the same value as %q, i.e. %s, but the program returned %s",
				tt.query, tt.control, tt.want, got)
		}
	}
}
