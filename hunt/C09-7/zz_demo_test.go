package logqlengine

import (
	"context"
	"strings"
	"testing"
	"time"

	"go.opentelemetry.io/collector/pdata/pcommon"

	"github.com/tdakkota/docker-logql/internal/iterators"
	"github.com/tdakkota/docker-logql/internal/logstorage"
	"github.com/tdakkota/docker-logql/internal/lokiapi"
	"github.com/tdakkota/docker-logql/internal/otelstorage"
)

// zzDistinctRec is one log record of the demo: a timestamp and the value of the label "v".
type zzDistinctRec struct {
	ts time.Time
	v  string
}

// zzDistinctQuerier behaves like the Docker daemon: it returns the records of
// one stream, in time order, whose timestamps lie in the requested [start, end].
type zzDistinctQuerier struct {
	recs []zzDistinctRec
}

func (q *zzDistinctQuerier) Capabilities() (caps QuerierCapabilities) { return caps }

func (q *zzDistinctQuerier) SelectLogs(_ context.Context, start, end otelstorage.Timestamp, _ SelectLogsParams) (iterators.Iterator[logstorage.Record], error) {
	var out []logstorage.Record
	for _, r := range q.recs {
		ts := otelstorage.NewTimestampFromTime(r.ts)
		if ts < start || ts > end {
			continue
		}
		attrs := pcommon.NewMap()
		attrs.PutStr("v", r.v)
		res := pcommon.NewMap()
		res.PutStr("s", "a")
		out = append(out, logstorage.Record{
			Timestamp:     ts,
			Attrs:         otelstorage.Attrs(attrs),
			ResourceAttrs: otelstorage.Attrs(res),
			ScopeAttrs:    otelstorage.Attrs(pcommon.NewMap()),
		})
	}
	return iterators.Slice(out), nil
}

// zzValueAt evaluates query and returns the value reported at time at ("" if nothing is reported).
// A query the engine refuses to evaluate reports no value at all: that is returned as "rejected: <error>".
func zzValueAt(t *testing.T, q Querier, query string, start, end time.Time, step time.Duration, at time.Time) string {
	t.Helper()
	data, err := NewEngine(q, Options{}).Eval(context.Background(), query, EvalParams{
		Start: otelstorage.NewTimestampFromTime(start),
		End:   otelstorage.NewTimestampFromTime(end),
		Step:  step,
	})
	if err != nil {
		return "rejected: " + err.Error()
	}
	want := float64(at.UnixMilli()) / 1000
	switch data.Type {
	case lokiapi.VectorResultQueryResponseData:
		for _, s := range data.VectorResult.Result {
			if s.Value.T == want {
				return s.Value.V
			}
		}
	case lokiapi.MatrixResultQueryResponseData:
		for _, s := range data.MatrixResult.Result {
			for _, p := range s.Values {
				if p.T == want {
					return p.V
				}
			}
		}
	default:
		t.Fatalf("unexpected result type %q", data.Type)
	}
	return ""
}

// TestBugDistinctStateLeaksAcrossWindows: the `distinct` stage of the selector
// of a range aggregation keeps ONE set of seen values for the whole fetched
// stream, so records outside the window [T-r, T] (an earlier window of the
// grid, or the 30s lookback an instant query adds to the fetch) decide which
// records inside the window are counted.
func TestBugDistinctStateLeaksAcrossWindows(t *testing.T) {
	base := time.Unix(1700000000, 0)
	q := &zzDistinctQuerier{recs: []zzDistinctRec{
		{base.Add(10 * time.Second), "1"}, // outside the window of T
		{base.Add(50 * time.Second), "1"}, // inside
		{base.Add(55 * time.Second), "2"}, // inside
	}}
	const query = `sum(count_over_time({s="a"} | distinct v [20s]))`
	T := base.Add(60 * time.Second) // window of T is [base+40s, base+60s]: records v=1@50s and v=2@55s

	instant := zzValueAt(t, q, query, T, T, 0, T)
	gridFromT := zzValueAt(t, q, query, T, T.Add(10*time.Second), 10*time.Second, T)
	gridFromEarlier := zzValueAt(t, q, query, T.Add(-40*time.Second), T, 10*time.Second, T)

	if strings.HasPrefix(instant, "rejected: ") && strings.HasPrefix(gridFromT, "rejected: ") && strings.HasPrefix(gridFromEarlier, "rejected: ") {
		// An engine that refuses a stateful stage inside a range aggregation reports no wrong value.
		t.Logf("query is rejected: %s", instant)
		return
	}

	input := "records (label v) v=1@+10s, v=1@+50s, v=2@+55s; query " + query + "; T=+60s, window [+40s,+60s] holds v=1@+50s and v=2@+55s"
	if instant != gridFromT || gridFromT != gridFromEarlier {
		t.Errorf("%s\nproperty: the value at T does not depend on where the grid starts, and an instant query at T equals the range-query value at T\n"+
			"program: instant query at T = %q, range query start=T step=10s reports %q at T, range query start=T-40s step=10s reports %q at T",
			input, instant, gridFromT, gridFromEarlier)
	}
	for name, got := range map[string]string{"instant": instant, "range from T": gridFromT, "range from T-40s": gridFromEarlier} {
		if got != "2" {
			t.Errorf("%s\nproperty: f is applied to exactly the samples whose timestamps lie in [T-r, T] (two records with two distinct values of v => 2)\n"+
				"program (%s): %q - the record v=1@+50s was dropped because v=1@+10s, which is OUTSIDE the window, had been seen",
				input, name, got)
		}
	}
}
