package logql

import (
	"reflect"
	"testing"
)

// Redundant parentheses around a log range expression (or around the
// selector+pipeline part of it) are part of the LogQL grammar:
//
//	logRangeExpr: OPEN_PARENTHESIS selector pipelineExpr CLOSE_PARENTHESIS RANGE
//	            | OPEN_PARENTHESIS logRangeExpr CLOSE_PARENTHESIS
//	            | ...
//
// and must not change the parsed structure.
func TestBugParenthesizedLogRangeRejected(t *testing.T) {
	cases := []struct {
		plain string // layout without the redundant parentheses
		paren string // same query with redundant parentheses
	}{
		{`rate({a="b"} |= "x" [1m])`, `rate(({a="b"} |= "x")[1m])`},
		{`rate({a="b"} |= "x" [1m])`, `rate(({a="b"} |= "x" [1m]))`},
		{`rate({a="b"}[1m])`, `rate(({a="b"}[1m]))`},
		{`count_over_time({a="b"} | json | level="error" [5m] offset 1m)`, `count_over_time(({a="b"} | json | level="error")[5m] offset 1m)`},
		{`sum_over_time({a="b"} | logfmt | unwrap x [5m])`, `sum_over_time(({a="b"} | logfmt | unwrap x)[5m])`},
		{`sum by (a) (rate({a="b"} |= "x" [1m]))`, `sum by (a) (rate(({a="b"} |= "x")[1m]))`},
	}
	for _, tc := range cases {
		want, err := Parse(tc.plain, ParseOptions{})
		if err != nil {
			t.Fatalf("reference query %q must parse: %v", tc.plain, err)
		}
		got, err := Parse(tc.paren, ParseOptions{})
		if err != nil {
			t.Errorf("input %q: the property requires a syntactically valid query to be accepted and parsed "+
				"independent of redundant parentheses (same structure as %q), but Parse rejected it: %v",
				tc.paren, tc.plain, err)
			continue
		}
		if !reflect.DeepEqual(want, got) {
			t.Errorf("input %q: parsed structure differs from the paren-free layout %q:\nwant %#v\ngot  %#v",
				tc.paren, tc.plain, want, got)
		}
	}

	// The parser does already accept the one parenthesized form where only the bare
	// selector is wrapped, so the form is meant to be supported.
	if _, err := Parse(`rate(({a="b"})[1m])`, ParseOptions{}); err != nil {
		t.Logf("note: even rate(({a=\"b\"})[1m]) is rejected: %v", err)
	}
}
