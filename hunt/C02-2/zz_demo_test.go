package dockerlog

import (
	"bytes"
	"context"
	"encoding/binary"
	"fmt"
	"io"
	"sort"
	"strings"
	"sync"
	"testing"
	"time"

	"github.com/docker/docker/api/types"
	apicontainer "github.com/docker/docker/api/types/container"
	"github.com/docker/docker/client"
	"go.opentelemetry.io/collector/pdata/pcommon"

	"github.com/tdakkota/docker-logql/internal/logql/logqlengine"
	"github.com/tdakkota/docker-logql/internal/lokiapi"
)

// ---- fake Docker daemon -------------------------------------------------

type demoCtr struct {
	c     types.Container
	lines []string // "<RFC3339Nano> <message>"
}

type demoClient struct {
	client.APIClient // nil: only the two methods below are ever called
	ctrs             []demoCtr

	mu   sync.Mutex
	read []string // container ids whose logs were requested
}

func (f *demoClient) ContainerList(context.Context, apicontainer.ListOptions) ([]types.Container, error) {
	var r []types.Container
	for _, c := range f.ctrs {
		r = append(r, c.c)
	}
	return r, nil
}

func (f *demoClient) ContainerLogs(_ context.Context, id string, _ apicontainer.LogsOptions) (io.ReadCloser, error) {
	f.mu.Lock()
	f.read = append(f.read, id)
	f.mu.Unlock()
	for _, c := range f.ctrs {
		if c.c.ID != id {
			continue
		}
		var b bytes.Buffer
		for _, l := range c.lines {
			var h [8]byte
			h[0] = 1 // stdout
			binary.BigEndian.PutUint32(h[4:], uint32(len(l)))
			b.Write(h[:])
			b.WriteString(l)
		}
		return io.NopCloser(&b), nil
	}
	return nil, fmt.Errorf("no such container %q", id)
}

func (f *demoClient) readIDs() string {
	f.mu.Lock()
	defer f.mu.Unlock()
	r := append([]string(nil), f.read...)
	sort.Strings(r)
	return "[" + strings.Join(r, " ") + "]"
}

func demoContainer(id, name string, dockerLabels map[string]string, msgs ...string) demoCtr {
	var lines []string
	for i, m := range msgs {
		lines = append(lines, time.Unix(100, int64(i)).UTC().Format(time.RFC3339Nano)+" "+m+"\n")
	}
	return demoCtr{
		c: types.Container{
			ID:     id,
			Names:  []string{"/" + name},
			Image:  "image-of-" + name,
			State:  "running",
			Labels: dockerLabels,
		},
		lines: lines,
	}
}

func demoQuery(t *testing.T, f *demoClient, query string) lokiapi.Streams {
	t.Helper()
	q, err := NewQuerier(f)
	if err != nil {
		t.Fatal(err)
	}
	eng := logqlengine.NewEngine(q, logqlengine.Options{})
	data, err := eng.Eval(context.Background(), query, logqlengine.EvalParams{
		Start: pcommon.NewTimestampFromTime(time.Unix(50, 0)),
		End:   pcommon.NewTimestampFromTime(time.Unix(200, 0)),
		Step:  time.Second,
		Limit: -1,
	})
	if err != nil {
		t.Fatalf("query %s: unexpected error: %v", query, err)
	}
	return data.StreamsResult.Result
}

// ---- demonstrations -----------------------------------------------------

// A parser stage (| json, | logfmt, | unpack) lets a field of the log LINE
// overwrite the labels that identify the container the line came from.
func TestBugParserStageOverwritesOriginLabels(t *testing.T) {
	const inv = `inventory: {id=id-web name=/web}, {id=id-db name=/db}`
	cases := []struct {
		query string
		line  string
	}{
		{`{container="web"} | json`, `{"container":"db","container_id":"id-db","level":"info"}`},
		{`{container="web"} | logfmt`, `container=db container_id=id-db level=info`},
	}
	for _, tc := range cases {
		f := &demoClient{ctrs: []demoCtr{
			demoContainer("id-web", "web", nil, tc.line),
			demoContainer("id-db", "db", nil, "db is silent about web"),
		}}
		streams := demoQuery(t, f, tc.query)
		if got, want := f.readIDs(), "[id-web]"; got != want {
			t.Fatalf("%s\nquery %s: expected logs of %s to be read, got %s", inv, tc.query, want, got)
		}
		n := 0
		for _, s := range streams {
			labels := s.Stream.Value
			for _, e := range s.Values {
				n++
				// Only id-web was read, hence every returned line was produced by container "web"/"id-web".
				if labels["container"] != "web" || labels["container_id"] != "id-web" {
					t.Errorf("%s\nquery %s; container web logged the line %q.\nProperty requires: every returned line carries the labels of the container that produced it (container=\"web\", container_id=\"id-web\"; only id-web's log was read).\nProgram returned the line with container=%q container_id=%q (__error__=%q)",
						inv, tc.query, e.V, labels["container"], labels["container_id"], labels["__error__"])
				}
			}
		}
		if n != 1 {
			t.Errorf("query %s: expected exactly 1 returned line, got %d", tc.query, n)
		}
	}
}
