package logqlengine

import (
	"context"
	"sort"
	"strconv"
	"strings"
	"testing"
	"time"

	"go.opentelemetry.io/collector/pdata/pcommon"

	"github.com/tdakkota/docker-logql/internal/iterators"
	"github.com/tdakkota/docker-logql/internal/logstorage"
	"github.com/tdakkota/docker-logql/internal/otelstorage"
)

// bugAssocQuerier serves a fixed list of log records (one per second, two containers).
type bugAssocQuerier struct{}

func (bugAssocQuerier) Capabilities() (caps QuerierCapabilities) { return caps }

func (bugAssocQuerier) SelectLogs(_ context.Context, start, end otelstorage.Timestamp, _ SelectLogsParams) (iterators.Iterator[logstorage.Record], error) {
	var out []logstorage.Record
	for i := int64(0); i < 10; i++ {
		ts := otelstorage.NewTimestampFromTime(time.Unix(1700000000+i, 0))
		if ts < start || ts > end {
			continue
		}
		attrs := pcommon.NewMap()
		if i%2 == 0 {
			attrs.PutStr("container", "web")
		} else {
			attrs.PutStr("container", "db")
		}
		out = append(out, logstorage.Record{Timestamp: ts, Body: "line", Attrs: otelstorage.Attrs(attrs)})
	}
	return iterators.Slice(out), nil
}

// bugAssocEval evaluates a range query (3 steps) and renders the matrix as
// "labels: v@step v@step ..." lines, sorted; errors are rendered as "ERROR: ...".
func bugAssocEval(q string) string {
	eng := NewEngine(bugAssocQuerier{}, Options{})
	data, err := eng.Eval(context.Background(), q, EvalParams{
		Start: otelstorage.NewTimestampFromTime(time.Unix(1700000005, 0)),
		End:   otelstorage.NewTimestampFromTime(time.Unix(1700000009, 0)),
		Step:  2 * time.Second,
	})
	if err != nil {
		return "ERROR: " + err.Error()
	}
	m, ok := data.GetMatrixResult()
	if !ok {
		return "ERROR: not a matrix: " + string(data.Type)
	}
	var lines []string
	for _, s := range m.Result {
		var keys []string
		for k, v := range s.Metric.Value {
			keys = append(keys, k+"="+strconv.Quote(v))
		}
		sort.Strings(keys)
		line := "{" + strings.Join(keys, ",") + "}:"
		for _, p := range s.Values {
			line += " " + p.V
		}
		lines = append(lines, line)
	}
	sort.Strings(lines)
	if len(lines) == 0 {
		return "<no series>"
	}
	return strings.Join(lines, "; ")
}

// Property: "between two vectors it yields one series per label set present on both sides
// combining the two values"; "between a vector and a scalar literal yields one series per
// input series with the operator applied to its value and the scalar on the side it was written";
// "and, or and unless are intersection, union and difference".
//
// LogQL/PromQL binary operators of equal precedence are left-associative (only ^ is right-associative),
// so `a - b - c` is the operator `-` applied to the vector (a - b) and c.
// The program evaluates a - (b - c) (or fails) instead.
func TestBugBinOpChainsAreRightAssociative(t *testing.T) {
	for _, tt := range []struct {
		query, want, why string
		// control: the same query with the left-associative grouping written out.
		control string
	}{
		{
			`vector(10) - vector(1) - vector(1)`,
			`{}: 8 8 8`,
			"(10-1)-1 = 8 at every step",
			`(vector(10) - vector(1)) - vector(1)`,
		},
		{
			`vector(10) / vector(2) / vector(5)`,
			`{}: 1 1 1`,
			"(10/2)/5 = 1 at every step",
			`(vector(10) / vector(2)) / vector(5)`,
		},
		{
			`vector(8) - vector(2) * vector(3) - vector(1)`,
			`{}: 1 1 1`,
			"(8-(2*3))-1 = 1 at every step",
			`(vector(8) - vector(2) * vector(3)) - vector(1)`,
		},
		{
			`vector(1) < vector(2) < vector(3)`,
			`{}: 1 1 1`,
			"(1<2)=1, then 1<3 holds, so the comparison gives 1",
			`(vector(1) < vector(2)) < vector(3)`,
		},
		{
			`vector(1) unless vector(2) unless vector(3)`,
			`<no series>`,
			"(vector(1) unless vector(2)) is empty (same label set {} on both sides), and empty unless anything is empty",
			`(vector(1) unless vector(2)) unless vector(3)`,
		},
		{
			// C = sum by (container) (count_over_time({}[4s])) is db=3, web=2 at every step
			// (db logs at odd seconds, web at even seconds, window [T-4s, T], T = ..05, ..07, ..09).
			`sum by (container) (count_over_time({}[4s])) - sum by (container) (count_over_time({}[4s])) - sum by (container) (count_over_time({}[4s]))`,
			`{container="db"}: -3 -3 -3; {container="web"}: -2 -2 -2`,
			"(C-C)-C = -C for both containers at every step",
			`(sum by (container) (count_over_time({}[4s])) - sum by (container) (count_over_time({}[4s]))) - sum by (container) (count_over_time({}[4s]))`,
		},
		{
			// vector op scalar, chained: the first result is a vector, the next operand a scalar literal.
			`sum by (container) (count_over_time({}[4s])) - 1 - 1`,
			`{container="db"}: 1 1 1; {container="web"}: 0 0 0`,
			"(C-1)-1: one series per input series",
			`(sum by (container) (count_over_time({}[4s])) - 1) - 1`,
		},
		{
			`vector(1) * 2 * 3`,
			`{}: 6 6 6`,
			"(1*2)*3 = 6: one series per input series",
			`(vector(1) * 2) * 3`,
		},
	} {
		if c := bugAssocEval(tt.control); c != tt.want {
			t.Fatalf("control query %s: expected %s, got %s (test is wrong)", tt.control, tt.want, c)
		}
		got := bugAssocEval(tt.query)
		if got != tt.want {
			t.Errorf("query %s (range query, 3 steps)\n\tproperty requires: %s   [%s]\n\tprogram returned:  %s\n\t(the explicitly grouped %s does return %s)",
				tt.query, tt.want, tt.why, got, tt.control, tt.want)
		}
	}
}
