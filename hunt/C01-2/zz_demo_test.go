package logqlengine

import (
	"context"
	"fmt"
	"sort"
	"testing"

	"go.opentelemetry.io/collector/pdata/pcommon"

	"github.com/tdakkota/docker-logql/internal/iterators"
	"github.com/tdakkota/docker-logql/internal/logql"
	"github.com/tdakkota/docker-logql/internal/logstorage"
	"github.com/tdakkota/docker-logql/internal/otelstorage"
)

type bugOffloadRec struct {
	ts   uint64
	line string
	foo  string
}

// bugOffloadQuerier is a FAITHFUL storage backend: it evaluates exactly the label
// matchers and line filters the engine hands to it (with the engine's own matchers,
// over the record's own labels and original line) and returns the records that pass.
type bugOffloadQuerier struct {
	caps QuerierCapabilities
	recs []bugOffloadRec

	offloadedLine int
}

func (q *bugOffloadQuerier) Capabilities() QuerierCapabilities { return q.caps }

func (q *bugOffloadQuerier) SelectLogs(_ context.Context, _, _ otelstorage.Timestamp, params SelectLogsParams) (iterators.Iterator[logstorage.Record], error) {
	q.offloadedLine = len(params.Line)

	var out []logstorage.Record
recLoop:
	for _, r := range q.recs {
		res := pcommon.NewMap()
		res.PutStr("foo", r.foo)
		rec := logstorage.Record{
			Timestamp:     otelstorage.Timestamp(r.ts),
			Body:          r.line,
			Attrs:         otelstorage.Attrs(pcommon.NewMap()),
			ResourceAttrs: otelstorage.Attrs(res),
		}
		set := newLabelSet()
		set.SetFromRecord(rec)

		for _, lm := range params.Labels {
			p, err := buildLabelMatcher(lm)
			if err != nil {
				return nil, err
			}
			if _, keep := p.Process(rec.Timestamp, rec.Body, set); !keep {
				continue recLoop
			}
		}
		for _, lf := range params.Line {
			lf := lf
			p, err := buildLineFilter(&lf)
			if err != nil {
				return nil, err
			}
			if _, keep := p.Process(rec.Timestamp, rec.Body, set); !keep {
				continue recLoop
			}
		}
		out = append(out, rec)
	}
	return iterators.Slice(out), nil
}

func bugOffloadEval(t *testing.T, caps QuerierCapabilities, recs []bugOffloadRec, query string) (result []string, offloadedLine int) {
	t.Helper()
	q := &bugOffloadQuerier{caps: caps, recs: recs}
	e := NewEngine(q, Options{})
	data, err := e.Eval(context.Background(), query, EvalParams{Start: 1, End: 1 << 40, Step: 1, Limit: -1})
	if err != nil {
		t.Fatalf("eval %s: %v", query, err)
	}
	streams, ok := data.GetStreamsResult()
	if !ok {
		t.Fatalf("eval %s: not a streams result", query)
	}
	for _, s := range streams.Result {
		for _, v := range s.Values {
			result = append(result, fmt.Sprintf("ts=%d line=%q", v.T, v.V))
		}
	}
	sort.Strings(result)
	return result, q.offloadedLine
}

// TestBugDistinctThenOffloadedLineFilter: the result of a log query must not depend on which
// line filters the storage evaluates itself. A line filter placed AFTER `distinct` is offloaded
// to a storage that supports |=, i.e. it is moved in front of the stateful distinct stage.
func TestBugDistinctThenOffloadedLineFilter(t *testing.T) {
	recs := []bugOffloadRec{
		{ts: 10, line: "y", foo: "a"},
		{ts: 20, line: "x", foo: "a"},
	}
	const query = `{foo="a"} | distinct foo |= "x"`

	var none, lineCaps QuerierCapabilities
	lineCaps.Line.Add(logql.OpEq, logql.OpNotEq, logql.OpRe, logql.OpNotRe)

	engineOnly, n0 := bugOffloadEval(t, none, recs, query)
	offloaded, n1 := bugOffloadEval(t, lineCaps, recs, query)
	t.Logf("storage offloads nothing      (line filters handed to storage: %d): %q", n0, engineOnly)
	t.Logf("storage offloads line filters (line filters handed to storage: %d): %q", n1, offloaded)

	// Pipeline order: record ts=10 (foo=a, first value seen) passes distinct and fails |= "x";
	// record ts=20 (foo=a again) is a duplicate for distinct. Nothing matches.
	if len(engineOnly) != 0 {
		t.Errorf("query %s over records %+v with a storage that offloads nothing: want no records, got %q", query, recs, engineOnly)
	}
	if fmt.Sprint(engineOnly) != fmt.Sprint(offloaded) {
		t.Errorf("query %s over records %+v:\n"+
			"  the property requires: \"The result is the same whichever selector matchers and line filters the storage backend evaluates itself and whichever the engine evaluates on its behalf\"\n"+
			"  storage offloading nothing       -> %q\n"+
			"  storage offloading line filters  -> %q\n"+
			"  (the |= \"x\" that follows `distinct foo` was handed to the storage, so it ran BEFORE distinct: record ts=10 never reached distinct and record ts=20 became the first foo=a)",
			query, recs, engineOnly, offloaded)
	}
}
