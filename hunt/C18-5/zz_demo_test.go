package dockerlog

import (
	"bytes"
	"context"
	"encoding/binary"
	"fmt"
	"io"
	"sort"
	"strings"
	"testing"
	"time"

	"github.com/docker/docker/api/types"
	apicontainer "github.com/docker/docker/api/types/container"
	"github.com/docker/docker/client"
	"go.opentelemetry.io/collector/pdata/pcommon"

	"github.com/tdakkota/docker-logql/internal/logql/logqlengine"
)

// bug2Client is a Docker daemon double with one container and two log lines
// (distinct timestamps). It answers every request the same way.
type bug2Client struct {
	client.APIClient
}

func (c *bug2Client) ContainerList(context.Context, apicontainer.ListOptions) ([]types.Container, error) {
	return []types.Container{{ID: "aaa", Names: []string{"/alpha"}}}, nil
}

func (c *bug2Client) ContainerLogs(context.Context, string, apicontainer.LogsOptions) (io.ReadCloser, error) {
	var buf bytes.Buffer
	for _, payload := range []string{
		"2023-11-14T22:13:21.000000001Z first\n",
		"2023-11-14T22:13:22.000000002Z second\n",
	} {
		var header [8]byte
		header[0] = 1 // stdout
		binary.BigEndian.PutUint32(header[4:], uint32(len(payload)))
		buf.Write(header[:])
		buf.WriteString(payload)
	}
	return io.NopCloser(&buf), nil
}

// bug2Query evaluates the query and renders the streams in a canonical way
// (streams sorted, labels sorted), so that only labels, lines and timestamps count.
func bug2Query(t *testing.T, query string) string {
	t.Helper()
	q, err := NewQuerier(&bug2Client{})
	if err != nil {
		t.Fatal(err)
	}
	eng := logqlengine.NewEngine(q, logqlengine.Options{})
	data, err := eng.Eval(context.Background(), query, logqlengine.EvalParams{
		Start: pcommon.NewTimestampFromTime(time.Unix(1700000000, 0)),
		End:   pcommon.NewTimestampFromTime(time.Unix(1700000060, 0)),
		Step:  time.Second,
		Limit: -1,
	})
	if err != nil {
		t.Fatalf("query %q: %v", query, err)
	}
	streams, ok := data.GetStreamsResult()
	if !ok {
		t.Fatalf("query %q: streams expected, got %q", query, data.Type)
	}
	var out []string
	for _, s := range streams.Result {
		var names []string
		for name := range s.Stream.Value {
			if strings.HasPrefix(name, "container_") {
				continue // noise
			}
			names = append(names, name)
		}
		sort.Strings(names)
		var sb strings.Builder
		sb.WriteString("    {")
		for _, name := range names {
			fmt.Fprintf(&sb, "%s=%q ", name, s.Stream.Value[name])
		}
		sb.WriteString("}")
		for _, e := range s.Values {
			fmt.Fprintf(&sb, " [%d %q]", e.T, e.V)
		}
		out = append(out, sb.String())
	}
	sort.Strings(out)
	return strings.Join(out, "\n")
}

// TestBugNowMakesResultDependOnWallClock repeats a query over the same logs a
// few milliseconds apart. No concurrency and no map order are involved.
func TestBugNowMakesResultDependOnWallClock(t *testing.T) {
	for _, query := range []string{
		"{} | line_format `{{ now | unixEpochNanos }} {{ __line__ }}`", // the lines differ
		"{} | label_format at=`{{ now | unixEpochNanos }}`",            // the stream labels differ
	} {
		first := bug2Query(t, query)
		time.Sleep(5 * time.Millisecond)
		second := bug2Query(t, query)
		if first != second {
			t.Errorf("query %s over one container with the lines \"first\" (22:13:21.000000001) and \"second\" (22:13:22.000000002):\n"+
				"the property requires that repeating a query over the same container logs yields the same streams with the same labels, values and timestamps,\n"+
				"but two evaluations 5ms apart gave\n  first evaluation:\n%s\n  second evaluation:\n%s",
				query, first, second)
		}
	}
}
