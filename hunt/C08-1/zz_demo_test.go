package dockerlog

import (
	"bytes"
	"context"
	"encoding/binary"
	"fmt"
	"io"
	"sort"
	"testing"
	"time"

	"github.com/docker/docker/api/types"
	apicontainer "github.com/docker/docker/api/types/container"
	"github.com/docker/docker/client"

	"github.com/tdakkota/docker-logql/internal/logql/logqlengine"
	"github.com/tdakkota/docker-logql/internal/otelstorage"
)

// The demo drives the real pipeline end to end:
//
//	fake Docker API client -> dockerlog.Querier (ParseLog, mergeIter) -> logqlengine.Engine.Eval
//
// Only the Docker daemon is faked: it serves multiplexed log frames exactly in
// the order given below.

type c08Frame struct {
	stream byte  // 1 = stdout, 2 = stderr
	nanos  int64 // timestamp Docker stamped on the line
	line   string
}

type c08Container struct {
	id, name string
	frames   []c08Frame
}

type c08Client struct {
	client.APIClient // nil; only the two methods below are ever called.
	ctrs             []c08Container
}

func (c *c08Client) ContainerList(context.Context, apicontainer.ListOptions) ([]types.Container, error) {
	var r []types.Container
	for _, ct := range c.ctrs {
		r = append(r, types.Container{ID: ct.id, Names: []string{"/" + ct.name}})
	}
	return r, nil
}

func (c *c08Client) ContainerLogs(_ context.Context, id string, _ apicontainer.LogsOptions) (io.ReadCloser, error) {
	for _, ct := range c.ctrs {
		if ct.id != id {
			continue
		}
		var buf bytes.Buffer
		for _, f := range ct.frames {
			body := time.Unix(0, f.nanos).UTC().Format(time.RFC3339Nano) + " " + f.line
			var hdr [8]byte
			hdr[0] = f.stream
			binary.BigEndian.PutUint32(hdr[4:], uint32(len(body)))
			buf.Write(hdr[:])
			buf.WriteString(body)
		}
		return io.NopCloser(&buf), nil
	}
	return nil, fmt.Errorf("no such container %q", id)
}

type c08Entry struct {
	ts   uint64
	line string
}

func (e c08Entry) String() string { return fmt.Sprintf("{ts=%d %q}", e.ts, e.line) }

// c08Eval evaluates query with the given limit and returns all returned entries sorted by timestamp.
func c08Eval(t *testing.T, ctrs []c08Container, query string, limit int) []c08Entry {
	t.Helper()
	q, err := NewQuerier(&c08Client{ctrs: ctrs})
	if err != nil {
		t.Fatal(err)
	}
	eng := logqlengine.NewEngine(q, logqlengine.Options{})
	data, err := eng.Eval(context.Background(), query, logqlengine.EvalParams{
		Start: otelstorage.Timestamp(1),
		End:   otelstorage.Timestamp(uint64(time.Hour)),
		Step:  time.Second,
		Limit: limit,
	})
	if err != nil {
		t.Fatalf("eval %q limit=%d: %v", query, limit, err)
	}
	streams, ok := data.GetStreamsResult()
	if !ok {
		t.Fatalf("eval %q: not a streams result", query)
	}
	var out []c08Entry
	for _, s := range streams.Result {
		for _, v := range s.Values {
			out = append(out, c08Entry{ts: v.T, line: v.V})
		}
	}
	sort.Slice(out, func(i, j int) bool { return out[i].ts < out[j].ts })
	return out
}

func c08Check(t *testing.T, what string, ctrs []c08Container, query string) {
	// limit <= 0 returns all N matching records; all timestamps in the inputs are distinct,
	// so "the first min(L, N) matching records in time order" is uniquely defined.
	all := c08Eval(t, ctrs, query, 0)
	n := len(all)
	for limit := 1; limit <= n+1; limit++ {
		want := all
		if limit < n {
			want = all[:limit]
		}
		got := c08Eval(t, ctrs, query, limit)
		if fmt.Sprint(got) != fmt.Sprint(want) {
			t.Errorf("%s\nquery %s, limit %d, N=%d matching records %v:\n"+
				"  property requires: the result consists of the first min(L, N) = %d matching records in time order: %v\n"+
				"  program returned : %v",
				what, query, limit, n, all, len(want), want, got)
		}
	}
}

// One container; its log holds the lines in the order stdout@2us, stderr@1us, stdout@3us.
// (Docker stamps stdout and stderr lines in independent goroutines before they are
// serialised into the log, and the wall clock may step backwards, so a container log
// is not guaranteed to be monotonic.)
func TestBugLimitCutsBeforeTimeOrderSingleContainer(t *testing.T) {
	ctrs := []c08Container{
		{id: "aaa", name: "a", frames: []c08Frame{
			{1, 2000, "second\n"},
			{2, 1000, "first\n"},
			{1, 3000, "third\n"},
		}},
	}
	c08Check(t,
		"one container, log frames in order ts=2000 'second', ts=1000 'first', ts=3000 'third'",
		ctrs, `{container="a"} | drop msg`)
}

// Two containers merged by mergeIter; container "a" has one late-written line.
func TestBugLimitCutsBeforeTimeOrderMergedContainers(t *testing.T) {
	ctrs := []c08Container{
		{id: "aaa", name: "a", frames: []c08Frame{
			{1, 5000, "a-5000\n"},
			{2, 1000, "a-1000\n"},
		}},
		{id: "bbb", name: "b", frames: []c08Frame{
			{1, 3000, "b-3000\n"},
		}},
	}
	c08Check(t,
		"two containers: a=[ts=5000, ts=1000], b=[ts=3000]",
		ctrs, `{} | keep container`)
}
