package logqlengine

import (
	"context"
	"fmt"
	"sort"
	"strings"
	"testing"
	"time"

	"go.opentelemetry.io/collector/pdata/pcommon"

	"github.com/tdakkota/docker-logql/internal/iterators"
	"github.com/tdakkota/docker-logql/internal/logstorage"
	"github.com/tdakkota/docker-logql/internal/lokiapi"
	"github.com/tdakkota/docker-logql/internal/otelstorage"
)

// zzBug1Querier serves a fixed list of records, filtered by the requested time range.
type zzBug1Querier struct {
	recs []logstorage.Record
}

func (q *zzBug1Querier) Capabilities() (caps QuerierCapabilities) { return caps }

func (q *zzBug1Querier) SelectLogs(_ context.Context, start, end otelstorage.Timestamp, _ SelectLogsParams) (iterators.Iterator[logstorage.Record], error) {
	var out []logstorage.Record
	for _, r := range q.recs {
		if r.Timestamp >= start && r.Timestamp <= end {
			out = append(out, r)
		}
	}
	return iterators.Slice(out), nil
}

func zzBug1Dump(data lokiapi.QueryResponseData) string {
	var lines []string
	for _, ser := range data.MatrixResult.Result {
		var sb strings.Builder
		fmt.Fprintf(&sb, "%v:", ser.Metric.Value)
		for _, p := range ser.Values {
			fmt.Fprintf(&sb, " %s@%.0f", p.V, p.T)
		}
		lines = append(lines, sb.String())
	}
	sort.Strings(lines)
	return strings.Join(lines, "\n")
}

// TestBugBinaryMinusBeforeNegativeLiteral: `x --1` is the vector x minus the scalar
// literal -1 (PromQL and Loki both read it as `x - -1`); the lexer turns every `--`
// into a parser-flag token, so the query is rejected instead of yielding x+1.
func TestBugBinaryMinusBeforeNegativeLiteral(t *testing.T) {
	start := time.Unix(1700000000, 0)
	end := start.Add(2 * time.Second)

	// Container "a": 1, 2, 3 lines in the three 1s windows; container "b": 2 lines in each.
	var recs []logstorage.Record
	add := func(ts time.Time, ctr string) {
		attrs := pcommon.NewMap()
		attrs.PutStr("container", ctr)
		recs = append(recs, logstorage.Record{
			Timestamp:     otelstorage.NewTimestampFromTime(ts),
			Body:          "line",
			Attrs:         otelstorage.Attrs(attrs),
			ScopeAttrs:    otelstorage.Attrs(pcommon.NewMap()),
			ResourceAttrs: otelstorage.Attrs(pcommon.NewMap()),
		})
	}
	for step := 0; step < 3; step++ {
		base := start.Add(time.Duration(step)*time.Second - 900*time.Millisecond)
		for k := 0; k <= step; k++ {
			add(base.Add(time.Duration(k)*100*time.Millisecond), "a")
		}
		for k := 0; k < 2; k++ {
			add(base.Add(time.Duration(k)*100*time.Millisecond+50*time.Millisecond), "b")
		}
	}
	sort.SliceStable(recs, func(i, j int) bool { return recs[i].Timestamp < recs[j].Timestamp })

	eval := func(query string) (string, error) {
		e := NewEngine(&zzBug1Querier{recs: recs}, Options{})
		data, err := e.Eval(context.Background(), query, EvalParams{
			Start: otelstorage.NewTimestampFromTime(start),
			End:   otelstorage.NewTimestampFromTime(end),
			Step:  time.Second,
		})
		if err != nil {
			return "", err
		}
		return zzBug1Dump(data), nil
	}

	const x = `sum by (container) (count_over_time({container=~".+"}[1s]))`

	for _, tc := range []struct{ query, spaced string }{
		{x + ` --1`, x + ` - -1`},
		{x + `--1`, x + ` - -1`},
		{x + ` --0.5`, x + ` - -0.5`},
		{`vector(3) --1`, `vector(3) - -1`},
	} {
		want, err := eval(tc.spaced)
		if err != nil {
			t.Fatalf("reference query %q failed: %v", tc.spaced, err)
		}
		if want == "" {
			t.Fatalf("reference query %q returned no series", tc.spaced)
		}
		got, err := eval(tc.query)
		if err != nil {
			t.Errorf("input: range query %q over 3 steps (vector - scalar literal with a negative scalar, written without a blank between the two minus signs).\n"+
				"property requires: one series per input series with `-` applied to its value and the negative scalar on the right, i.e. the same result as %q:\n%s\n"+
				"program did: returned error %q",
				tc.query, tc.spaced, want, err)
			continue
		}
		if got != want {
			t.Errorf("input: %q\nproperty requires the result of %q:\n%s\nprogram returned:\n%s", tc.query, tc.spaced, want, got)
		}
	}
}
