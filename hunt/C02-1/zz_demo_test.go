package dockerlog

import (
	"bytes"
	"context"
	"encoding/binary"
	"fmt"
	"io"
	"sort"
	"strings"
	"sync"
	"testing"
	"time"

	"github.com/docker/docker/api/types"
	apicontainer "github.com/docker/docker/api/types/container"
	"github.com/docker/docker/client"
	"go.opentelemetry.io/collector/pdata/pcommon"

	"github.com/tdakkota/docker-logql/internal/logql/logqlengine"
	"github.com/tdakkota/docker-logql/internal/lokiapi"
)

// ---- fake Docker daemon -------------------------------------------------

type demoCtr struct {
	c     types.Container
	lines []string // "<RFC3339Nano> <message>"
}

type demoClient struct {
	client.APIClient // nil: only the two methods below are ever called
	ctrs             []demoCtr

	mu   sync.Mutex
	read []string // container ids whose logs were requested
}

func (f *demoClient) ContainerList(context.Context, apicontainer.ListOptions) ([]types.Container, error) {
	var r []types.Container
	for _, c := range f.ctrs {
		r = append(r, c.c)
	}
	return r, nil
}

func (f *demoClient) ContainerLogs(_ context.Context, id string, _ apicontainer.LogsOptions) (io.ReadCloser, error) {
	f.mu.Lock()
	f.read = append(f.read, id)
	f.mu.Unlock()
	for _, c := range f.ctrs {
		if c.c.ID != id {
			continue
		}
		var b bytes.Buffer
		for _, l := range c.lines {
			var h [8]byte
			h[0] = 1 // stdout
			binary.BigEndian.PutUint32(h[4:], uint32(len(l)))
			b.Write(h[:])
			b.WriteString(l)
		}
		return io.NopCloser(&b), nil
	}
	return nil, fmt.Errorf("no such container %q", id)
}

func (f *demoClient) readIDs() string {
	f.mu.Lock()
	defer f.mu.Unlock()
	r := append([]string(nil), f.read...)
	sort.Strings(r)
	return "[" + strings.Join(r, " ") + "]"
}

func demoContainer(id, name string, dockerLabels map[string]string, msgs ...string) demoCtr {
	var lines []string
	for i, m := range msgs {
		lines = append(lines, time.Unix(100, int64(i)).UTC().Format(time.RFC3339Nano)+" "+m+"\n")
	}
	return demoCtr{
		c: types.Container{
			ID:     id,
			Names:  []string{"/" + name},
			Image:  "image-of-" + name,
			State:  "running",
			Labels: dockerLabels,
		},
		lines: lines,
	}
}

func demoQuery(t *testing.T, f *demoClient, query string) lokiapi.Streams {
	t.Helper()
	q, err := NewQuerier(f)
	if err != nil {
		t.Fatal(err)
	}
	eng := logqlengine.NewEngine(q, logqlengine.Options{})
	data, err := eng.Eval(context.Background(), query, logqlengine.EvalParams{
		Start: pcommon.NewTimestampFromTime(time.Unix(50, 0)),
		End:   pcommon.NewTimestampFromTime(time.Unix(200, 0)),
		Step:  time.Second,
		Limit: -1,
	})
	if err != nil {
		t.Fatalf("query %s: unexpected error: %v", query, err)
	}
	return data.StreamsResult.Result
}

// ---- demonstrations -----------------------------------------------------

// A Docker label whose sanitised key equals a built-in label ("container",
// "container_name", "container_id", ...) silently replaces the built-in one.
func TestBugDockerLabelOverridesBuiltinContainerLabels(t *testing.T) {
	inventory := func() *demoClient {
		return &demoClient{ctrs: []demoCtr{
			// Container NAMED "web". It merely has Docker labels
			// `container=db` and `container.name=db` (e.g. "the db this frontend talks to").
			demoContainer("id-web", "web", map[string]string{
				"container":      "db",
				"container.name": "db",
			}, "line produced by web"),
			// Container NAMED "db".
			demoContainer("id-db", "db", nil, "line produced by db"),
		}}
	}
	const inv = `inventory: {id=id-web name=/web dockerLabels={container:"db", "container.name":"db"}}, {id=id-db name=/db}`

	// 1. The container named "web" must be selected by its name.
	f := inventory()
	demoQuery(t, f, `{container_name="web"}`)
	if got, want := f.readIDs(), "[id-web]"; got != want {
		t.Errorf("%s\nquery {container_name=\"web\"}: property requires that exactly the containers whose container name is \"web\" are read, i.e. %s; program read logs of %s",
			inv, want, got)
	}

	// 2. Selecting container "db" must read only the container named "db" ...
	f = inventory()
	streams := demoQuery(t, f, `{container="db"}`)
	if got, want := f.readIDs(), "[id-db]"; got != want {
		t.Errorf("%s\nquery {container=\"db\"}: property requires that exactly the containers whose container name is \"db\" are read, i.e. %s; program read logs of %s",
			inv, want, got)
	}
	// ... and no returned line may claim another origin than the container that produced it.
	for _, s := range streams {
		labels := s.Stream.Value
		for _, e := range s.Values {
			if strings.Contains(e.V, "produced by web") && (labels["container"] != "web" || labels["container_name"] != "web") {
				t.Errorf("%s\nquery {container=\"db\"}: line %q was produced by the container named \"web\"; property requires it to carry that container's labels (container=\"web\", container_name=\"web\"); program returned it with container=%q container_name=%q",
					inv, e.V, labels["container"], labels["container_name"])
			}
		}
	}
}

// Two Docker labels whose keys collide after sanitisation ("app.name" and
// "app-name" both become "app_name") are resolved by Go map iteration order,
// so the very same inventory and selector select different container sets from
// run to run.
//
// The violation is schedule (map-order) dependent: the query is repeated on a
// fresh, identical inventory up to 2000 times until two different outcomes
// have been observed.
func TestBugCollidingDockerLabelsSelectNondeterministically(t *testing.T) {
	const (
		query = `{app_name="a"}`
		inv   = `inventory: {id=id-web name=/web dockerLabels={"app.name":"a", "app-name":"b"}}`
		bound = 2000
	)
	outcomes := map[string]int{}
	for i := 0; i < bound && len(outcomes) < 2; i++ {
		f := &demoClient{ctrs: []demoCtr{
			demoContainer("id-web", "web", map[string]string{
				"app.name": "a",
				"app-name": "b",
			}, "hello"),
		}}
		demoQuery(t, f, query)
		outcomes[f.readIDs()]++
	}
	if len(outcomes) > 1 {
		t.Errorf("%s\nquery %s repeated on the identical inventory: property requires the set of containers read to be exactly the set determined by the labels and the selector (one fixed set); program read different sets in different runs: %v (sets read -> number of runs)",
			inv, query, outcomes)
	}
}
