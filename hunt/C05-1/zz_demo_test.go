package logql

import (
	"reflect"
	"testing"
	"time"
)

// A vector aggregation whose operand is a binary expression that STARTS with a
// number literal (`sum(100 * rate(...))`) is a valid LogQL query: the operand of
// a vector aggregation is any metric expression, and this very parser accepts
// the same operand as soon as it is wrapped in redundant parentheses or given a
// redundant unary plus. The plain spelling must be accepted and must denote
// the same structure.
func TestBugVectorAggregationOperandStartingWithNumber(t *testing.T) {
	rate := func() *RangeAggregationExpr {
		return &RangeAggregationExpr{
			Op: RangeOpRate,
			Range: LogRangeExpr{
				Sel: Selector{Matchers: []LabelMatcher{
					{Label: "a", Op: OpEq, Value: "b"},
				}},
				Range: time.Minute,
			},
		}
	}

	for _, tt := range []struct {
		input     string // query under test
		redundant string // same query with one pair of redundant parentheses
		want      Expr   // structure the text denotes
	}{
		{
			input:     `sum(100 * rate({a="b"}[1m]))`,
			redundant: `sum((100 * rate({a="b"}[1m])))`,
			want: &VectorAggregationExpr{
				Op:   VectorOpSum,
				Expr: &BinOpExpr{Left: &LiteralExpr{Value: 100}, Op: OpMul, Right: rate()},
			},
		},
		{
			input:     `max by (a) (1 - rate({a="b"}[1m]))`,
			redundant: `max by (a) ((1 - rate({a="b"}[1m])))`,
			want: &VectorAggregationExpr{
				Op:       VectorOpMax,
				Expr:     &BinOpExpr{Left: &LiteralExpr{Value: 1}, Op: OpSub, Right: rate()},
				Grouping: &Grouping{Labels: []Label{"a"}},
			},
		},
		{
			input:     `topk(3, 2 * rate({a="b"}[1m]))`, // control: number after the parameter is fine
			redundant: `topk(3, (2 * rate({a="b"}[1m])))`,
			want: &VectorAggregationExpr{
				Op:        VectorOpTopk,
				Parameter: ptrInt(3),
				Expr:      &BinOpExpr{Left: &LiteralExpr{Value: 2}, Op: OpMul, Right: rate()},
			},
		},
	} {
		// The parenthesised spelling is accepted, which shows that the
		// operand itself is inside the supported grammar.
		red, err := Parse(tt.redundant, ParseOptions{})
		if err != nil {
			t.Fatalf("control query %q must parse, got error: %v", tt.redundant, err)
		}
		redAgg, ok := red.(*VectorAggregationExpr)
		if !ok {
			t.Fatalf("control query %q: got %T", tt.redundant, red)
		}
		redAgg.Expr = UnparenExpr(redAgg.Expr).(MetricExpr)
		if !reflect.DeepEqual(red, tt.want) {
			t.Fatalf("control query %q parsed to unexpected structure %#v", tt.redundant, red)
		}

		got, err := Parse(tt.input, ParseOptions{})
		if err != nil {
			t.Errorf("input %q: a syntactically valid query must be accepted and parsed into the structure "+
				"its text denotes, independent of redundant parentheses (the spelling %q IS accepted); "+
				"the parser rejected it: %v", tt.input, tt.redundant, err)
			continue
		}
		if !reflect.DeepEqual(got, tt.want) {
			t.Errorf("input %q: parsed into %#v, want %#v", tt.input, got, tt.want)
		}
	}
}

func ptrInt(v int) *int { return &v }
