package logqlengine

import (
	"testing"

	"github.com/tdakkota/docker-logql/internal/logql"
	"github.com/tdakkota/docker-logql/internal/otelstorage"
)

// The empty string is a legal JSON object key (and a legal key in the Docker API label
// map). The property says every key is mapped to a VALID LogQL label name.
func TestBugEmptyKeyMapsToInvalidLabel(t *testing.T) {
	// 1. The mapping itself.
	if got := otelstorage.KeyToLabel(""); logql.IsValidLabel(got, false) != nil {
		t.Errorf("KeyToLabel(%q) = %q; property requires a valid LogQL label name "+
			"(letters, digits, underscore, not starting with a digit), but IsValidLabel says: %v",
			"", got, logql.IsValidLabel(got, false))
	}

	// 2. `| json` without a field list on a line with an empty key.
	p, err := buildJSONExtractor(&logql.JSONExpressionParser{})
	if err != nil {
		t.Fatal(err)
	}
	set := newLabelSet()
	line := `{"":"x","ok":"y"}`
	p.Process(1, line, set)
	for name, v := range set.AsMap() {
		if err := logql.IsValidLabel(name, false); err != nil {
			t.Errorf("line %s | json: extracted label %q=%q; property requires every extracted JSON key to be "+
				"mapped to a valid LogQL label name, but %q is not one: %v (label set: %s)",
				line, name, v, name, err, set.String())
		}
	}

	// 3. The same through resource attributes (how Docker labels reach the engine).
	// A label with an empty name can never be written in a selector: {="x"} does not parse.
	if _, err := logql.ParseSelector(`{`+otelstorage.KeyToLabel("")+`="x"}`, logql.ParseOptions{}); err != nil {
		t.Errorf("Docker label %q=\"x\": property requires selector {sanitised(k)=\"x\"} to select the container, "+
			"but the selector {=\"x\"} does not even parse: %v", "", err)
	}
}
