package dockerlog

import (
	"bufio"
	"context"
	"encoding/binary"
	"fmt"
	"io"
	"net/http"
	"net/http/httptest"
	"strings"
	"sync"
	"testing"
	"time"

	"github.com/docker/docker/api/types"
	apicontainer "github.com/docker/docker/api/types/container"
	"github.com/docker/docker/client"
	"go.opentelemetry.io/collector/pdata/pcommon"

	"github.com/tdakkota/docker-logql/internal/logql/logqlengine"
)

// ---- fake Docker client -------------------------------------------------

type bugReader struct {
	mu     sync.Mutex
	data   []byte
	endErr error // returned once data is exhausted; nil means io.EOF
	closed bool
}

func (r *bugReader) Read(p []byte) (int, error) {
	if len(r.data) == 0 {
		if r.endErr != nil {
			return 0, r.endErr
		}
		return 0, io.EOF
	}
	n := copy(p, r.data)
	r.data = r.data[n:]
	return n, nil
}

func (r *bugReader) Close() error {
	r.mu.Lock()
	r.closed = true
	r.mu.Unlock()
	return nil
}

type bugStream struct {
	data   []byte
	endErr error
}

type bugClient struct {
	client.APIClient
	names   []string
	streams map[string]bugStream
}

func (c *bugClient) ContainerList(context.Context, apicontainer.ListOptions) (r []types.Container, _ error) {
	for _, name := range c.names {
		r = append(r, types.Container{ID: name, Names: []string{"/" + name}})
	}
	return r, nil
}

func (c *bugClient) ContainerLogs(_ context.Context, id string, _ apicontainer.LogsOptions) (io.ReadCloser, error) {
	s := c.streams[id]
	return &bugReader{data: append([]byte(nil), s.data...), endErr: s.endErr}, nil
}

var bugBase = time.Date(2024, 1, 1, 0, 0, 0, 0, time.UTC)

// bugFrame builds one frame of Docker's multiplexed log stream (stdout).
func bugFrame(sec int, msg string) []byte {
	payload := bugBase.Add(time.Duration(sec)*time.Second).Format(time.RFC3339Nano) + " " + msg + "\n"
	var h [8]byte
	h[0] = 1
	binary.BigEndian.PutUint32(h[4:], uint32(len(payload)))
	return append(h[:], payload...)
}

func bugEval(c client.APIClient, query string) (string, error) {
	q, _ := NewQuerier(c)
	eng := logqlengine.NewEngine(q, logqlengine.Options{})
	data, err := eng.Eval(context.Background(), query, logqlengine.EvalParams{
		Start: pcommon.NewTimestampFromTime(bugBase.Add(-time.Minute)),
		End:   pcommon.NewTimestampFromTime(bugBase.Add(5 * time.Minute)),
		Step:  time.Minute,
		Limit: -1,
	})
	b, _ := data.MarshalJSON()
	return string(b), err
}

var bugQueries = []string{
	`{}`,                                // log query
	`count_over_time({}[10m])`,          // range aggregation
	`rate({}[1m]) / rate({}[2m])`,       // binary operation over two selections
	`sum(count_over_time({}[10m])) * 2`, // vector aggregation and a literal operand
}

// A read error is swallowed when the error value happens to be io.ErrUnexpectedEOF.
//
// That is exactly what net/http hands out when the connection to the daemon is
// lost in the middle of a chunked (or Content-Length delimited) response body.
func TestBugReadErrorUnexpectedEOFIsSwallowed(t *testing.T) {
	healthy := append(append(bugFrame(0, "a0"), bugFrame(2, "a1")...), bugFrame(4, "a2")...)
	for _, query := range bugQueries {
		for _, names := range [][]string{{"victim"}, {"ok1", "victim", "ok2"}} {
			// The victim's stream delivers ONE of its three lines, then the read fails.
			c := &bugClient{names: names, streams: map[string]bugStream{
				"ok1":    {data: healthy},
				"ok2":    {data: healthy},
				"victim": {data: bugFrame(1, "v0"), endErr: io.ErrUnexpectedEOF},
			}}
			out, err := bugEval(c, query)
			if err == nil {
				t.Errorf("query %s over containers %v: the victim's log reader returned the read error %q after its first frame.\n"+
					"The property requires: a read error at any position of any stream makes the query return an error, never a silently truncated result.\n"+
					"The program returned err == nil and this (truncated) result: %.300s",
					query, names, io.ErrUnexpectedEOF, out)
			}

			// Control: any other error value at the same position is reported.
			c.streams["victim"] = bugStream{data: bugFrame(1, "v0"), endErr: fmt.Errorf("connection reset by peer")}
			if _, err := bugEval(c, query); err == nil {
				t.Errorf("control failed: query %s: a differently spelled read error was not reported either", query)
			}
		}
	}
}

// A stream that breaks inside a frame header (after 1..7 of its 8 bytes) is taken for a clean end.
func TestBugStreamBrokenInsideHeaderIsSwallowed(t *testing.T) {
	full := append(append(bugFrame(0, "v0"), bugFrame(2, "v1")...), bugFrame(4, "v2")...)
	first := len(bugFrame(0, "v0"))
	for _, query := range bugQueries {
		for _, names := range [][]string{{"victim"}, {"ok1", "victim"}} {
			for cut := first + 1; cut < first+8; cut++ {
				c := &bugClient{names: names, streams: map[string]bugStream{
					"ok1":    {data: full},
					"victim": {data: full[:cut]}, // plain EOF afterwards
				}}
				out, err := bugEval(c, query)
				if err == nil {
					t.Errorf("query %s over containers %v: the victim's stream (3 frames, %d bytes) breaks at byte %d, i.e. %d bytes into the header of its second frame.\n"+
						"The property requires an error for a stream that breaks at any byte / a malformed frame at any position.\n"+
						"The program returned err == nil and a result holding only the first line: %.200s",
						query, names, len(full), cut, cut-first, out)
				}
			}
			// Control: breaking one byte later (inside the payload) is reported.
			c := &bugClient{names: names, streams: map[string]bugStream{
				"ok1":    {data: full},
				"victim": {data: full[:first+9]},
			}}
			if _, err := bugEval(c, query); err == nil {
				t.Errorf("control failed: query %s: a break inside the payload was not reported either", query)
			}
		}
	}
}

// End to end, with the real Docker client talking HTTP to a daemon that dies
// after it has sent one complete frame of a chunked /logs response.
func TestBugDaemonDiesMidStreamEndToEnd(t *testing.T) {
	srv := httptest.NewServer(http.HandlerFunc(func(w http.ResponseWriter, r *http.Request) {
		switch {
		case strings.HasSuffix(r.URL.Path, "/containers/json"):
			w.Header().Set("Content-Type", "application/json")
			_, _ = io.WriteString(w, `[{"Id":"victim","Names":["/victim"]}]`)
		case strings.HasSuffix(r.URL.Path, "/logs"):
			conn, _, err := w.(http.Hijacker).Hijack()
			if err != nil {
				panic(err)
			}
			frame := bugFrame(1, "the only line that got through")
			bw := bufio.NewWriter(conn)
			fmt.Fprintf(bw, "HTTP/1.1 200 OK\r\nContent-Type: application/vnd.docker.multiplexed-stream\r\nTransfer-Encoding: chunked\r\n\r\n")
			fmt.Fprintf(bw, "%x\r\n%s\r\n", len(frame), frame)
			_ = bw.Flush()
			// The daemon dies: no terminating chunk.
			_ = conn.Close()
		default:
			http.NotFound(w, r)
		}
	}))
	defer srv.Close()

	c, err := client.NewClientWithOpts(
		client.WithHost("tcp://"+strings.TrimPrefix(srv.URL, "http://")),
		client.WithVersion("1.43"),
	)
	if err != nil {
		t.Fatal(err)
	}
	defer c.Close()

	// What does the transport report for that body? (documents the premise)
	rc, err := c.ContainerLogs(context.Background(), "victim", apicontainer.LogsOptions{ShowStdout: true})
	if err != nil {
		t.Fatal(err)
	}
	_, readErr := io.ReadAll(rc)
	_ = rc.Close()
	if readErr == nil {
		t.Skip("transport did not report the aborted body; premise does not hold on this platform")
	}

	for _, query := range bugQueries[:2] {
		out, err := bugEval(c, query)
		if err == nil {
			t.Errorf("query %s: the daemon closed the connection in the middle of the chunked /logs body (reading that body by hand fails with %q).\n"+
				"The property requires the query to return an error, never a silently truncated result.\n"+
				"The program returned err == nil and: %.300s", query, readErr, out)
		}
	}
}
