package dockerlog

import (
	"bytes"
	"context"
	"encoding/binary"
	"io"
	"testing"
	"time"

	"github.com/docker/docker/api/types"
	apicontainer "github.com/docker/docker/api/types/container"
	"github.com/docker/docker/client"

	"github.com/tdakkota/docker-logql/internal/logql/logqlengine"
	"github.com/tdakkota/docker-logql/internal/otelstorage"
)

// demoDockerClient is a fake Docker daemon with one container whose log is a
// fixed list of lines. The log is served exactly as the daemon serves it:
// multiplexed stdout frames "<RFC3339Nano timestamp> <line>\n".
type demoDockerClient struct {
	client.APIClient
	lines []string
}

func (c *demoDockerClient) ContainerList(context.Context, apicontainer.ListOptions) ([]types.Container, error) {
	return []types.Container{{ID: "c1", Names: []string{"/web"}}}, nil
}

func (c *demoDockerClient) ContainerLogs(context.Context, string, apicontainer.LogsOptions) (io.ReadCloser, error) {
	var buf bytes.Buffer
	ts := time.Date(2024, 2, 11, 9, 37, 32, 0, time.UTC)
	for i, l := range c.lines {
		payload := ts.Add(time.Duration(i)*time.Second).Format(time.RFC3339Nano) + " " + l + "\n"
		var hdr [8]byte
		hdr[0] = 1 // stdout
		binary.BigEndian.PutUint32(hdr[4:], uint32(len(payload)))
		buf.Write(hdr[:])
		buf.WriteString(payload)
	}
	return io.NopCloser(&buf), nil
}

func demoEval(t *testing.T, query string, lines ...string) (labelSets []map[string]string, entries []string) {
	t.Helper()
	q, err := NewQuerier(&demoDockerClient{lines: lines})
	if err != nil {
		t.Fatal(err)
	}
	eng := logqlengine.NewEngine(q, logqlengine.Options{})
	data, err := eng.Eval(context.Background(), query, logqlengine.EvalParams{
		Start:     otelstorage.NewTimestampFromTime(time.Date(2024, 2, 11, 0, 0, 0, 0, time.UTC)),
		End:       otelstorage.NewTimestampFromTime(time.Date(2024, 2, 12, 0, 0, 0, 0, time.UTC)),
		Direction: "forward",
		Limit:     100,
	})
	if err != nil {
		t.Fatalf("eval %q: %v", query, err)
	}
	streams, ok := data.GetStreamsResult()
	if !ok {
		t.Fatalf("eval %q: not a streams result", query)
	}
	for _, s := range streams.Result {
		labelSets = append(labelSets, map[string]string(s.Stream.Value))
		for _, v := range s.Values {
			entries = append(entries, v.V)
		}
	}
	return labelSets, entries
}

// The container printed the delimiter-separated line "GET /index.html".
// `| pattern "<method> <path>"` must expose path="/index.html" (the property:
// "Every field present in a well-formed line is exposed as a label with
// exactly its value"). The Docker reader keeps the frame's trailing "\n" in
// the line, the pattern stage captures "everything up to the end", so the
// label comes out as "/index.html\n".
func TestBugPatternLastCaptureIncludesDockerLineTerminator(t *testing.T) {
	const query = `{container="web"} | pattern "<method> <path>"`
	sets, entries := demoEval(t, query, "GET /index.html")
	if len(entries) != 1 || len(sets) != 1 {
		t.Fatalf("query %s over container log line %q: want 1 entry in 1 stream, got entries=%q streams=%d",
			query, "GET /index.html", entries, len(sets))
	}
	if got, want := sets[0]["method"], "GET"; got != want {
		t.Errorf("label method = %q, want %q", got, want)
	}
	if got, want := sets[0]["path"], "/index.html"; got != want {
		t.Errorf("query %s over the container log line %q: the property requires the field to be exposed "+
			"with exactly its value, label path = %q; program produced path = %q "+
			"(Docker's line terminator leaked into the field value)",
			query, "GET /index.html", want, got)
	}
}

// Consequence for a user: filtering on the extracted field never matches.
func TestBugPatternFieldCannotBeFilteredOn(t *testing.T) {
	const query = `{container="web"} | pattern "<method> <path>" | path = "/index.html"`
	_, entries := demoEval(t, query, "GET /index.html", "GET /other")
	if len(entries) != 1 {
		t.Errorf("query %s over container log lines %q: the line \"GET /index.html\" has field path=/index.html "+
			"and must be returned (1 entry); program returned %d entries: %q",
			query, []string{"GET /index.html", "GET /other"}, len(entries), entries)
	}
}

// Same glue problem for the regexp stage: an end-anchored capture regex never
// matches a well-formed line, so none of its fields is exposed.
func TestBugRegexpEndAnchoredNeverMatchesDockerLine(t *testing.T) {
	const query = `{container="web"} | regexp "status=(?P<status>\\d+)$"`
	sets, entries := demoEval(t, query, "request done status=200")
	if len(entries) != 1 || len(sets) != 1 {
		t.Fatalf("query %s: want 1 entry in 1 stream, got entries=%q streams=%d", query, entries, len(sets))
	}
	if got, want := sets[0]["status"], "200"; got != want {
		t.Errorf("query %s over the container log line %q: the property requires label status = %q; "+
			"program produced status = %q (present=%v) because the line handed to the stage is %q",
			query, "request done status=200", want, got, got != "", entries[0])
	}
}
