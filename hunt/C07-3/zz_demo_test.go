package logqlengine

import (
	"testing"

	"go.opentelemetry.io/collector/pdata/pcommon"

	"github.com/tdakkota/docker-logql/internal/logql"
)

func TestBugLabelFormatSelfRenameDeletesLabel(t *testing.T) {
	for _, query := range []string{
		`{job="x"} | label_format foo=foo`,
		// The same through the LabelFormat (rename + template) processor.
		`{job="x"} | label_format foo=foo, other="{{.bar}}"`,
	} {
		in := map[string]string{"foo": "1", "bar": "2"}

		expr, err := logql.Parse(query, logql.ParseOptions{})
		if err != nil {
			t.Fatalf("parse %q: %v", query, err)
		}
		le, ok := expr.(*logql.LogExpr)
		if !ok {
			t.Fatalf("query %q: unexpected expression type %T", query, expr)
		}
		p, err := BuildPipeline(le.Pipeline...)
		if err != nil {
			t.Fatalf("build pipeline %q: %v", query, err)
		}
		set := newLabelSet()
		for k, v := range in {
			set.Set(logql.Label(k), pcommon.NewValueStr(v))
		}
		line, keep := p.Process(pcommon.Timestamp(1700000001_000000000), "the line", set)
		if !keep || line != "the line" {
			t.Fatalf("query %s: label_format must not drop or change the line, got line=%q keep=%v", query, line, keep)
		}
		out := set.AsMap()
		if got, ok := out["foo"]; !ok || got != "1" {
			t.Errorf("query %s on labels %v: the property requires label_format dst=src to RENAME label src to dst; "+
				"renaming foo to foo must leave foo=\"1\" in place, but the program DELETED the label "+
				"(foo present=%v value=%q, result labels %v)", query, in, ok, got, out)
		}
	}
}
