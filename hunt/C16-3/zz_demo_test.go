package main

import (
	"testing"
	"time"

	"github.com/tdakkota/docker-logql/internal/lokiapi"
)

// TestBugEmptyStartEndSilentlyDefaulted shows that `--start=` / `--end=` (an
// explicitly given, malformed, empty timestamp, e.g. `--end "$END"` with END
// unset) are not rejected: they are silently replaced by the defaults, whereas
// the equally empty `--since=` and `--step=` are rejected.
func TestBugEmptyStartEndSilentlyDefaulted(t *testing.T) {
	now := time.Date(2024, 1, 1, 0, 0, 0, 0, time.UTC)

	// Exactly what queryCmd does: the pflag.Value receives the flag's text.
	var (
		start = apiFlagFor[lokiapi.OptLokiTime]("`end - since`")
		end   = apiFlagFor[lokiapi.OptLokiTime]("now")
		since = apiFlagFor[lokiapi.OptPrometheusDuration]("6h")
		step  = apiFlagFor[lokiapi.OptPrometheusDuration]("")
	)

	// Control: the empty spelling IS rejected for the two duration flags.
	if err := since.Set(""); err != nil {
		t.Fatal(err)
	}
	if _, _, err := parseTimeRange(now, *start.Val, *end.Val, *since.Val); err == nil {
		t.Fatalf("control: --since= was accepted")
	}
	if err := step.Set(""); err != nil {
		t.Fatal(err)
	}
	if _, err := parseStep(*step.Val, now.Add(-time.Hour), now); err == nil {
		t.Fatalf("control: --step= was accepted")
	}

	for _, flag := range []string{"--end", "--start"} {
		start = apiFlagFor[lokiapi.OptLokiTime]("`end - since`")
		end = apiFlagFor[lokiapi.OptLokiTime]("now")
		since = apiFlagFor[lokiapi.OptPrometheusDuration]("6h")

		f := &end
		if flag == "--start" {
			f = &start
		}
		if err := f.Set(""); err != nil {
			t.Fatal(err)
		}
		if _, set := f.Val.Get(); !set {
			t.Fatalf("test set-up: %s= did not mark the flag as present", flag)
		}

		s, e, err := parseTimeRange(now, *start.Val, *end.Val, *since.Val)
		if err == nil {
			t.Errorf("%s= (flag present, value %q is not a unix/fractional/RFC3339 timestamp): "+
				"the property requires malformed values to be rejected rather than silently replaced by a default, "+
				"but the program returned no error and resolved start=%s end=%s, i.e. the defaults (now-6h, now)",
				flag, "", s.UTC().Format(time.RFC3339Nano), e.UTC().Format(time.RFC3339Nano))
		}
	}
}
