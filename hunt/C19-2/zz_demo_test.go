package dockerlog

import (
	"bytes"
	"context"
	"encoding/binary"
	"fmt"
	"io"
	"sort"
	"testing"

	"github.com/docker/docker/api/types"
	apicontainer "github.com/docker/docker/api/types/container"
	"github.com/docker/docker/client"

	"github.com/tdakkota/docker-logql/internal/logql/logqlengine"
)

// bugFakeDocker is a Docker daemon with one container and a fixed log.
type bugFakeDocker struct {
	client.APIClient // nil: any other call panics

	containers []types.Container
	logs       map[string][]string // container ID -> "timestamp line"
}

func (d *bugFakeDocker) ContainerList(context.Context, apicontainer.ListOptions) ([]types.Container, error) {
	return d.containers, nil
}

func (d *bugFakeDocker) ContainerLogs(_ context.Context, id string, _ apicontainer.LogsOptions) (io.ReadCloser, error) {
	var buf bytes.Buffer
	for _, l := range d.logs[id] {
		var hdr [8]byte
		hdr[0] = 1 // stdout
		binary.BigEndian.PutUint32(hdr[4:], uint32(len(l)))
		buf.Write(hdr[:])
		buf.WriteString(l)
	}
	return io.NopCloser(&buf), nil
}

func bugEval(t *testing.T, d *bugFakeDocker, query string) []string {
	t.Helper()
	q, err := NewQuerier(d)
	if err != nil {
		t.Fatal(err)
	}
	eng := logqlengine.NewEngine(q, logqlengine.Options{})
	data, err := eng.Eval(context.Background(), query, logqlengine.EvalParams{
		Start: 1600000000_000000000,
		End:   1800000000_000000000,
		Limit: -1,
	})
	if err != nil {
		t.Fatalf("eval %q: %v", query, err)
	}
	streams, ok := data.GetStreamsResult()
	if !ok {
		t.Fatalf("eval %q: not a streams result", query)
	}
	var r []string
	for _, s := range streams.Result {
		for _, v := range s.Values {
			r = append(r, fmt.Sprintf("%d %q", v.T, v.V))
		}
	}
	sort.Strings(r)
	return r
}

// Property: "a filter and its negation (... label = and != ...) split q's result into
// two disjoint parts that together are q's result".
//
// A container carrying two Docker labels whose names collide after sanitisation
// ("app.tier" and "app_tier" both become the LogQL label app_tier) gets the value of
// whichever label Go's randomised map iteration visits last, so the value of app_tier
// changes from one evaluation to the next over the SAME data. `q | app_tier = "web"`
// and `q | app_tier != "web"` then sometimes both return every record and sometimes
// both return nothing.
//
// The violation depends on map iteration order, so the test repeats the pair of
// queries up to 200 times and stops at the first violation (each round fails with
// probability about 1/2).
func TestBugCollidingDockerLabelsBreakFilterComplement(t *testing.T) {
	d := &bugFakeDocker{
		containers: []types.Container{{
			ID:    "c1",
			Names: []string{"/web"},
			Labels: map[string]string{
				"app.tier": "web",
				"app_tier": "db",
			},
		}},
		logs: map[string][]string{
			"c1": {
				"2023-11-14T22:13:20.000000001Z first line",
				"2023-11-14T22:13:21.000000001Z second line",
			},
		},
	}

	const (
		base = `{container="web"}`
		posQ = base + ` | app_tier = "web"`
		negQ = base + ` | app_tier != "web"`
	)
	all := bugEval(t, d, base)
	if len(all) != 2 {
		t.Fatalf("setup: %s returned %q, want 2 records", base, all)
	}

	for round := 1; round <= 200; round++ {
		pos := bugEval(t, d, posQ)
		neg := bugEval(t, d, negQ)
		if len(pos)+len(neg) == len(all) {
			continue
		}
		t.Fatalf("round %d: one container with Docker labels {app.tier=web, app_tier=db} and 2 log lines:\n"+
			"  %s returned %d records: %q\n"+
			"  %s returned %d records: %q\n"+
			"  %s returned %d records: %q\n"+
			"the property requires the filter and its negation to split q's result into two disjoint parts "+
			"that together are q's result, but together they hold %d records instead of %d",
			round, base, len(all), all, posQ, len(pos), pos, negQ, len(neg), neg, len(pos)+len(neg), len(all))
	}
}

// The same defect seen directly: the label set of one unchanged container is not a
// function of the container.
func TestBugCollidingDockerLabelsAreNondeterministic(t *testing.T) {
	ctr := types.Container{
		ID:     "c1",
		Names:  []string{"/web"},
		Labels: map[string]string{"app.tier": "web", "app_tier": "db"},
	}
	first := getLabels(ctr).labels["app_tier"]
	for i := 0; i < 200; i++ {
		if got := getLabels(ctr).labels["app_tier"]; got != first {
			t.Fatalf("getLabels on the same container {app.tier=web, app_tier=db}: label app_tier was %q, then %q on call %d; "+
				"filters app_tier = %q and app_tier != %q can therefore both match (or both miss) the same record",
				first, got, i+2, first, first)
		}
	}
}
