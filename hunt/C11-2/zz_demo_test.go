package logqlengine

import (
	"fmt"
	"sort"
	"testing"

	"go.opentelemetry.io/collector/pdata/pcommon"

	"github.com/tdakkota/docker-logql/internal/iterators"
	"github.com/tdakkota/docker-logql/internal/logql"
	"github.com/tdakkota/docker-logql/internal/logql/logqlengine/logqlmetric"
)

// Two different, purely alphanumeric 100-byte values of the label "path".
// They differ in bytes 7..14 and 39..46.
const (
	zzDemoPath1 = "AAAAAAAAAAAAAAAAAAAAAAAAAAAAAAAAAAAAAAAAAAAAAAAAAAAAAAAAAAAAAAAAAAAAAAAAAAAAAAAAAAAAAAAAAAAAAAAAAAAA"
	zzDemoPath2 = "AAAAAAAaaaacgLZAAAAAAAAAAAAAAAAAAAAAAAAVs9AY5X0AAAAAAAAAAAAAAAAAAAAAAAAAAAAAAAAAAAAAAAAAAAAAAAAAAAAA"
)

func zzDemoSeries(value float64, labels map[string]string) logqlmetric.Sample {
	set := newLabelSet()
	for k, v := range labels {
		set.Set(logql.Label(k), pcommon.NewValueStr(v))
	}
	return logqlmetric.Sample{Data: value, Set: newAggregatedLabels(set, nil, nil)}
}

func zzDemoEval(t *testing.T, expr *logql.VectorAggregationExpr, in []logqlmetric.Sample) []string {
	t.Helper()
	iter, err := logqlmetric.VectorAggregation(
		iterators.Slice([]logqlmetric.Step{{Timestamp: 1, Samples: in}}),
		expr,
	)
	if err != nil {
		t.Fatal(err)
	}
	var r logqlmetric.Step
	if !iter.Next(&r) {
		t.Fatal("no step returned")
	}
	var out []string
	for _, s := range r.Samples {
		m := s.Set.AsLokiAPI()
		out = append(out, fmt.Sprintf("{instance=%q, path=%.20q...} %v", m["instance"], m["path"], s.Data))
	}
	sort.Strings(out)
	return out
}

// Input vector: two series whose "path" labels differ.
//
//	{instance="i1", path=zzDemoPath1} 1
//	{instance="i2", path=zzDemoPath2} 2
//
// `sum by (path)` must report two series ({path=P1} 1 and {path=P2} 2), `count by (path)` two
// series with value 1 each, `topk by (path) (1, v)` both input series. The program reports ONE
// group in every case, because the group identity is only the 64-bit xxhash of the retained
// labels (aggregatedLabels.Key) and these two label sets have the same hash.
func TestBugDistinctGroupsMergedByGroupingKeyCollision(t *testing.T) {
	if zzDemoPath1 == zzDemoPath2 {
		t.Fatal("test is broken: the two label values must differ")
	}
	in := []logqlmetric.Sample{
		zzDemoSeries(1, map[string]string{"instance": "i1", "path": zzDemoPath1}),
		zzDemoSeries(2, map[string]string{"instance": "i2", "path": zzDemoPath2}),
	}
	k1 := in[0].Set.By("path").Key()
	k2 := in[1].Set.By("path").Key()
	t.Logf("grouping keys of the two distinct label sets {path=P1}, {path=P2}: %#x, %#x", k1, k2)

	one := 1
	byPath := &logql.Grouping{Labels: []logql.Label{"path"}}
	withoutInstance := &logql.Grouping{Without: true, Labels: []logql.Label{"instance"}}
	for _, tt := range []struct {
		name string
		expr *logql.VectorAggregationExpr
		want int
	}{
		{"sum by (path) (v)", &logql.VectorAggregationExpr{Op: logql.VectorOpSum, Grouping: byPath}, 2},
		{"count by (path) (v)", &logql.VectorAggregationExpr{Op: logql.VectorOpCount, Grouping: byPath}, 2},
		{"max without (instance) (v)", &logql.VectorAggregationExpr{Op: logql.VectorOpMax, Grouping: withoutInstance}, 2},
		{"topk by (path) (1, v)", &logql.VectorAggregationExpr{Op: logql.VectorOpTopk, Parameter: &one, Grouping: byPath}, 2},
	} {
		got := zzDemoEval(t, tt.expr, in)
		if len(got) != tt.want {
			t.Errorf("%s over v = [{instance=i1,path=P1} 1, {instance=i2,path=P2} 2] with P1 != P2:\n"+
				"  the property requires one series per distinct combination of the retained labels, i.e. %d series "+
				"(one for path=P1, one for path=P2), each aggregating exactly its own input series;\n"+
				"  the program returned %d series: %v\n  P1=%s\n  P2=%s",
				tt.name, tt.want, len(got), got, zzDemoPath1, zzDemoPath2)
		}
	}
}
