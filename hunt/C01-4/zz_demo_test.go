package dockerlog

import (
	"bytes"
	"context"
	"encoding/binary"
	"fmt"
	"io"
	"regexp"
	"sort"
	"testing"

	"github.com/docker/docker/api/types"
	apicontainer "github.com/docker/docker/api/types/container"
	"github.com/docker/docker/client"

	"github.com/tdakkota/docker-logql/internal/logql/logqlengine"
	"github.com/tdakkota/docker-logql/internal/lokiapi"
	"github.com/tdakkota/docker-logql/internal/otelstorage"
)

// bugDemoClient is a Docker daemon with one container "web" that logged two lines.
type bugDemoClient struct {
	client.APIClient
}

func (bugDemoClient) ContainerList(context.Context, apicontainer.ListOptions) ([]types.Container, error) {
	return []types.Container{{ID: "id1", Names: []string{"/web"}}}, nil
}

func (bugDemoClient) ContainerLogs(context.Context, string, apicontainer.LogsOptions) (io.ReadCloser, error) {
	var buf bytes.Buffer
	for _, l := range []string{
		"2024-02-11T09:37:32.000000001Z hello world\n",
		"2024-02-11T09:37:33.000000001Z bye\n",
	} {
		var hdr [8]byte
		hdr[0] = 1 // stdout
		binary.BigEndian.PutUint32(hdr[4:], uint32(len(l)))
		buf.Write(hdr[:])
		buf.WriteString(l)
	}
	return io.NopCloser(&buf), nil
}

// bugDemoNoOffload is the same storage, but it offloads nothing:
// the engine evaluates every selector matcher on its behalf.
type bugDemoNoOffload struct{ *Querier }

func (bugDemoNoOffload) Capabilities() logqlengine.QuerierCapabilities {
	return logqlengine.QuerierCapabilities{}
}

func bugDemoEval(t *testing.T, q logqlengine.Querier, query string) lokiapi.Streams {
	t.Helper()
	eng := logqlengine.NewEngine(q, logqlengine.Options{})
	data, err := eng.Eval(context.Background(), query, logqlengine.EvalParams{
		Start: otelstorage.Timestamp(1700000000_000000000),
		End:   otelstorage.Timestamp(1800000000_000000000),
		Limit: -1,
	})
	if err != nil {
		t.Fatalf("query %s: unexpected error: %v", query, err)
	}
	return data.StreamsResult.Result
}

func bugDemoLines(streams lokiapi.Streams) []string {
	res := []string{}
	for _, s := range streams {
		for _, e := range s.Values {
			res = append(res, fmt.Sprintf("%d %q", e.T, e.V))
		}
	}
	sort.Strings(res)
	return res
}

// Every stream the engine returns carries the label `msg` (the record body,
// see LabelSet.SetFromRecord). The selector matcher on it must hold for
// every returned stream.
func TestBugSelectorOnMsgLabelReturnsNonMatchingRecord(t *testing.T) {
	q, err := NewQuerier(bugDemoClient{})
	if err != nil {
		t.Fatal(err)
	}

	const query = `{container="web", msg!~"(?s)hello.*"}`
	re := regexp.MustCompile(`^(?s:hello.*)$`)
	for _, s := range bugDemoEval(t, q, query) {
		labels := s.Stream.Value
		if msg := labels["msg"]; re.MatchString(msg) {
			t.Errorf("container web logged \"hello world\\n\" and \"bye\\n\"; query %s\n"+
				"property: the result contains no non-matching record\n"+
				"got a stream with labels %v (%d entries): its label msg=%q matches the regexp the selector excludes",
				query, labels, len(s.Values), msg)
		}
	}
}

// The result must not depend on who evaluates the selector matchers.
func TestBugSelectorOnMsgLabelDependsOnOffloading(t *testing.T) {
	q, err := NewQuerier(bugDemoClient{})
	if err != nil {
		t.Fatal(err)
	}

	for _, query := range []string{
		`{container="web", msg=~"(?s)hello.*"}`,
		`{container="web", msg!~"(?s)hello.*"}`,
		`{msg="bye\n"}`,
	} {
		offloaded := bugDemoLines(bugDemoEval(t, q, query))
		byEngine := bugDemoLines(bugDemoEval(t, bugDemoNoOffload{q}, query))
		if fmt.Sprint(offloaded) != fmt.Sprint(byEngine) {
			t.Errorf("container web logged \"hello world\\n\" and \"bye\\n\"; query %s\n"+
				"property: the result is the same whichever selector matchers the storage backend evaluates itself\n"+
				"  selector evaluated by the dockerlog backend (Label caps =,!=,=~,!~): %v\n"+
				"  selector evaluated by the engine (same backend, no Label caps):     %v",
				query, offloaded, byEngine)
		}
	}
}
