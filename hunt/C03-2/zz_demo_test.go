package dockerlog

import (
	"bytes"
	"encoding/binary"
	"io"
	"testing"
	"time"

	"go.opentelemetry.io/collector/pdata/pcommon"

	"github.com/tdakkota/docker-logql/internal/logstorage"
	"github.com/tdakkota/docker-logql/internal/otelstorage"
)

func bugFrame(typ byte, payload string) []byte {
	var h [8]byte
	h[0] = typ
	binary.BigEndian.PutUint32(h[4:], uint32(len(payload)))
	return append(h[:], payload...)
}

// TestBugOutOfRangeTimestampSilentlyAltered feeds the decoder well-formed
// frames whose RFC 3339 timestamp cannot be held in the record's
// nanoseconds-since-1970 field. Such a timestamp can only be handled in two
// ways that agree with the property: keep it exact, or report an error. The
// decoder does neither: it delivers the record, without an error, stamped
// with a different instant.
func TestBugOutOfRangeTimestampSilentlyAltered(t *testing.T) {
	for _, raw := range []string{
		// What Docker prints for a log entry that has no time (zero time.Time).
		"0001-01-01T00:00:00.000000000Z",
		// One nanosecond before the smallest instant an int64 of nanoseconds holds.
		"1677-09-21T00:12:43.145224191Z",
		// One nanosecond after the largest instant a uint64 of nanoseconds holds.
		"2554-07-21T23:34:33.709551616Z",
	} {
		wantTime, err := time.Parse(time.RFC3339Nano, raw)
		if err != nil {
			t.Fatalf("test bug: %v", err)
		}

		stream := bugFrame(1, raw+" hello\n")
		iter := ParseLog(io.NopCloser(bytes.NewReader(stream)), otelstorage.Attrs(pcommon.NewMap()))

		var r logstorage.Record
		ok := iter.Next(&r)
		if !ok {
			if iter.Err() == nil {
				t.Errorf("input: one stdout frame %q: record dropped without an error", raw+" hello\n")
			}
			// Reported as an error: agrees with the property.
			continue
		}
		if got := r.Timestamp.AsTime(); !got.Equal(wantTime) {
			t.Errorf("input: one stdout frame %q.\n"+
				"property requires: \"nanosecond-exact timestamps\", and a timestamp that cannot be taken is \"reported as an error and never silently dropped\".\n"+
				"program: Next()=true, Err()=%v, record Timestamp=%d, that is %s, which is not the instant %s of the frame",
				raw+" hello\n", iter.Err(), uint64(r.Timestamp),
				got.UTC().Format(time.RFC3339Nano), wantTime.UTC().Format(time.RFC3339Nano))
		}
	}
}

// TestBugDistinctInstantsCollide: two frames with different instants, 584
// years apart, are decoded to the very same Timestamp value.
func TestBugDistinctInstantsCollide(t *testing.T) {
	a, b := "1677-09-21T00:12:43.145224191Z", "2262-04-11T23:47:16.854775807Z"
	stream := append(bugFrame(1, a+" first\n"), bugFrame(2, b+" second\n")...)
	iter := ParseLog(io.NopCloser(bytes.NewReader(stream)), otelstorage.Attrs(pcommon.NewMap()))

	var (
		r   logstorage.Record
		tss []otelstorage.Timestamp
	)
	for iter.Next(&r) {
		tss = append(tss, r.Timestamp)
	}
	if err := iter.Err(); err != nil {
		return // reported: fine
	}
	if len(tss) == 2 && tss[0] == tss[1] {
		t.Errorf("input: frames %q and %q.\nproperty requires nanosecond-exact timestamps (or an error).\n"+
			"program: no error, and both records carry Timestamp=%d", a+" first\n", b+" second\n", uint64(tss[0]))
	}
}
