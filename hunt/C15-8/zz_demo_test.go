package main

import (
	"bytes"
	"context"
	"encoding/binary"
	"fmt"
	"io"
	"testing"
	"time"

	"github.com/docker/docker/api/types"
	apicontainer "github.com/docker/docker/api/types/container"
	"github.com/docker/docker/client"
	"go.opentelemetry.io/collector/pdata/pcommon"

	"github.com/tdakkota/docker-logql/internal/dockerlog"
	"github.com/tdakkota/docker-logql/internal/logql/logqlengine"
)

type bug2Line struct {
	ts  time.Time
	msg string
}

type bug2Ctr struct {
	c     types.Container
	lines []bug2Line
}

// bug2Client is a Docker daemon stand-in: only the two calls the querier makes.
type bug2Client struct {
	client.APIClient
	ctrs []bug2Ctr
}

func (f *bug2Client) ContainerList(context.Context, apicontainer.ListOptions) ([]types.Container, error) {
	var r []types.Container
	for _, c := range f.ctrs {
		r = append(r, c.c)
	}
	return r, nil
}

func (f *bug2Client) ContainerLogs(_ context.Context, id string, _ apicontainer.LogsOptions) (io.ReadCloser, error) {
	for _, c := range f.ctrs {
		if c.c.ID != id {
			continue
		}
		var buf bytes.Buffer
		for _, l := range c.lines {
			payload := l.ts.UTC().Format("2006-01-02T15:04:05.000000000Z07:00") + " " + l.msg
			var hdr [8]byte
			hdr[0] = 1 // stdout
			binary.BigEndian.PutUint32(hdr[4:], uint32(len(payload)))
			buf.Write(hdr[:])
			buf.WriteString(payload)
		}
		return io.NopCloser(&buf), nil
	}
	return nil, fmt.Errorf("no such container %q", id)
}

func bug2Query(t *testing.T, f *bug2Client, query string, opts renderOptions) string {
	t.Helper()
	q, err := dockerlog.NewQuerier(f)
	if err != nil {
		t.Fatal(err)
	}
	eng := logqlengine.NewEngine(q, logqlengine.Options{})
	data, err := eng.Eval(context.Background(), query, logqlengine.EvalParams{
		Start: pcommon.NewTimestampFromTime(time.Date(2024, 1, 1, 0, 0, 0, 0, time.UTC)),
		End:   pcommon.NewTimestampFromTime(time.Date(2024, 1, 2, 0, 0, 0, 0, time.UTC)),
		Limit: -1,
	})
	if err != nil {
		t.Fatalf("eval %s: %v", query, err)
	}
	var out bytes.Buffer
	if err := renderResult(&out, opts, data); err != nil {
		t.Fatalf("render: %v", err)
	}
	return out.String()
}

// One container named "orchestrator" whose application logs JSON (resp. logfmt)
// lines that happen to have a field called "container" (it talks about OTHER
// containers). The queries {} | json and {} | logfmt name no label at all.
func TestBugParserStageFieldReplacesTheContainerName(t *testing.T) {
	base := time.Date(2024, 1, 1, 12, 0, 0, 0, time.UTC)
	jsonLine := `{"event":"restart","container":"redis"}`
	logfmtLine := `event=restart container=redis`
	f := &bug2Client{ctrs: []bug2Ctr{{
		c: types.Container{ID: "id-orch", Names: []string{"/orchestrator"}},
		lines: []bug2Line{
			{base, jsonLine + "\n"},
		},
	}}}
	g := &bug2Client{ctrs: []bug2Ctr{{
		c: types.Container{ID: "id-orch", Names: []string{"/orchestrator"}},
		lines: []bug2Line{
			{base, logfmtLine + "\n"},
		},
	}}}

	opts := renderOptions{container: true} // timestamp off, colour off

	// Sanity: without a parser stage the name is right.
	if got, want := bug2Query(t, f, `{}`, opts), "orchestrator "+jsonLine+"\n"; got != want {
		t.Fatalf("query {}: got %q want %q", got, want)
	}

	for _, tc := range []struct {
		cl    *bug2Client
		query string
		line  string
	}{
		{f, `{} | json`, jsonLine},
		{g, `{} | logfmt`, logfmtLine},
	} {
		got := bug2Query(t, tc.cl, tc.query, opts)
		want := "orchestrator " + tc.line + "\n"
		if got != want {
			t.Errorf("container /orchestrator logged the line %q; query %s rendered with container=on timestamp=off colour=off.\n"+
				"The property requires the line to consist of the container name and the message: %q\n"+
				"the program printed a field of the message in place of the name of the container that wrote it: %q",
				tc.line, tc.query, want, got)
		}
	}
}
